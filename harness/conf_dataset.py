"""C08 -- dataset arithmetic, well-formedness, no aliasing surprises: binding of specs/DatasetArith.tla and
specs/DatasetHeap.tla to valjean.eponine.dataset.Dataset.

Numerical part (DatasetArith.tla / DatasetArithTrace.tla)
  spec -> code : every state TLC dumps (op x right-operand kind x operand cells with values of either sign and
                 zero, errors 0..2, scalars +-2, +-1, +-1/2) is executed on real Datasets of several shapes
                 (0-d scalars, (n,), (1,n), (2,2), with edge / centre / no bins); value, error^2 (as exact
                 rationals) and the sign of the error are compared with the cells TLC computed.
  code -> spec : seeded random operations on bigger arrays (and every arithmetic step of the heap traces
                 below whose operands are small rationals) are recorded and judged by TLC (DatasetArithTrace).
Structural part (DatasetHeap.tla / DatasetHeapTrace.tla)
  spec -> code : every operation sequence of the exhaustively checked pool model (<= 2 steps) and of TLC
                 simulations (<= 6 steps) -- add/sub/mul/div with dataset|array|scalar, copy, mask, squeeze,
                 slices, writes into arrays, rebinding of bins -- is executed on real Datasets; after every
                 step all arrays of all datasets are re-read (identity, np.shares_memory between every pair,
                 data digests, shapes, sign of errors) and the recorded steps are judged by TLC with
                 DatasetHeap!Clauses (DatasetHeapTrace.tla).
  code -> spec : seeded random chains (<= 8 operations, shapes to 4-d, 1-3 initial datasets) judged the same way.
Every VIOLATION is a clause TLC found false on a recorded implementation step.
"""
import json
import math
import os
import re
from collections import OrderedDict
from concurrent.futures import ThreadPoolExecutor
from fractions import Fraction

import numpy as np

import tlc
from tlc import Raw
from tlaval import parse_value, to_tla

ARITH = os.path.join(tlc.SPECS, 'DatasetArith.tla')
ARITH_TRACE = os.path.join(tlc.SPECS, 'DatasetArithTrace.tla')
HEAP = os.path.join(tlc.SPECS, 'DatasetHeap.tla')
HEAP_TRACE = os.path.join(tlc.SPECS, 'DatasetHeapTrace.tla')
ARITH_INVS = ['WellFormed', 'AbsoluteQuadrature', 'RelativeQuadrature', 'ConstantFactor', 'Algebra']
ARITH_WITNESSES = ['W_NegFactor', 'W_NegDivisor', 'W_ZeroValue', 'W_Fraction']
HEAP_INVS = ['TypeOK', 'WellFormed', 'ErrNonNeg', 'CopyIsolated']
HEAP_PROPS = ['StepsAreLegal', 'OperandsUnchanged', 'CopyIndependent']
HEAP_WITNESSES = ['W_SharedErr', 'W_ViewWritten', 'W_CopyThenWrite', 'W_SqueezeDrops']
ARITH_OPS = ('add', 'sub', 'mul', 'div')
UNARY_OPS = ('copy', 'mask', 'squeeze', 'sliceall', 'slicesub')
ALL_OPS = ARITH_OPS + UNARY_OPS + ('mutate', 'rebind')
SCALARS = [(-2, 1), (-1, 1), (1, 1), (2, 1), (1, 2), (-1, 2)]


def _apply(op, l, r, spelling=None):
    """spelling: None = binary operator; 'aug' = augmented assignment (x = l; x += r: the name is re-bound, the object
    that was the left operand -- and everything sharing its arrays -- must be left alone); 'dunder' = explicit method call;
    'reflected' (scalars and arrays on the left of a commutative operator)."""
    if spelling == 'aug':
        x = l
        if op == 'add':
            x += r
        elif op == 'sub':
            x -= r
        elif op == 'mul':
            x *= r
        else:
            x /= r
        return x
    if spelling == 'dunder':
        return getattr(l, {'add': '__add__', 'sub': '__sub__', 'mul': '__mul__', 'div': '__truediv__'}[op])(r)
    if op == 'add':
        return l + r
    if op == 'sub':
        return l - r
    if op == 'mul':
        return l * r
    return l / r


def _bins_for(shape, kind, offset=0.0):
    if kind == 'none' or not shape:
        return None
    bins = OrderedDict()
    for d, n in enumerate(shape):
        npos = n + 1 if kind == 'edges' else n
        bins['b%d' % d] = 100.0 * (d + 1) + offset + np.arange(npos, dtype=float)
    return bins


def _digest(ds):
    return (np.asarray(np.ma.getdata(ds.value), dtype=float).tobytes(), np.asarray(np.ma.getdata(ds.error), dtype=float).tobytes(),
            np.ma.getmaskarray(ds.value).tobytes() if isinstance(ds.value, np.ma.MaskedArray) else b'',
            np.ma.getmaskarray(ds.error).tobytes() if isinstance(ds.error, np.ma.MaskedArray) else b'',
            np.shape(ds.value), tuple((k, np.asarray(v, dtype=float).tobytes()) for k, v in ds.bins.items()), ds.name, ds.what)


def _rat(x, maxden=1 << 22):
    """Float -> [num, den] in lowest terms when x is (numerically) a small rational, else [0, 0].  With true
    denominators below 10^6 (operands are bounded) the rational within 1e-11 relative is unique."""
    x = float(x)
    if math.isnan(x) or math.isinf(x):
        return [0, 0]
    fr = Fraction(x).limit_denominator(maxden)
    if abs(float(fr) - x) > 1e-11 * abs(x) or abs(fr.numerator) >= 1 << 30:
        return [0, 0]
    return [fr.numerator, fr.denominator]


# ---------------------------------------------------------------------------------------------
# numerical part

def _small(fr_v, fr_e2):
    """Operand cells TLC can compute on without 32-bit overflow (see DatasetArithTrace)."""
    return (abs(fr_v.numerator) <= 12 and fr_v.denominator <= 2 and 0 <= fr_e2.numerator <= 64 and fr_e2.denominator <= 4)


LAYOUTS = ('F', 'T', 'strided', 'ro')


def _lay(arr, layout):
    """The same numbers stored differently: Fortran order, a transposed view, every other element of a larger buffer,
    or a read-only array."""
    arr = np.asarray(arr)
    if arr.ndim == 0 or layout in (None, 'C'):
        return arr
    if layout == 'F':
        return np.asfortranarray(arr)
    if layout == 'T':
        return np.ascontiguousarray(arr.T).T
    if layout == 'strided':
        big = np.zeros(arr.shape[:-1] + (2 * arr.shape[-1],), dtype=arr.dtype)
        big[..., ::2] = arr
        return big[..., ::2]
    if layout == 'ro':
        arr = arr.copy()
        arr.flags.writeable = False
        return arr
    return arr


def arith_observe(case):
    """One arithmetic operation on real datasets.  case: op, rk, shape, kind, dtype, cells = list of
    dict(lv, le, rv, re) with rationals [num, den] (le, re: errors, not squared).  Returns (obs, problem)."""
    from valjean.eponine.dataset import Dataset
    shape = tuple(case['shape'])
    cells = case['cells']
    fl = lambda key: np.array([c[key][0] / c[key][1] for c in cells], dtype=float)
    scalar_ds = case.get('scalar_ds', False)

    def mkds(vkey, ekey, name, bins):
        v, e = fl(vkey), fl(ekey)
        if case.get('dtype') == 'int' and all(c[vkey][1] == 1 for c in cells):
            v = v.astype(np.int64)
        if scalar_ds:
            return Dataset(v.reshape(())[()], np.float64(e.reshape(())[()]), name=name, what='w' + name)
        return Dataset(_lay(v.reshape(shape), case.get('layout')), _lay(e.reshape(shape), case.get('layout')), bins=bins,
                       name=name, what='w' + name)
    try:
        left = mkds('lv', 'le', 'left', _bins_for(shape, case.get('bins', 'none')))
        if case['rk'] == 'ds':
            right = mkds('rv', 're', 'right', _bins_for(shape, case.get('bins', 'none') if case.get('rbins', True) else 'none'))
        elif case['rk'] == 'array':
            right = fl('rv').reshape(shape)
            if all(c['rv'][1] == 1 for c in cells) and case.get('dtype') == 'int':
                right = right.astype(np.int64)
            right = _lay(right, case.get('layout'))
        else:
            n, d = cells[0]['rv']
            right = int(n) if d == 1 and case.get('dtype') == 'int' else n / d
        before = _digest(left)
        rbefore = _digest(right) if case['rk'] == 'ds' else (right.tobytes() if case['rk'] == 'array' else right)
        with np.errstate(all='ignore'):
            res = _apply(case['op'], left, right, case.get('spelling'))
        if _digest(left) != before:
            return None, 'left operand modified'
        rafter = _digest(right) if case['rk'] == 'ds' else (right.tobytes() if case['rk'] == 'array' else right)
        if rafter != rbefore:
            return None, 'right operand modified'
        if np.shape(res.value) != np.shape(res.error) or np.shape(res.value) != np.shape(left.value):
            return None, 'result shapes: value %s error %s, left operand %s' % (np.shape(res.value), np.shape(res.error), np.shape(left.value))
        if list(res.bins) != list(left.bins) or any(not np.array_equal(res.bins[k], left.bins[k]) for k in left.bins):
            return None, 'bins of the left operand not kept'
        rv = np.asarray(res.value, dtype=float).reshape(-1)
        re_ = np.asarray(res.error, dtype=float).reshape(-1)
        out = []
        for k, c in enumerate(cells):
            le2 = Fraction(*c['le']) ** 2
            re2 = Fraction(*c['re']) ** 2
            out.append(dict(lv=c['lv'], le2=[le2.numerator, le2.denominator], rv=c['rv'], re2=[re2.numerator, re2.denominator],
                            ov=_rat(rv[k]), oe2=_rat(re_[k] ** 2), oneg=bool(re_[k] < 0)))
        return dict(op=case['op'], rk=case['rk'], inNonNeg=True, cells=out), None
    except Exception as ex:  # pylint: disable=broad-except
        return None, 'raised %s: %s' % (type(ex).__name__, ex)


def _judge(trace_spec, cases, wd, ctx, name, chunk, jobs=6, constants=None):
    """Run TLC on batches of JSON cases; returns the concatenated `bad` lists.  `ctx`: None or a list that
    receives (run name, TLCResult) for the caller to account."""
    cfg = tlc.write_cfg(os.path.join(wd, name + '.cfg'), spec='TSpec', constants=constants or {}, deadlock=False, postcondition='Post')

    def one(k):
        sub = cases[k]
        cj = tlc.json_dump(os.path.join(wd, '%s_cases_%d.json' % (name, k)), sub)
        oj = os.path.join(wd, '%s_out_%d.json' % (name, k))
        res = tlc.run(trace_spec, cfg, workers=1, env=dict(VERIF_CASES=cj, VERIF_OUT=oj), timeout=1800, coverage=False)
        if not res.ok or res.distinct != len(sub) + 1:
            raise tlc.MachineryError('%s: %s, %d states for %d cases\n%s' % (name, res.violation, res.distinct, len(sub), res.out[-2500:]))
        with open(oj) as f:
            bad = json.load(f)['bad']
        os.remove(cj)
        return k, res, bad
    out = []
    with ThreadPoolExecutor(max_workers=jobs) as pool:
        for k, res, bad in pool.map(one, range(len(cases))):
            if ctx is not None:
                ctx.append(('%s/batch%d' % (name, k), res))     # accounted by the caller, in a fixed order
            out += bad
    return out


def judge_arith(batch, wd, ctx=None, chunk=4000):
    """batch: list of (cid, obs).  Returns {cid: set(clauses)}."""
    chunks = [[dict(obs, id=cid) for cid, obs in batch[k:k + chunk]] for k in range(0, len(batch), chunk)]
    return {cid: set(cl) for cid, cl in _judge(ARITH_TRACE, chunks, wd, ctx, 'DatasetArithTrace', chunk)}


def _arith_key(clause, op, rk):
    return 'C08/%s/%s-%s' % (clause, op, rk)


# ---------------------------------------------------------------------------------------------
# structural part: a recorder around a pool of real datasets

class Recorder:
    def __init__(self, tid):
        self.tid = tid
        self.k = 0
        self.pool = []
        self.bufs = []        # array objects, buffer id = position + 1
        self.tok = {}         # buffer id -> data token
        self.mtok = {}        # buffer id -> mask bytes as last observed
        self.digests = {}     # data digest -> token
        self.recs = []        # records of the pool as last observed
        self.steps = []       # JSON steps for DatasetHeapTrace
        self.arith = []       # (step number, obs for DatasetArithTrace, op, rk)
        self.pairs = set()

    def buf_id(self, arr):
        for k, a in enumerate(self.bufs):
            if a is arr:
                return k + 1
        self.bufs.append(arr)
        return len(self.bufs)

    def token(self, arr):
        data = np.asarray(np.ma.getdata(arr), dtype=float)
        dg = data.tobytes()
        return self.digests.setdefault(dg, len(self.digests) + 1)

    @staticmethod
    def record_of(ds, ids):
        shape = list(np.shape(ds.value))
        kinds = []
        if len(ds.bins) == len(shape):
            for (key, arr), n in zip(ds.bins.items(), shape):
                ln = len(arr)
                kinds.append('edges' if ln == n + 1 else 'centres' if ln == n else 'bad')
        else:
            kinds = ['bad'] * len(ds.bins)
        err = np.asarray(np.ma.getdata(ds.error), dtype=float)
        return dict(shape=shape, eshape=list(np.shape(ds.error)), val=ids[0], err=ids[1], bins=ids[2], kinds=kinds,
                    nonneg=not bool(np.any(err < 0)), masked=isinstance(ds.value, np.ma.MaskedArray))

    def observe(self, step):
        """Re-read the whole pool; fill new / mod / ct / al of `step` and append it."""
        nold = len(self.bufs)
        recs = []
        for ds in self.pool:
            ids = (self.buf_id(ds.value), self.buf_id(ds.error), [self.buf_id(a) for a in ds.bins.values()])
            recs.append(self.record_of(ds, ids))
        ct = []
        for b, arr in enumerate(self.bufs, 1):
            t = self.token(arr)
            # the mask of a masked array is part of what the array says: if the mask of an array that existed before this
            # step changed, its content changed (reported with a token of its own)
            mk = np.ma.getmaskarray(arr).tobytes() if isinstance(arr, np.ma.MaskedArray) else b''
            if b <= nold and self.mtok.get(b, mk) != mk:
                t = self.digests.setdefault(b'mask-changed' + mk + np.asarray(np.ma.getdata(arr), dtype=float).tobytes(), len(self.digests) + 1)
            self.mtok[b] = mk
            if self.tok.get(b) != t:
                ct.append([b, t])
                self.tok[b] = t
        al = []
        for b in range(nold + 1, len(self.bufs) + 1):
            for a in range(1, b):
                try:
                    sh = np.shares_memory(np.ma.getdata(self.bufs[a - 1]), np.ma.getdata(self.bufs[b - 1]))
                except Exception:  # pylint: disable=broad-except
                    sh = False
                if sh:
                    al.append([a, b])
        nprev = len(self.recs)
        mod = [[k + 1, r] for k, r in enumerate(recs[:nprev]) if r != self.recs[k]]
        new = recs[nprev:]
        if step['op'] == 'init':
            mod, new = [[k + 1, r] for k, r in enumerate(recs)], []
        self.recs = recs
        self.k += 1
        full = dict(tid=self.tid, k=self.k, op=step['op'], i=step.get('i', 0), rkind=step.get('rkind', ''), j=step.get('j', 0),
                    buf=step.get('buf', 0), dim=step.get('dim', 0), new=new[:1], mod=mod, ct=ct, al=al)
        self.steps.append(full)
        return full


def _field(ds, fld, dim):
    if fld == 'val':
        return ds.value
    if fld == 'err':
        return ds.error
    return list(ds.bins.values())[dim - 1]


def _cells_of(ds):
    v = np.asarray(np.ma.getdata(ds.value), dtype=float).reshape(-1)
    e = np.asarray(np.ma.getdata(ds.error), dtype=float).reshape(-1)
    return v, e


def _arith_obs_of_step(op, rk, left, right, res):
    """The step as a DatasetArithTrace case, or None when operands are not small exact rationals."""
    lv, le = _cells_of(left)
    if lv.size == 0 or lv.size > 16 or isinstance(left.value, np.ma.MaskedArray):
        return None
    if rk == 'ds':
        if isinstance(right.value, np.ma.MaskedArray):
            return None
        rv, re_ = _cells_of(right)
    elif rk == 'array':
        rv, re_ = np.asarray(right, dtype=float).reshape(-1), np.zeros(lv.size)
    else:
        rv, re_ = np.full(lv.size, float(right)), np.zeros(lv.size)
    ov, oe = _cells_of(res)
    if not (lv.size == rv.size == ov.size == oe.size):
        return None
    cells = []
    for k in range(lv.size):
        q = [_rat(lv[k], 64), _rat(le[k] ** 2, 64), _rat(rv[k], 64), _rat(re_[k] ** 2, 64)]
        if any(x == [0, 0] for x in q):
            return None
        if not _small(Fraction(*q[0]), Fraction(*q[1])) or not _small(Fraction(*q[2]), Fraction(*q[3])):
            return None
        if op == 'div' and q[2][0] == 0:
            return None
        cells.append(dict(lv=q[0], le2=q[1], rv=q[2], re2=q[3], ov=_rat(ov[k]), oe2=_rat(oe[k] ** 2), oneg=bool(oe[k] < 0)))
    in_nonneg = not bool(np.any(le < 0)) and not bool(np.any(re_ < 0))
    return dict(op=op, rk=rk, inNonNeg=in_nonneg, cells=cells)


def run_heap_case(case, tid=1):
    """Execute a concrete chain.  case: dict(setup=dict(shape, kind, bins, second, [dtype, nextra]), steps=[...]).
    Returns (recorder, problem).  A step the implementation refuses (exception) ends the chain with a problem."""
    from valjean.eponine.dataset import Dataset
    su = case['setup']
    shape = tuple(su['shape'])
    size = int(np.prod(shape))
    kind = su['kind'] if su['bins'] else 'none'
    rec = Recorder(tid)

    def mk(n, bins):
        v = (np.arange(size, dtype=float) + 1.0 + n).reshape(shape)
        if su.get('dtype') == 'int':
            v = v.astype(np.int64)
        e = ((np.arange(size) % 3) * 0.5 + 0.5 * (n % 2)).reshape(shape)
        return Dataset(v, e, bins=bins, name='d%d' % n, what='w')
    b1 = _bins_for(shape, kind)
    rec.pool.append(mk(0, b1))
    second = su.get('second', 'none')
    if second != 'none':
        b2 = None if second == 'nobins' else (b1 if second == 'same' else _bins_for(shape, kind))
        rec.pool.append(mk(1, b2))
        for n in range(su.get('nextra', 0)):
            rec.pool.append(mk(2 + n, b1 if second == 'same' else _bins_for(shape, kind) if second == 'equal' else None))
    rec.observe(dict(op='init'))
    for st in case['steps']:
        op = st['op']
        P = rec.pool
        if not 1 <= st['i'] <= len(P) or (st.get('rkind') == 'ds' and not 1 <= st['j'] <= len(P)):
            break           # an earlier step was not applicable to the real datasets: the chain ends here
        try:
            with np.errstate(all='ignore'):
                if op in ARITH_OPS:
                    left = P[st['i'] - 1]
                    if st['rkind'] == 'ds':
                        right = P[st['j'] - 1]
                        # quantifier of C08: dataset operands of the same shape whose bins are equal or absent.  The
                        # model decides this on its own sharing choices; when the real arrays disagree the chain ends.
                        if np.shape(right.value) != np.shape(left.value) or (len(right.bins) and (
                                list(right.bins) != list(left.bins)
                                or any(not np.array_equal(right.bins[key], left.bins[key]) for key in left.bins))):
                            break
                    elif st['rkind'] == 'array':
                        right = np.array(st['array'][:int(np.size(left.value))], dtype=float).reshape(np.shape(left.value))
                    else:
                        right = st['scalar']
                    res = _apply(op, left, right)
                    aobs = _arith_obs_of_step(op, st['rkind'], left, right, res)
                    P.append(res)
                    if aobs is not None:
                        rec.arith.append((rec.k + 1, aobs, op, st['rkind']))
                elif op == 'copy':
                    P.append(P[st['i'] - 1].copy())
                elif op == 'mask':
                    src = P[st['i'] - 1]
                    m = np.zeros(np.shape(src.value), dtype=bool)
                    if m.size:
                        m.reshape(-1)[len(P) % m.size] = True      # another cell at each step: masking a masked dataset widens the mask
                    P.append(src.mask(m))
                elif op == 'squeeze':
                    P.append(P[st['i'] - 1].squeeze())
                elif op in ('sliceall', 'slicesub'):
                    src = P[st['i'] - 1]
                    nd = np.ndim(src.value)
                    if nd == 0 or (op == 'slicesub' and not 1 <= st['dim'] <= nd):
                        break
                    sl = [slice(None)] * nd
                    if op == 'slicesub':
                        sl[st['dim'] - 1] = slice(0, 1)
                    P.append(src[tuple(sl) if nd > 1 else sl[0]])
                elif op == 'mutate':
                    if st['rkind'] == 'bins' and not 1 <= st['dim'] <= len(P[st['i'] - 1].bins):
                        continue
                    arr = _field(P[st['i'] - 1], st['rkind'], st['dim'])
                    if not isinstance(arr, np.ndarray):
                        continue    # a 0-d result holds numpy scalars: nothing to write into
                    st = dict(st, buf=rec.buf_id(arr))
                    data = np.ma.getdata(arr)
                    data[...] = np.where(data < 0, data - 1, data + 1)
                elif op == 'rebind':
                    ds = P[st['i'] - 1]
                    if not 1 <= st['dim'] <= len(ds.bins):
                        continue
                    key = list(ds.bins)[st['dim'] - 1]
                    ds.bins[key] = np.asarray(ds.bins[key], dtype=float) + 1000.0
                else:
                    raise tlc.MachineryError('unknown step %r' % (st,))
        except tlc.MachineryError:
            raise
        except Exception as ex:  # pylint: disable=broad-except
            return rec, (op, 'step %d (%s) raised %s: %s' % (rec.k + 1, op, type(ex).__name__, ex))
        nbuf_before = len(rec.bufs)
        full = rec.observe(st)
        if op not in ('mutate', 'rebind') and (full['mod'] or any(b <= nbuf_before for b, _t in full['ct'])):
            break       # an operation changed an existing dataset (TLC reports it): what follows is outside the quantifier
    return rec, None


HEAP_KEYS = {'copy-shares-value': 'C08/copy-shares-data/value', 'copy-shares-error': 'C08/copy-shares-data/error',
             'copy-shares-bins': 'C08/copy-shares-data/bins', 'copy-not-independent-value': 'C08/copy-shares-data/value',
             'copy-not-independent-error': 'C08/copy-shares-data/error', 'copy-not-independent-bins': 'C08/copy-shares-data/bins',
             'copy-shares-bins-mapping': 'C08/copy-shares-data/bins-mapping'}


def _heap_key(clause, step):
    if clause in HEAP_KEYS:
        return HEAP_KEYS[clause]
    if clause == 'negative-error':
        return _arith_key(clause, step['op'], step['rkind'] or 'none')
    return 'C08/%s/%s' % (clause, step['op'])


def judge_heap(recorders, wd, ctx=None, chunk=3000):
    """Returns {(tid, k): set(clauses)}."""
    chunks, cur = [], []
    for rec in recorders:
        if cur and len(cur) + len(rec.steps) > chunk:
            chunks.append(cur)
            cur = []
        cur += rec.steps
    if cur:
        chunks.append(cur)
    out = {(tid, k): set(cl) for tid, k, cl in _judge(HEAP_TRACE, chunks, wd, ctx, 'DatasetHeapTrace', chunk)}
    if any('missing-step' in cl for cl in out.values()):
        raise tlc.MachineryError('DatasetHeapTrace: recorded steps are not consecutive: %s' % sorted(k for k, cl in out.items() if 'missing-step' in cl)[:5])
    return out


def replay_case(case):
    wd = tlc.workdir('c08r')
    if case['kind'] == 'arith':
        obs, problem = arith_observe(case)
        if problem:
            return False, problem
        clauses = judge_arith([(1, obs)], wd).get(1, set())
        want = case.get('clause')
        hit = (want in clauses) if want else bool(clauses)
        return not hit, 'DatasetArithTrace.tla clauses violated: %s; cells %s' % (sorted(clauses) or 'none', obs['cells'])
    rec, problem = run_heap_case(case)
    if problem:
        return False, problem[1]
    verdict = judge_heap([rec], wd)
    averdict = judge_arith([(k, obs) for k, obs, _op, _rk in rec.arith], wd) if rec.arith else {}
    found = {(k, cl) for (_t, k), cls in verdict.items() for cl in cls} | {(k, cl) for k, cls in averdict.items() for cl in cls}
    want = case.get('clause')
    hit = any(cl == want for _k, cl in found) if want else bool(found)
    return not hit, 'clauses violated (step, clause): %s; steps %s' % (sorted(found) or 'none', [(s['k'], s['op'], s['i'], s['rkind'], s['j'], s['dim']) for s in rec.steps])


# ---------------------------------------------------------------------------------------------
# TLC side

def _mc(wd, name, base, defs):
    path = os.path.join(wd, name + '.tla')
    with open(path, 'w') as f:
        f.write('---- MODULE %s ----\nEXTENDS %s\n%s\n====\n' % (name, base, '\n'.join('%s == %s' % kv for kv in defs.items())))
    return path


def _iset(xs):
    return '{' + ', '.join(str(x) for x in xs) + '}'


def _arith_cases_of_state(st, rng):
    """Concrete implementation cases for one dumped state of DatasetArith (several shapes / bins / dtypes)."""
    n = len(st['left'])
    cells = []
    for l, r in zip(st['left'], st['right']):
        le = math.isqrt(l['e2'][0])
        re_ = math.isqrt(r['e2'][0])
        cells.append(dict(lv=[l['v'][0], l['v'][1]], le=[le, 1], rv=[r['v'][0], r['v'][1]], re=[re_, 1]))
    base = dict(kind='arith', op=st['op'], rk=st['rk'], cells=cells)
    out = []
    if n == 1:
        out.append(dict(base, shape=[], scalar_ds=True, dtype='float'))
        out.append(dict(base, shape=[1], dtype='int'))
        out.append(dict(base, shape=[1, 1], dtype='float'))
    else:
        out.append(dict(base, shape=[n], dtype='float'))
        out.append(dict(base, shape=[1, n], dtype='int'))
        out.append(dict(base, shape=[n, 1], dtype='float'))
    for c in out:
        c['bins'] = rng.choice(['edges', 'centres', 'none'])
        c['rbins'] = rng.random() < 0.6
    if n > 1:
        out.append(dict(out[rng.randrange(len(out))], layout=rng.choice(LAYOUTS)))
    out.append(dict(out[rng.randrange(len(out))], spelling=rng.choice(['aug', 'aug', 'dunder'])))
    return out


def _expected_cells(st):
    return [dict(v=[o['v'][0], o['v'][1]], e2=[o['e2'][0], o['e2'][1]]) for o in st['out']]


def _random_arith_case(rng):
    op = rng.choice(ARITH_OPS)
    rk = rng.choice(['ds', 'array', 'scalar', 'scalar'])
    ndim = rng.choice([0, 1, 1, 2, 3])
    while True:
        shape = [rng.randint(1, 3) for _ in range(ndim)]
        n = int(np.prod(shape)) if shape else 1
        if n <= 12:
            break
    half = lambda lo, hi: [rng.randint(lo, hi), rng.choice([1, 1, 2])]
    sc = half(-12, 12)
    while sc[0] == 0:
        sc = half(-12, 12)
    cells = []
    for _ in range(n):
        rv = half(-12, 12) if rk != 'scalar' else sc
        while op == 'div' and rv[0] == 0:
            rv = half(-12, 12)
        err = lambda: rng.choice([[0, 1], [1, 2], [1, 1], [3, 2], [2, 1], [3, 1], [4, 1]])
        cells.append(dict(lv=half(-12, 12), le=err(), rv=rv, re=err() if rk == 'ds' else [0, 1]))
    for c in cells:
        for key in ('lv', 'rv'):
            fr = Fraction(*c[key])
            c[key] = [fr.numerator, fr.denominator]
    return dict(kind='arith', op=op, rk=rk, shape=shape, scalar_ds=(not shape and rng.random() < 0.5), cells=cells,
                dtype=rng.choice(['int', 'float']), bins=rng.choice(['edges', 'centres', 'none']), rbins=rng.random() < 0.6,
                layout=rng.choice((None, None) + LAYOUTS), spelling=rng.choice([None, None, 'aug', 'dunder']))


_HIST_RE = re.compile(r'/\\ hist = (.*?)\n/\\ ', re.S)
_SETUP_RE = re.compile(r'/\\ setup = (.*?)\n(?:/\\ |\n|$)', re.S)


def _behaviours(text):
    """(setup, hist) texts of every state block in a dump / of the last state of a simulation file."""
    return _SETUP_RE.findall(text), _HIST_RE.findall(text)


def _concrete(setup, hist, rng):
    steps = []
    for h in hist:
        st = dict(op=h['op'], i=h['i'], rkind=h['rkind'], j=h['j'], dim=h['dim'])
        if h['op'] in ARITH_OPS and h['rkind'] == 'scalar':
            n, d = rng.choice(SCALARS + [(3, 1), (-3, 1)])
            st['scalar'] = n / d if d != 1 or rng.random() < 0.5 else int(n)
        if h['op'] in ARITH_OPS and h['rkind'] == 'array':
            st['array'] = [rng.choice([-3, -2, -1, 1, 2, 3]) for _ in range(64)]
        steps.append(st)
    return dict(kind='heap', setup=dict(shape=[int(x) for x in setup['shape']], kind=setup['kind'], bins=bool(setup['bins']),
                                        second=setup['second']), steps=steps)


def _random_heap_case(rng):
    ndim = rng.choice([1, 1, 2, 2, 3, 4])
    while True:
        shape = [rng.choice([1, 2, 2, 3]) for _ in range(ndim)]
        if int(np.prod(shape)) <= 24:
            break
    bins = rng.random() < 0.7
    second = rng.choice(['none', 'nobins', 'equal', 'same']) if bins else rng.choice(['none', 'nobins'])
    setup = dict(shape=shape, kind=rng.choice(['edges', 'centres']), bins=bins, second=second,
                 dtype=rng.choice(['float', 'float', 'int']), nextra=rng.choice([0, 0, 1]) if second != 'none' else 0)
    # a light-weight mirror of the pool (shape, has bins, bins compatible group) to draw applicable steps
    pool = [dict(shape=list(shape), bins=bins, grp=0)]
    if second != 'none':
        pool.append(dict(shape=list(shape), bins=second != 'nobins', grp=0))
        for _ in range(setup['nextra']):
            pool.append(dict(shape=list(shape), bins=second in ('same', 'equal'), grp=0))
    steps = []
    grp = [0]
    for _ in range(rng.randint(1, 8)):
        op = rng.choice(ALL_OPS + ARITH_OPS + ('copy', 'mutate'))
        i = rng.randint(1, len(pool))
        src = pool[i - 1]
        st = dict(op=op, i=i, rkind='', j=0, dim=0)
        if op in ARITH_OPS:
            st['rkind'] = rng.choice(['ds', 'array', 'scalar', 'scalar'])
            if st['rkind'] == 'ds':
                cands = [k + 1 for k, d in enumerate(pool) if d['shape'] == src['shape'] and (not d['bins'] or (src['bins'] and d['grp'] == src['grp']))]
                if not cands:
                    continue
                st['j'] = rng.choice(cands)
            elif st['rkind'] == 'array':
                st['array'] = [rng.choice([-3, -2, -1, 1, 2, 3]) for _ in range(int(np.prod(src['shape'])))]
            else:
                st['scalar'] = rng.choice([2, -2, 0.5, -0.5, -1, 3, -3.0, 1.5])
            pool.append(dict(src))
        elif op in ('copy', 'mask', 'sliceall'):
            if op == 'sliceall' and not src['shape']:
                continue
            pool.append(dict(src))
        elif op == 'squeeze':
            pool.append(dict(src, shape=[n for n in src['shape'] if n != 1]))
        elif op == 'slicesub':
            dims = [d + 1 for d, n in enumerate(src['shape']) if n >= 2]
            if not dims:
                continue
            st['dim'] = rng.choice(dims)
            grp[0] += 1
            pool.append(dict(src, shape=[1 if d + 1 == st['dim'] else n for d, n in enumerate(src['shape'])], grp=grp[0]))
        elif op == 'mutate':
            flds = ['val', 'err'] + (['bins'] if src['bins'] and src['shape'] else [])
            st['rkind'] = rng.choice(flds)
            if st['rkind'] == 'bins':
                st['dim'] = rng.randint(1, len(src['shape']))
                # datasets holding this array may no longer have equal bins: be conservative
                grp[0] += 1
                for d in pool:
                    if d['bins']:
                        d['grp'] = -1 - grp[0] - pool.index(d)
        elif op == 'rebind':
            if not (src['bins'] and src['shape']):
                continue
            st['dim'] = rng.randint(1, len(src['shape']))
            grp[0] += 1
            src['grp'] = grp[0]
        steps.append(st)
    return dict(kind='heap', setup=setup, steps=steps)


_T0 = [0.0]


def _lap(label):
    import time
    if os.environ.get('VERIF_TIMING'):
        now = time.time()
        print('  [timing] %-28s %6.1fs' % (label, now - _T0[0]))
        _T0[0] = now


def run_c08(ctx):
    import time
    _T0[0] = time.time()
    ctx.rule('numerical: every state dumped by TLC for DatasetArith.tla (op x right kind x cells with values -2..2, errors 0..2, '
             'scalars +-2,+-1,+-1/2; one and two cells) is executed on real Datasets in three shape/bins/dtype variants; seeded random '
             'operations on <= 12 cells with half-integer values and every small-rational arithmetic step of the chains are judged by '
             'TLC (DatasetArithTrace). structural: every operation sequence of the exhaustively checked DatasetHeap model and of TLC '
             'simulations, plus seeded random chains, is executed; after each step all arrays are re-read (identity, '
             'np.shares_memory, digests) and judged by TLC (DatasetHeapTrace). distinct_nontrivial counts distinct arithmetic '
             'cases with a non-zero operand error, and distinct chains containing a copy or a write into an array.')
    ctx.assume('values are small integers / half-integers stored exactly in float64 (or int64); errors of results are compared through '
               'their squares mapped to the unique rational with denominator <= 2^22 within 1e-11 relative')
    ctx.assume('right operands are Python int/float scalars, same-shape arrays or datasets with equal or no bins; divisors are non-zero '
               'in the numerical part; non-finite results in chains are not judged numerically')
    ctx.assume('np.shares_memory decides whether two arrays overlap; data tokens are digests of the float64 image of an array')
    wd = tlc.workdir('c08')
    rng = ctx.rng
    quick = ctx.quick

    # ---- numerical part: model checking
    vals = [-2, -1, 0, 1, 2]
    defs = dict(MCScalars=to_tla(frozenset(SCALARS)), MCVals=_iset(vals), MCRVals=_iset(vals))
    aconfigs = [('n1', defs, dict(Errs=frozenset([0, 1, 2]), MaxN=1)),
                ('n2', dict(defs, MCVals=_iset(ctx.pick([-1, 2], [-1, 0, 2])), MCRVals=_iset([-2, 1]), MCScalars=to_tla(frozenset([(-2, 1), (1, 2)]))),
                 dict(Errs=frozenset([0, 1]), MaxN=2))]
    if not quick:
        aconfigs.append(('n1wide', dict(defs, MCVals=_iset(range(-4, 5)), MCRVals=_iset(range(-4, 5)),
                                        MCScalars=to_tla(frozenset(SCALARS + [(-3, 1), (3, 2), (-5, 2), (4, 1)]))),
                         dict(Errs=frozenset([0, 1, 2, 3]), MaxN=1)))

    def arith_mc(conf):
        name, d, consts = conf
        mod = _mc(wd, 'MCArith_' + name, 'DatasetArith', d)
        consts = dict(consts, Vals=Raw('<- MCVals'), RVals=Raw('<- MCRVals'), Scalars=Raw('<- MCScalars'),
                      Ops=frozenset(ARITH_OPS), RKinds=frozenset(['ds', 'array', 'scalar']))
        cfg = tlc.write_cfg(os.path.join(wd, 'arith_%s.cfg' % name), constants=consts, invariants=ARITH_INVS, deadlock=False)
        return mod, tlc.run(mod, cfg, dump=os.path.join(wd, 'arith_' + name), workers=max(2, tlc.NCPU // 4), timeout=1800)

    # ---- structural part: model checking + simulation (started together with the numerical runs)
    hshapes = ctx.pick([(1, 2)], [(2,), (1, 2), (2, 2)])
    hmod = _mc(wd, 'MCHeap', 'DatasetHeap', dict(MCShapes=to_tla(frozenset(hshapes))))
    hconst = dict(InitShapes=Raw('<- MCShapes'), MaxDs=3, MaxSteps=2, UserWrites=True)

    def heap_mc(_):
        cfg = tlc.write_cfg(os.path.join(wd, 'heap.cfg'), constants=hconst, invariants=HEAP_INVS, properties=HEAP_PROPS, deadlock=False)
        return tlc.run(hmod, cfg, dump=os.path.join(wd, 'heap'), workers=max(2, tlc.NCPU - 6), timeout=1800, coverage=False)

    simdir = os.path.join(wd, 'sim')
    os.makedirs(simdir)
    hmod_sim = _mc(wd, 'MCHeapSim', 'DatasetHeap', dict(MCShapes=to_tla(frozenset([(2,), (1, 2), (2, 1), (2, 2), (1, 2, 1)]))))

    def heap_sim(_):
        cfg = tlc.write_cfg(os.path.join(wd, 'heapsim.cfg'), constants=dict(hconst, MaxDs=7, MaxSteps=6), invariants=HEAP_INVS,
                            properties=HEAP_PROPS, deadlock=False)
        return tlc.run(hmod_sim, cfg, workers=2, simulate=dict(num=ctx.pick(200, 3000), file=os.path.join(simdir, 'b')), depth=8,
                       seed=ctx.seed + 1, coverage=False, timeout=1800)

    def arith_witness(wit):
        mod = _mc(wd, 'MCArithW_' + wit, 'DatasetArith', defs)
        consts = dict(aconfigs[0][2], Vals=Raw('<- MCVals'), RVals=Raw('<- MCRVals'), Scalars=Raw('<- MCScalars'),
                      Ops=frozenset(ARITH_OPS), RKinds=frozenset(['ds', 'array', 'scalar']))
        cfg = tlc.write_cfg(os.path.join(wd, wit + '.cfg'), constants=consts, invariants=[wit], deadlock=False)
        return wit, tlc.run(mod, cfg, coverage=False, workers=2)

    def heap_witness(wit):
        cfg = tlc.write_cfg(os.path.join(wd, wit + '.cfg'), constants=hconst, invariants=[wit], deadlock=False)
        return wit, tlc.run(hmod, cfg, coverage=False, workers=2)

    with ThreadPoolExecutor(max_workers=8) as tp:
        f_heap = tp.submit(heap_mc, None)
        f_sim = tp.submit(heap_sim, None)
        f_wit = [tp.submit(arith_witness, w) for w in ARITH_WITNESSES] + [tp.submit(heap_witness, w) for w in HEAP_WITNESSES]
        arith_results = list(tp.map(arith_mc, aconfigs))
        res_heap = f_heap.result()
        res_sim = f_sim.result()
        for f in f_wit:
            wit, r = f.result()
            if r.violation != ('invariant', wit):
                raise tlc.MachineryError('witness %s not reachable (DatasetArith / DatasetHeap)' % wit)
    _lap('TLC model runs')
    abatch, ainfo = [], {}
    n_arith_states = 0

    def add_arith(case, exp=None):
        obs, problem = arith_observe(case)
        if problem:
            how = ('raised' if problem.startswith('raised') else 'operand-modified' if 'operand modified' in problem
                   else 'malformed-result')
            if case.get('spelling'):
                how += '/' + case['spelling']
            ctx.violation('C08/%s/%s-%s' % (how, case['op'], case['rk']), problem, case, module='conf_dataset')
            return
        cid = len(abatch) + 1
        abatch.append((cid, obs))
        agrees = None
        if exp is not None:
            agrees = all(o['ov'] == e['v'] and o['oe2'] == e['e2'] and not o['oneg'] for o, e in zip(obs['cells'], exp))
        ainfo[cid] = (case, agrees, None)
        if any(c['le2'][0] or c['re2'][0] for c in obs['cells']):
            ctx.distinct(('arith', case['op'], case['rk'], tuple(case['shape']), tuple((tuple(c['lv']), tuple(c['le2']), tuple(c['rv']), tuple(c['re2'])) for c in obs['cells'])))

    for (name, _d, _c), (mod, res) in zip(aconfigs, arith_results):
        ctx.tlc(res, 'DatasetArith/' + name)
        if not res.ok:
            raise tlc.MachineryError('DatasetArith.tla %s: %s\n%s' % (name, res.violation, res.out[-1500:]))
        tlc.check_coverage(res, ['Eval'], 'DatasetArith/' + name)
        dump = os.path.join(wd, 'arith_' + name)
        states = [st for st in tlc.read_dump(dump) if st['pc'] == 'done']
        states.sort(key=lambda st: (st['op'], st['rk'], to_tla(st['left']), to_tla(st['right'])))   # dump order depends on TLC's workers
        for st in states:
            n_arith_states += 1
            exp = _expected_cells(st)
            for case in _arith_cases_of_state(st, rng):
                add_arith(case, exp)
            if n_arith_states % 701 == 1:
                ctx.sample(dict(op=st['op'], rk=st['rk'], left=[dict(c) for c in st['left']], right=[dict(c) for c in st['right']], expected=exp))
        os.remove(dump + '.dump')
    n_arith_dump = len(abatch)
    _lap('arith dump replay+witness')
    for _ in range(ctx.pick(3000, 40000)):
        add_arith(_random_arith_case(rng))

    _lap('arith random')
    # ---- structural part: behaviours -> chains
    ctx.tlc(res_heap, 'DatasetHeap/exhaustive')
    if not res_heap.ok:
        raise tlc.MachineryError('DatasetHeap.tla: %s\n%s' % (res_heap.violation, res_heap.out[-2500:]))
    # vacuity guard for the pool model: every operation must occur in the dumped histories (ops_seen below)
    m = re.search(r'The number of states generated: (\d+)', res_sim.out)     # simulation mode prints its own statistics
    if m and not res_sim.generated:
        res_sim.generated = int(m.group(1))
    ctx.tlc(res_sim, 'DatasetHeap/simulation')
    if res_sim.violation is not None:
        raise tlc.MachineryError('DatasetHeap.tla simulation: %s\n%s' % (res_sim.violation, res_sim.out[-2500:]))
    _lap('heap witnesses')
    chains = []
    with open(os.path.join(wd, 'heap.dump')) as f:
        setups, hists = _behaviours(f.read())
    if len(setups) != len(hists) or not hists:
        raise tlc.MachineryError('cannot read hist/setup from the DatasetHeap dump (%d/%d)' % (len(setups), len(hists)))
    os.remove(os.path.join(wd, 'heap.dump'))
    pairs = list(zip(setups, hists))
    for name in sorted(os.listdir(simdir)):
        with open(os.path.join(simdir, name)) as f:
            txt = f.read()
        s2, h2 = _behaviours(txt)
        if s2 and h2:
            pairs.append((s2[-1], h2[-1]))
    ops_seen = set()
    projected = set()
    for s_txt, h_txt in sorted(set(pairs)):         # dump order depends on TLC's workers: fix the order here
        hist = parse_value(h_txt)
        if not hist:
            continue
        # the implementation decides what is shared: sequences that differ only in the model's sharing choices
        # (visible in the buffer numbers) are one chain
        key = (s_txt, tuple((h['op'], h['i'], h['rkind'], h['j'], h['dim']) for h in hist))
        if key in projected:
            continue
        projected.add(key)
        ops_seen |= {h['op'] for h in hist}
        chains.append(_concrete(parse_value(s_txt), hist, rng))
    missing = set(ALL_OPS) - ops_seen
    if missing:
        raise tlc.MachineryError('vacuous DatasetHeap model: operations never taken: %s' % sorted(missing))
    n_sequences = len(chains)
    if quick:
        # quick tier: every one-step sequence, every simulated behaviour, a seeded sample of the two-step ones
        short = [c for c in chains if len(c['steps']) != 2]
        two = [c for c in chains if len(c['steps']) == 2]
        chains = short + rng.sample(two, min(len(two), 2500))
    n_tlc_chains = len(chains)
    for _ in range(ctx.pick(1500, 20000)):
        chains.append(_random_heap_case(rng))

    _lap('heap behaviours parsed')
    recorders = []
    for tid, case in enumerate(chains, 1):
        rec, problem = run_heap_case(case, tid)
        rec.case = case
        if problem:
            ctx.violation('C08/raised/%s' % problem[0], problem[1], case, module='conf_dataset')
        recorders.append(rec)
        for k, aobs, op, rk in rec.arith:
            cid = len(abatch) + 1
            abatch.append((cid, aobs))
            ainfo[cid] = (case, None, k)
        if any(s['op'] in ('copy', 'mutate') for s in rec.steps):
            ctx.distinct(('heap', json.dumps(case['setup'], sort_keys=True), tuple((s['op'], s['i'], s['rkind'], s['j'], s['dim']) for s in rec.steps)))
        if tid % 997 == 1:
            ctx.sample(dict(chain=case, recorded_steps=len(rec.steps)))

    _lap('heap chains executed')
    hruns, aruns = [], []
    with ThreadPoolExecutor(max_workers=2) as tp:
        f_h = tp.submit(judge_heap, recorders, wd, hruns)
        f_a = tp.submit(judge_arith, abatch, wd, aruns)
        hverdict = f_h.result()
        averdict = f_a.result()
    for name, res in hruns + aruns:
        ctx.tlc(res, name)
    _lap('heap + arith judged')
    by_tid = {rec.tid: rec for rec in recorders}
    for (tid, k), clauses in sorted(hverdict.items(), key=lambda kv: (kv[0][1], kv[0][0])):      # shortest chains first
        rec = by_tid[tid]
        step = rec.steps[k - 1]
        for cl in sorted(clauses):
            case = dict(rec.case, steps=rec.case['steps'][:_case_prefix(rec, k)], clause=cl)
            ctx.violation(_heap_key(cl, step), 'clause %s of DatasetHeap.tla is false at step %d (%s i=%s %s j=%s dim=%s) of the chain; recorded: new=%s mod=%s ct=%s al=%s'
                          % (cl, k, step['op'], step['i'], step['rkind'], step['j'], step['dim'], step['new'], step['mod'], step['ct'], step['al']),
                          case, module='conf_dataset')
    for cid, obs in abatch:
        case, agrees, k = ainfo[cid]
        clauses = averdict.get(cid, set())
        if agrees is not None and agrees != (not clauses):
            raise tlc.MachineryError('the two oracles disagree on %s: dump comparison %s, DatasetArithTrace clauses %s' % (case, agrees, sorted(clauses)))
        for cl in sorted(clauses):
            vcase = dict(case, clause=cl)
            ctx.violation(_arith_key(cl, obs['op'], obs['rk']), 'clause %s of DatasetArithTrace.tla is false%s: cells %s'
                          % (cl, '' if k is None else ' at step %d of a chain' % k, obs['cells'][:6]), vcase, module='conf_dataset')
    ctx.count(evaluations=len(abatch) + sum(len(r.steps) for r in recorders), traces=len(abatch) + len(recorders))
    ctx.cov['exhaustive'] = True
    ctx.cov['explanation'] = ('exhaustive for the TLC configurations in tlc_runs: %d DatasetArith states (x3 shape variants = %d cases), '
                              '%d of the %d distinct operation sequences of the DatasetHeap state graph and simulations; beyond them %d random '
                              'operations, %d random chains, %d chain steps re-judged numerically'
                              % (n_arith_states, n_arith_dump, n_tlc_chains, n_sequences,
                                 len(abatch) - n_arith_dump - sum(len(r.arith) for r in recorders), len(chains) - n_tlc_chains,
                                 sum(len(r.arith) for r in recorders)))


def _case_prefix(rec, k):
    """Number of concrete steps of the case needed to reach recorded step k (recorded step 1 is init; steps the
    harness skipped are not recorded, so keep the whole chain when the counts differ)."""
    if len(rec.steps) - 1 == len(rec.case['steps']):
        return k - 1
    return len(rec.case['steps'])
