"""C17 -- Browser selections: binding of specs/Browser.tla to valjean.eponine.browser.Browser.

spec -> code : every state TLC dumps for the exhaustive configurations is a complete session (base
               browsers, chain of filter / select / merge operations with their outcomes, what keys() and
               available_values() answer).  The session is replayed on real Browser objects, under two
               renderings of the abstract keys / values / data, and the projection of every real browser
               and every outcome is compared with what TLC computed.
code -> spec : seeded random sessions (0-12 items, 4 metadata keys, values from a pool of mixed
               hashables incl. 1/True/1.0 collisions, two base browsers, chains up to 4 operations) are
               executed on the real class, the observations recorded as JSON and the batch validated by
               TLC against BrowserTrace.tla (which re-runs the session through the naive scan).
spelling     : the specification knows the required / forbidden keys of a query as SETS; how the caller hands such
               a set over (tuple, list, set, frozenset, dict view, generator, iterator, map object, a list naming a
               key twice, the default of an omitted argument; by keyword or positionally) is varied in rotation
               over all the sessions of both directions (see SPELLINGS) and recorded in the case.
"""
import copy
import json
import os
import re
import zlib

import tlc
import tlaval

SPEC = os.path.join(tlc.SPECS, 'Browser.tla')
TRACE = os.path.join(tlc.SPECS, 'BrowserTrace.tla')
INVS = ['FilterExact', 'IndexAgrees', 'SelectExact', 'MergeExact', 'ChainIsConjunction', 'FilterDistributes', 'ObsExact']
MODULE = 'conf_browser'


# ---------------------------------------------------------------------------------------------
# fast reader for TLC dumps (records / tuples / sets / strings / ints / booleans only): the state text is
# rewritten into JSON and read with json.loads -- records become dicts, tuples AND sets become lists.
# Anything else falls back to tlaval.parse_state.  Shared by conf_stats and conf_observe.

_VAR = re.compile(r'^/\\ (\w+) = ', re.M)
_FIELD = re.compile(r'(\w+)\s*\|->')
_TABLE = str.maketrans({'\x01': '[', '\x02': ']', '{': '[', '}': ']', '[': '{', ']': '}'})


def _tr(text):
    text = text.replace('<<', '\x01').replace('>>', '\x02').translate(_TABLE)
    return _FIELD.sub(r'"\1":', text).replace('TRUE', 'true').replace('FALSE', 'false')


def fast_state(block):
    try:
        parts = _VAR.split(block.strip())
        out = []
        for k in range(1, len(parts), 2):
            if '\\' in parts[k + 1]:
                raise ValueError('escapes')
            pieces = parts[k + 1].split('"')          # odd pieces are string literals (no escapes in our specs)
            val = '"'.join(_tr(p) if n % 2 == 0 else p for n, p in enumerate(pieces))
            out.append('"%s": %s' % (parts[k], val))
        return json.loads('{' + ', '.join(out) + '}')
    except ValueError:
        return tlaval.parse_state(block)


def read_dump_fast(path):
    if not os.path.exists(path) and os.path.exists(path + '.dump'):
        path = path + '.dump'
    with open(path) as f:
        txt = f.read()
    # TLC's dump order depends on the scheduling of its workers: sort the blocks so that runs are reproducible
    for block in sorted(re.split(r'^State \d+:\n', txt, flags=re.M)[1:]):
        yield fast_state(block)


# ---------------------------------------------------------------------------------------------
# renderings: abstract key / value tokens -> Python objects

KEYMAP = {'k1': 'menu', 'k2': 'drink', 'k3': 'dessert', 'k4': 'consumer', 'kx': 'absent_key', 'ky': 'nokey'}
KEYMAP_CUSTOM = dict(KEYMAP, k2='results')     # with a custom data key, 'results' is an ordinary metadata key
POOL = ['beer', 'wine', '', 'Beer', 1, True, 1.0, 0, False, -3, 2.5, (1, 2), (1,), ('x', 2), (), None,
        frozenset({1}), frozenset(), b'by', 'results', 'index', 10 ** 20, -0.0, ((1, 2), 'n')]


class Rendering:
    def __init__(self, name, item_vals, query_vals, hashable_data, custom_results_key):
        self.name = name
        self.item_vals = item_vals
        self.query_vals = query_vals
        self.hashable_data = hashable_data
        self.custom_results_key = custom_results_key
        self.known = list(item_vals.items())

    def key(self, k, data_key):
        km = KEYMAP_CUSTOM if (self.custom_results_key and data_key != 'results') else KEYMAP
        return km.get(k, k)

    def unkey(self, name, data_key):
        km = KEYMAP_CUSTOM if (self.custom_results_key and data_key != 'results') else KEYMAP
        for k, v in km.items():
            if v == name:
                return k
        return name

    def data(self, ident):
        return ('d', ident) if self.hashable_data else ['d', ident]

    def token(self, value):
        """Abstract token of a Python value: linear scan with == (the definition of 'same value')."""
        for tok, val in self.known:
            if type(val) is type(value) and val == value:
                return tok
        for tok, val in self.known:
            try:
                if val == value:
                    return tok
            except Exception:   # pylint: disable=broad-except
                pass
        return 'UNKNOWN:%r' % (value,)


def _pool_classes():
    cls = {}
    for i, v in enumerate(POOL):
        for j in range(i + 1):
            if POOL[j] == v and hash(POOL[j]) == hash(v):
                cls['p%d' % i] = 'p%d' % j
                break
    return cls


POOL_CLASS = _pool_classes()   # p5 (True) -> p4 (1), p6 (1.0) -> p4, p8 (False) -> p7 (0), p22 (-0.0) -> p7 ...

RENDERINGS = {
    'str': Rendering('str', {'v1': 'beer', 'v2': 'wine', 'vx': 'tea'}, {'v1': 'beer', 'v2': 'wine', 'vx': 'tea'},
                     hashable_data=False, custom_results_key=False),
    # items carry 1 / a tuple, queries ask for True / an equal tuple: equal and equally hashed
    'mixed': Rendering('mixed', {'v1': 1, 'v2': (1, 'x'), 'vx': 0}, {'v1': True, 'v2': (1, 'x'), 'vx': False},
                       hashable_data=True, custom_results_key=True),
    'pool': Rendering('pool', {POOL_CLASS['p%d' % i]: POOL[int(POOL_CLASS['p%d' % i][1:])] for i in range(len(POOL))},
                      {'p%d' % i: POOL[i] for i in range(len(POOL))}, hashable_data=False, custom_results_key=True),
    'pool-h': Rendering('pool-h', {POOL_CLASS['p%d' % i]: POOL[int(POOL_CLASS['p%d' % i][1:])] for i in range(len(POOL))},
                        {'p%d' % i: POOL[i] for i in range(len(POOL))}, hashable_data=True, custom_results_key=False),
}
for _r in ('pool', 'pool-h'):
    # items of the random sessions carry every member of an equality class (1, True, 1.0), not only its representative
    RENDERINGS[_r].item_vals = {'p%d' % i: POOL[i] for i in range(len(POOL))}


def abstract_token(rend, tok):
    """Token as the specification sees it (one token per equality class)."""
    return POOL_CLASS.get(tok, tok) if rend.name.startswith('pool') else tok


# ---------------------------------------------------------------------------------------------
# spellings of a collection-valued argument.  Browser.tla has `incl` / `excl` as sets of keys; a caller may hand
# the same set over in many ways and the answer must not depend on it.  ONE-SHOT iterables can be walked only once.

SPELLINGS = {
    'tuple': tuple,                                            # the spelling of the documentation
    'list': list,
    'set': set,
    'frozenset': frozenset,
    'dict-keys': lambda keys: dict.fromkeys(keys, 0).keys(),   # a dictionary view
    'generator': lambda keys: (k for k in keys),               # one-shot
    'iterator': lambda keys: iter(list(keys)),                 # one-shot
    'map': lambda keys: map(str, keys),                        # one-shot (keys are strings)
    'repeated': lambda keys: list(keys) + list(keys)[::-1],    # every key named twice
    'omitted': tuple,                                          # empty sets only: the argument is not passed at all
}
SPELL_ORDER = ['tuple', 'generator', 'list', 'omitted', 'set', 'iterator', 'dict-keys', 'frozenset', 'map', 'repeated']
CALLS = ['kw', 'pos1', 'pos2']     # filter_by(include=, exclude=) / filter_by(incl, exclude=) / filter_by(incl, excl)
PLAIN = ('tuple', 'tuple')


def assign_spellings(case, n):
    """Give every query of the session a spelling of its include / exclude arguments and (filter_by only: the
    arguments of select_by are keyword-only) a calling convention, in rotation driven by the integer `n`: no
    additional sessions, every session is run under one combination.  Recorded in the case (op['spell'], op['call'])."""
    ns = len(SPELL_ORDER)
    for j, op in enumerate(case['ops']):
        if op['kind'] == 'merge':
            continue
        m = n + 31 * j
        call = CALLS[(m // (ns * ns)) % len(CALLS)] if op['kind'] == 'filter' else 'kw'
        spell = [SPELL_ORDER[m % ns], SPELL_ORDER[(m // ns) % ns]]
        for a, (keys, positional) in enumerate(((op['incl'], call != 'kw'), (op['excl'], call == 'pos2'))):
            if spell[a] == 'omitted' and (keys or positional):
                spell[a] = 'tuple'         # only an empty keyword argument can be left out
        op['spell'], op['call'] = spell, call
    return case


def _how(op):
    if op['kind'] == 'merge':
        return 'merge'
    si, se = op.get('spell', PLAIN)
    return '%s, include as %s, exclude as %s, %s' % (op['kind'], si, se, {'kw': 'by keyword', 'pos1': 'include positional',
                                                                          'pos2': 'include and exclude positional'}[op.get('call', 'kw')])


def _query_call(rend, op, dk):
    """(args, kwargs) of filter_by / select_by for the query of `op` on a browser whose data key is `dk`."""
    si, se = op.get('spell', PLAIN)
    call = op.get('call', 'kw') if op['kind'] == 'filter' else 'kw'
    incl = [_qkey(rend, k, dk) for k in op['incl']]
    excl = [_qkey(rend, k, dk) for k in op['excl']]
    args, kwargs = [], _kwargs(rend, op['kw'], dk)
    for name, keys, spell, positional in (('include', incl, si, call != 'kw'), ('exclude', excl, se, call == 'pos2')):
        if spell == 'omitted' and not keys and not positional:
            continue
        if positional:
            args.append(SPELLINGS[spell](keys))
        else:
            kwargs[name] = SPELLINGS[spell](keys)
    return args, kwargs


def respelled(case):
    """The same session with the arguments re-spelled the plain way: name -> case (only those that differ).
    incl / excl: that argument as a tuple in every query; both: both of them; plain: both and by keyword."""
    out = {}
    for name, (pi, pe, pc) in (('incl', (1, 0, 0)), ('excl', (0, 1, 0)), ('both', (1, 1, 0)), ('plain', (1, 1, 1))):
        v = copy.deepcopy(case)
        for op in v['ops']:
            if op['kind'] == 'merge':
                continue
            sp = list(op.get('spell', PLAIN))
            if pi:
                sp[0] = 'tuple'
            if pe:
                sp[1] = 'tuple'
            op['spell'] = sp
            op['call'] = 'kw' if pc else op.get('call', 'kw')
        if _spelling_of(v) != _spelling_of(case):
            out[name] = v
    return out


def _spelling_of(case):
    return [(tuple(o.get('spell', PLAIN)), o.get('call', 'kw')) for o in case['ops'] if o['kind'] != 'merge']


def spelled_key(key, case, n, still):
    """Finding class of a disagreement, given what re-spelling the arguments does to it.  `case` disagrees first at
    operation n (0: at the end of the session) with class `key`; still[name] tells whether the re-spelled session
    `name` (see respelled; a missing name is the session itself) shows the same disagreement.  When the plainly
    spelled session still shows it the class is `key`; otherwise the class is the operation and the spelling the
    answer depends on (whatever the clause: with a tuple the answer is the one of Browser.tla)."""
    if still.get('plain', True):
        return key
    op = case['ops'][n - 1] if n else None
    head = 'C17/%s/answer-depends-on-spelling/' % (op['kind'] if op else 'session')
    if still.get('both', True):
        return head + 'positional-call'
    if op is None or op['kind'] == 'merge':
        return head + 'of-an-earlier-query'
    si, se = op.get('spell', PLAIN)
    parts = []
    if not still.get('incl', True):
        parts.append('include-as-' + si)
    if not still.get('excl', True):
        parts.append('exclude-as-' + se)
    if len(parts) != 1:
        return head + 'include+exclude'      # re-spelling both removes it (the text and the case tell how they were spelled)
    return head + parts[0]


# ---------------------------------------------------------------------------------------------
# running a session on the implementation

def _project_item(rend, item, data_key):
    """Abstract view of a content item: id from its data, metadata without data key and bookkeeping key."""
    problems = []
    if data_key not in item:
        return None, ['data key %r missing from item %r' % (data_key, item)]
    data = item[data_key]
    if not (isinstance(data, (list, tuple)) and len(data) == 2 and data[0] == 'd' and isinstance(data[1], int)):
        return None, ['data of item changed: %r' % (data,)]
    meta = {}
    for k, v in item.items():
        if k in (data_key, 'index'):
            continue
        meta[rend.unkey(k, data_key)] = rend.token(v)
    return dict(id=data[1], meta=meta), problems


def project_browser(rend, br, data_key, ask_keys):
    """(projection, problem): content / globals / data key / keys() / available_values() of a real Browser.
    `data_key` is the EXPECTED data key (used to tell data from metadata); the browser's own attribute is
    reported as dataKey."""
    items = []
    for it in br.content:
        p, problems = _project_item(rend, it, data_key)
        if problems:
            return None, problems[0]
        items.append(p)
    keys = sorted(rend.unkey(k, data_key) for k in br.keys() if k != 'index')
    vals = {}
    for k in ask_keys:
        vals[k] = sorted({rend.token(v) for v in br.available_values(rend.key(k, data_key))})
    return dict(items=items, globals=dict(br.globals), dataKey=br.data_key, keys=keys, vals=vals), None


def project_inputs(rend, lst, data_key):
    out = []
    for it in lst:
        if 'index' in it:
            return None, "bookkeeping key 'index' written into the caller's dictionary %r" % (it,)
        p, problems = _project_item(rend, it, data_key)
        if problems:
            return None, problems[0]
        out.append(p)
    return out, None


def _kwargs(rend, kw, data_key):
    return {rend.key(k, data_key): rend.query_vals[v] for k, v in kw.items()}


def run_session(case):
    """Execute a session on real Browser objects.

    Returns dict(ops=[observation per executed op], final=[projection of every browser at the end],
    inputs=[projection of the caller's lists at the end], problem=text or None)."""
    from valjean.eponine.browser import Browser, NoItemBrowserError, TooManyItemsBrowserError
    rend = RENDERINGS[case['rendering']]
    ask = case['askKeys']
    inputs, dkeys, browsers = [], [], []
    for base in case['bases']:
        dk = base['dataKey']
        lst = []
        for it in base['items']:
            d = {rend.key(k, dk): rend.item_vals[v] for k, v in it['meta'].items()}
            d[dk] = rend.data(it['id'])
            lst.append(d)
        glob = dict(base['globals'])
        inputs.append(lst)
        if dk == 'results' and not case.get('explicitDefault'):
            br = Browser(lst, global_vars=glob)
        else:
            br = Browser(lst, data_key=dk, global_vars=glob)
        browsers.append(br)
        dkeys.append(dk)
    res = dict(ops=[], final=[], inputs=[], problem=None, bases=[])
    for br, dk in zip(browsers, dkeys):
        p, problem = project_browser(rend, br, dk, ask)
        if problem:
            res['problem'] = 'base browser: ' + problem
            return res
        res['bases'].append(p)
    for op in case['ops']:
        if op['src'] > len(browsers) or op['oth'] > len(browsers):
            break      # an earlier operation did not create the browser this one refers to (already a disagreement)
        src = browsers[op['src'] - 1]
        dk = dkeys[op['src'] - 1]
        o = dict(kind=op['kind'], tag=None, exc='', out=None, items=[])
        try:
            if op['kind'] == 'filter':
                args, kwargs = _query_call(rend, op, dk)
                new = src.filter_by(*args, **kwargs)
                o['tag'] = 'browser'
            elif op['kind'] == 'select':
                new = None
                try:
                    args, kwargs = _query_call(rend, op, dk)
                    item = src.select_by(*args, **kwargs)
                    o['tag'] = 'item'
                    p, problems = _project_item(rend, item, dk)
                    if problems:
                        o['tag'], o['exc'] = 'raised', problems[0]
                    else:
                        o['items'] = [p]
                except NoItemBrowserError:
                    o['tag'] = 'NoItem'
                except TooManyItemsBrowserError:
                    o['tag'] = 'TooMany'
            else:
                new = None
                try:
                    new = src.merge(browsers[op['oth'] - 1])
                    o['tag'] = 'browser'
                except ValueError as ex:
                    o['tag'], o['exc'] = 'ValueError', str(ex)
        except Exception as ex:   # pylint: disable=broad-except
            o['tag'], o['exc'] = 'raised', '%s: %s' % (type(ex).__name__, ex)
            res['ops'].append(o)
            break
        if o['tag'] == 'browser':
            p, problem = project_browser(rend, new, dk, ask)
            if problem:
                o['tag'], o['exc'] = 'raised', 'projection: ' + problem
                res['ops'].append(o)
                break
            o['out'] = p
            browsers.append(new)
            dkeys.append(dk)
        res['ops'].append(o)
        if o['tag'] == 'raised':
            break
    for br, dk in zip(browsers, dkeys):
        p, problem = project_browser(rend, br, dk, ask)
        res['final'].append(p if p is not None else dict(items=[], globals={}, dataKey='?' + str(problem), keys=[], vals={}))
    for lst, dk in zip(inputs, dkeys):
        p, problem = project_inputs(rend, lst, dk)
        res['inputs'].append(p if p is not None else [dict(id=-1, meta={'modified': str(problem)})])
    return res


# ---------------------------------------------------------------------------------------------
# spec -> code: TLC state -> case, expected projections

def _meta(m):
    return dict(m) if isinstance(m, dict) else {}


def _exp_browser(b, obs):
    return dict(items=[dict(id=it['id'], meta=_meta(it['meta'])) for it in b['content']],
                globals={k: v for k, v in b['globals']}, dataKey=b['dataKey'],
                keys=sorted(obs['keys']), vals={k: sorted(v) for k, v in obs['vals'].items()})


def case_of_state(st, rendering, explicit_default=False):
    nb = len(st['brs']) - sum(1 for o in st['ops'] if o['res']['tag'] == 'browser')
    ask = sorted(st['obs'][0]['vals']) if st['obs'] else []
    bases = [dict(items=[dict(id=it['id'], meta=_meta(it['meta'])) for it in b['content']],
                  globals=sorted([k, v] for k, v in b['globals']), dataKey=b['dataKey']) for b in st['brs'][:nb]]
    ops = [dict(kind=o['kind'], src=o['src'], oth=o['oth'], kw=_meta(o['q']['kw']), incl=sorted(o['q']['incl']),
                excl=sorted(o['q']['excl'])) for o in st['ops']]
    return dict(rendering=rendering, bases=bases, ops=ops, askKeys=ask, explicitDefault=explicit_default)


def expected_of_state(st):
    nb = len(st['brs']) - sum(1 for o in st['ops'] if o['res']['tag'] == 'browser')
    brs = [_exp_browser(b, o) for b, o in zip(st['brs'], st['obs'])]
    ops = []
    made = nb
    for o in st['ops']:
        r = o['res']
        e = dict(kind=o['kind'], tag=r['tag'], out=None, items=[dict(id=it['id'], meta=_meta(it['meta'])) for it in r['items']])
        if r['tag'] == 'browser':
            e['out'] = brs[made]
            made += 1
        ops.append(e)
    return dict(bases=brs[:nb], brs=brs, ops=ops)


def _dk_class(case, op=None):
    if op is not None:
        # data key of the source browser: bases carry it, created browsers inherit it from their source
        dks = [b['dataKey'] for b in case['bases']]
        for o in case['ops']:
            if o is op:
                break
            if o['kind'] == 'filter' or (o['kind'] == 'merge' and dks[o['src'] - 1] == dks[o['oth'] - 1]):
                dks.append(dks[o['src'] - 1])       # only these operations create a browser
        idx = op['src'] - 1
        dk = dks[idx] if idx < len(dks) else 'results'
    else:
        dk = case['bases'][0]['dataKey']
    return 'default-data-key' if dk == 'results' else 'custom-data-key'


def compare(case, exp, got):
    """First disagreement between what TLC computed (`exp`) and the implementation (`got`):
    None or (key, text, is_drift, n) -- n the 1-based index of the operation, 0 for construction / end of session."""
    if got['problem']:
        return ('C17/construct/%s' % _dk_class(case), got['problem'], False, 0)
    for b, (e, g) in enumerate(zip(exp['bases'], got['bases'])):
        for fld in ('items', 'globals', 'dataKey', 'keys', 'vals'):
            if e[fld] != g[fld]:
                return ('C17/construct/%s/%s' % (fld, _dk_class(case)),
                        'base browser %d: %s is %r, Browser.tla expects %r' % (b + 1, fld, g[fld], e[fld]), False, 0)
    for n, (e, op) in enumerate(zip(exp['ops'], case['ops'])):
        if n >= len(got['ops']):
            return ('C17/harness/short-session', 'operation %d not executed' % (n + 1), False, n + 1)
        g = got['ops'][n]
        dkc = _dk_class(case, op)
        how = _how(op)
        if g['tag'] != e['tag']:
            if g['tag'] == 'raised':
                exc = g['exc'].split(':')[0]
                return ('C17/%s/raises-%s/%s' % (op['kind'], exc, dkc),
                        'operation %d (%s) raised %s; Browser.tla expects %s' % (n + 1, how, g['exc'], e['tag']), False, n + 1)
            return ('C17/%s/outcome-%s-instead-of-%s/%s' % (op['kind'], g['tag'], e['tag'], dkc),
                    'operation %d (%s) answered %s %s; Browser.tla expects %s' % (n + 1, how, g['tag'], g['exc'], e['tag']),
                    op['kind'] == 'merge', n + 1)
        if e['tag'] == 'browser':
            for fld, name in (('items', 'content'), ('dataKey', 'data-key'), ('globals', 'globals'), ('keys', 'keys'), ('vals', 'values')):
                if e['out'][fld] != g['out'][fld]:
                    return ('C17/%s/%s/%s' % (op['kind'], name, dkc),
                            'operation %d (%s): %s of the result is %r, Browser.tla expects %r'
                            % (n + 1, how, name, g['out'][fld], e['out'][fld]),
                            op['kind'] == 'merge' and fld == 'globals', n + 1)
        elif e['tag'] == 'item' and e['items'] != g['items']:
            return ('C17/select/item/%s' % dkc, 'operation %d (%s): selected %r, Browser.tla expects %r'
                    % (n + 1, how, g['items'], e['items']), False, n + 1)
    for b, (e, g) in enumerate(zip(exp['brs'], got['final'])):
        if e != g:
            return ('C17/browser-modified/%s' % _dk_class(case),
                    'browser %d re-projected at the end of the session is %r, was %r' % (b + 1, g, e), False, 0)
    for b, (e, g) in enumerate(zip(exp['bases'], got['inputs'])):
        if e['items'] != g:
            return ('C17/input-modified/%s' % _dk_class(case), "caller's list %d is %r after the session, was %r" % (b + 1, g, e['items']),
                    False, 0)
    return None


# ---------------------------------------------------------------------------------------------
# code -> spec: JSON for BrowserTrace

def _jbrowser(rend, p):
    if p is None:
        return dict(items=[], globals=[], dataKey='', keys=[], vals=[])
    return dict(items=[dict(id=it['id'], meta=sorted([k, abstract_token(rend, v)] for k, v in it['meta'].items())) for it in p['items']],
                globals=sorted([k, v] for k, v in p['globals'].items()), dataKey=p['dataKey'],
                keys=p.get('keys', []), vals=sorted([k, sorted({abstract_token(rend, v) for v in vs})] for k, vs in p.get('vals', {}).items()))


def to_trace_case(cid, case, got):
    rend = RENDERINGS[case['rendering']]
    bases = []
    for b in case['bases']:
        bases.append(dict(items=[dict(id=it['id'], meta=sorted([k, abstract_token(rend, v)] for k, v in it['meta'].items())) for it in b['items']],
                          globals=[list(g) for g in b['globals']], dataKey=b['dataKey'], askKeys=case['askKeys']))
    ops = []
    for op, g in zip(case['ops'], got['ops']):
        ops.append(dict(kind=op['kind'], src=op['src'], oth=op['oth'],
                        kw=sorted([k, abstract_token(rend, v)] for k, v in op['kw'].items()), incl=_abs_incl(op), excl=[k for k in op['excl'] if k != DATA],
                        tag=g['tag'], out=_jbrowser(rend, g['out']),
                        items=[dict(id=it['id'], meta=sorted([k, abstract_token(rend, v)] for k, v in it['meta'].items())) for it in g['items']]))
    final = [_jbrowser(rend, p) for p in got['final']]
    inputs = [[dict(id=it['id'], meta=sorted([k, abstract_token(rend, v)] for k, v in it['meta'].items())) for it in lst] for lst in got['inputs']]
    return dict(id=cid, bases=bases, ops=ops, final=final, inputs=inputs)


def validate_batch(cases, wd, name='trace', invariants=INVS):
    """Run TLC on BrowserTrace with the JSON cases; returns (TLCResult, bad list of [id, op index, clause])."""
    cj = tlc.json_dump(os.path.join(wd, name + '_cases.json'), cases)
    oj = os.path.join(wd, name + '_out.json')
    ask = set()
    for c in cases:
        for b in c['bases']:
            ask.update(b['askKeys'])
    cfg = tlc.write_cfg(os.path.join(wd, name + '.cfg'), spec='TSpec', constants={'AskKeys': frozenset(ask)}, invariants=invariants,
                        deadlock=False, postcondition='Post')
    res = tlc.run(TRACE, cfg, workers=1, env=dict(VERIF_CASES=cj, VERIF_OUT=oj), timeout=1800, coverage=False)
    if not res.ok:
        raise tlc.MachineryError('BrowserTrace %s: %s\n%s' % (name, res.violation, res.out[-2500:]))
    with open(oj) as f:
        bad = json.load(f)['bad']
    return res, bad


def trace_key(case, got, n, clause):
    """Finding class for a disagreement reported by TLC: (key, is_drift)."""
    if n == 0:
        return 'C17/%s/%s' % (clause, _dk_class(case)), False
    op = case['ops'][n - 1]
    g = got['ops'][n - 1]
    dkc = _dk_class(case, op)
    if clause == 'tag':
        if g['tag'] == 'raised':
            return 'C17/%s/raises-%s/%s' % (op['kind'], g['exc'].split(':')[0], dkc), False
        return 'C17/%s/outcome-%s/%s' % (op['kind'], g['tag'], dkc), op['kind'] == 'merge'
    name = {'dataKey': 'data-key', 'vals': 'values'}.get(clause, clause)
    return 'C17/%s/%s/%s' % (op['kind'], name, dkc), (op['kind'] == 'merge' and clause == 'globals')


TWIN = 10 ** 6


def corrupted_twins(batch):
    """Copies of recorded sessions with one recorded field corrupted / one observation dropped."""
    twins = {}
    for c in batch:
        for n, o in enumerate(c['ops']):
            if o['tag'] == 'browser' and len(o['out']['items']) >= 2 and TWIN + 1 not in twins:
                t = copy.deepcopy(c)
                t['id'] = TWIN + 1
                t['ops'][n]['out']['items'][0]['id'] += 1          # data of one returned item changed
                twins[TWIN + 1] = t
            if o['tag'] == 'browser' and len(o['out']['items']) >= 2 and TWIN + 2 not in twins:
                t = copy.deepcopy(c)
                t['id'] = TWIN + 2
                t['ops'][n]['out']['items'].reverse()               # order not preserved
                twins[TWIN + 2] = t
            if o['tag'] == 'browser' and o['out']['items'] and TWIN + 3 not in twins:
                t = copy.deepcopy(c)
                t['id'] = TWIN + 3
                del t['ops'][n]['out']['items'][-1]                 # one matching item missing
                twins[TWIN + 3] = t
        if len(c['final']) > len(c['bases']) and TWIN + 4 not in twins:
            t = copy.deepcopy(c)
            t['id'] = TWIN + 4
            del t['final'][-1]                                      # one browser not re-observed at the end
            twins[TWIN + 4] = t
        if len(twins) == 4:
            break
    return twins


def replay_case(case):
    """Re-run a recorded session on the implementation and let TLC (BrowserTrace) judge it."""
    got = run_session(case)
    if got['problem']:
        return False, got['problem']
    wd = tlc.workdir('c17r')
    executed = dict(case, ops=case['ops'][:len(got['ops'])])
    _, bad = validate_batch([to_trace_case(1, executed, got)], wd, 'replay')
    bad = [b for b in bad if not trace_key(executed, got, b[1], b[2])[1]]
    if bad:
        bad.sort(key=lambda b: (b[1] == 0, b[1], b[2]))
        n, clause = bad[0][1], bad[0][2]
        detail = 'TLC rejects operation %d, clause %s; observed %r' % (n, clause, got['ops'][n - 1] if n else got['final'])
        return False, detail
    return True, 'session of %d operations accepted by BrowserTrace' % len(got['ops'])


def _first_bad(bad, ident):
    """First disagreement (op index, clause) TLC reports for the session `ident`: operations in order, end of session last."""
    mine = sorted((b for b in bad if b[0] == ident), key=lambda b: (b[1] == 0, b[1], b[2]))
    return (mine[0][1], mine[0][2]) if mine else None


def name_spellings(found, byid, wd):
    """cid -> finding class (see spelled_key) of the sessions TLC rejected: every such session is run again with its arguments re-spelled
    the plain way (see respelled) and TLC judges the re-spelled recordings (one more batch, only when something was
    rejected).  A recording identical to the original one needs no second verdict."""
    def recording(case):
        got = run_session(case)
        if got['problem']:
            return None, got, case
        executed = dict(case, ops=case['ops'][:len(got['ops'])])
        return to_trace_case(0, executed, got), got, executed
    still, asked, batch = {}, {}, []
    for cid, n, clause, key, _ in found:
        case, executed, got = byid[cid]
        orig = to_trace_case(0, executed, got)
        still[cid] = {}
        for vname, var in respelled(case).items():
            rec, vgot, vexec = recording(var)
            if rec is None:
                still[cid][vname] = False
            elif rec == orig:
                still[cid][vname] = True
            else:
                ident = 2 * TWIN + len(batch)
                batch.append(dict(rec, id=ident))
                asked[ident] = (cid, vname, vexec, vgot, n, key)
    chunk = 5000
    for k in range(0, len(batch), chunk):
        _, bad = validate_batch(batch[k:k + chunk], wd, 'respelled%d' % (k // chunk))
        for b in batch[k:k + chunk]:
            cid, vname, vexec, vgot, n, key = asked[b['id']]
            first = _first_bad(bad, b['id'])
            still[cid][vname] = first is not None and first[0] == n and trace_key(vexec, vgot, first[0], first[1])[0] == key
    return {cid: spelled_key(key, byid[cid][0], n, still[cid]) for cid, n, _, key, _ in found}


# ---------------------------------------------------------------------------------------------

def _consts(**kw):
    d = dict(Keys=frozenset(['k1', 'k2']), XKeys=frozenset(['kx']), Vals=frozenset(['v1', 'v2']), XVals=frozenset(['vx']),
             DataKeys=frozenset(['results']), GNames=frozenset(['g1']), MaxBases=1, MaxItems=2, MaxKw=2, MaxIE=1, MaxQ=2,
             MaxOps=1, OpKinds=frozenset(['filter']))
    d.update({k: (frozenset(v) if isinstance(v, (list, set)) else v) for k, v in kw.items()})
    return d


def configs(ctx):
    both = ['results', 'mydata']
    if ctx.quick:
        return [
            ('scan2', _consts(MaxItems=2, DataKeys=both), ['filter']),
            ('scan3', _consts(MaxItems=3, MaxKw=1, MaxQ=1), ['filter']),
            ('select2', _consts(MaxItems=2, MaxKw=1, OpKinds=['select']), ['select']),
            ('chain', _consts(Keys=['k1'], XVals=[], DataKeys=both, MaxQ=1, MaxOps=2, OpKinds=['filter', 'merge']),
             ['filter', 'merge']),
            ('chain-select', _consts(Keys=['k1'], XVals=[], MaxItems=1, MaxQ=1, MaxOps=2, OpKinds=['filter', 'select', 'merge']),
             ['filter', 'select', 'merge']),
            ('bases2', _consts(Keys=['k1'], Vals=['v1'], XVals=[], DataKeys=both, GNames=['g1', 'g2'], MaxBases=2, MaxItems=1, MaxQ=1,
                               OpKinds=['filter', 'merge']), ['filter', 'merge']),
        ]
    return [
        ('scan3', _consts(MaxItems=3, MaxKw=2, MaxIE=1, MaxQ=2, DataKeys=both), ['filter']),
        ('scan2-q3', _consts(MaxItems=2, MaxKw=2, MaxIE=2, MaxQ=3, DataKeys=['mydata']), ['filter']),
        ('select3', _consts(MaxItems=3, OpKinds=['select']), ['select']),
        ('chain', _consts(Keys=['k1'], XVals=[], DataKeys=both, MaxItems=3, MaxQ=1, MaxOps=2, OpKinds=['filter', 'select', 'merge']),
         ['filter', 'select', 'merge']),
        ('chain3', _consts(Keys=['k1'], XVals=[], DataKeys=both, MaxItems=1, MaxQ=1, MaxOps=3, OpKinds=['filter', 'merge']),
         ['filter', 'merge']),
        ('bases2', _consts(Keys=['k1'], Vals=['v1'], XVals=[], DataKeys=both, GNames=['g1', 'g2'], MaxBases=2, MaxItems=1, MaxQ=1,
                           MaxOps=2, OpKinds=['filter', 'merge']), ['filter', 'merge']),
    ]


# witnesses, checked with -continue in two runs: (constants, invariants that TLC must report violated)
WITNESSES = [(dict(Keys=['k1'], Vals=['v1'], XVals=[], DataKeys=['results', 'mydata'], MaxQ=1, MaxOps=2, OpKinds=['filter', 'select', 'merge']),
              ['W_ProperSubset', 'W_ExcludeBites', 'W_SelectOne', 'W_SelectMany', 'W_CustomKeyFiltered', 'W_MergeOfFilter']),
             (dict(OpKinds=['merge'], MaxBases=2, MaxItems=1, DataKeys=['results', 'mydata'], Keys=['k1'], Vals=['v1']),
              ['W_MergeRefused'])]


def _nontrivial(exp):
    """A session is non-trivial when some filter keeps a proper non-empty part, a select finds its item, or a
    merge concatenates two non-empty browsers."""
    for o in exp['ops']:
        if o['tag'] == 'item':
            return True
        if o['tag'] == 'browser' and o['out']['items']:
            return True
    return False


def random_case(rng, rendering):
    keys = ['k1', 'k2', 'k3', 'k4']
    rend = RENDERINGS[rendering]
    toks = sorted(rend.query_vals, key=lambda t: int(t[1:]))
    nvals = rng.choice([2, 3, 5, len(toks)])
    sub = rng.sample(toks, nvals)
    if rng.random() < 0.5:
        sub = sorted(set(sub) | {'p4', 'p5', 'p6', 'p7', 'p8'})   # the 1 / True / 1.0 and 0 / False classes
    nb = 1 if rng.random() < 0.6 else 2
    same_dk = rng.random() < 0.8
    dk0 = rng.choice(['results', 'mydata'])
    bases = []
    for b in range(1, nb + 1):
        n = rng.choice([0, 1, 2, 3, 5, 8, 12])
        pres = rng.choice([0.3, 0.6, 0.9])
        items = []
        for p in range(1, n + 1):
            items.append(dict(id=10 * b + p if n < 10 else 100 * b + p, meta={k: rng.choice(sub) for k in keys if rng.random() < pres}))
        glob = rng.choice([[], [['a', 1]], [['a', 2], ['b', 1]], [['c', 7]]])
        dk = dk0 if (same_dk or b == 1) else ('mydata' if dk0 == 'results' else 'results')
        bases.append(dict(items=items, globals=glob, dataKey=dk))
    ops = []
    nbrs = nb
    dks = [b['dataKey'] for b in bases]
    for _ in range(rng.randint(1, 4)):
        kind = rng.choice(['filter', 'filter', 'filter', 'select', 'merge'])
        src = rng.randint(1, nbrs)
        op = dict(kind=kind, src=src, oth=0, kw={}, incl=[], excl=[])
        if kind == 'merge':
            op['oth'] = rng.randint(1, nbrs)
            if dks[src - 1] == dks[op['oth'] - 1]:
                nbrs += 1
                dks.append(dks[src - 1])
        else:
            qkeys = keys + ['kx']
            allitems = [it for b in bases for it in b['items'] if it['meta']]
            if allitems and rng.random() < 0.5:
                # aim at an existing item: (part of) its own metadata, possibly through an equal value of another type
                meta = rng.choice(allitems)['meta']
                for k in rng.sample(sorted(meta), rng.randint(1, len(meta))):
                    same = [t for t in toks if POOL_CLASS[t] == POOL_CLASS[meta[k]]]
                    op['kw'][k] = rng.choice(same)
            else:
                for k in rng.sample(qkeys, rng.choice([0, 1, 1, 2, 3])):
                    op['kw'][k] = rng.choice(sub + [rng.choice(toks)])
            op['incl'] = sorted(rng.sample(qkeys, rng.choice([0, 0, 1, 2])))
            op['excl'] = sorted(rng.sample(qkeys, rng.choice([0, 0, 1, 2])))
            if rng.random() < 0.15:
                op['incl'] = sorted(op['incl'] + [DATA])
            elif rng.random() < 0.08:
                op['excl'] = sorted(op['excl'] + [DATA])
            if kind == 'filter':
                nbrs += 1
                dks.append(dks[src - 1])
        ops.append(op)
    return dict(rendering=rendering, bases=bases, ops=ops, askKeys=keys + ['kx'], explicitDefault=rng.random() < 0.5)


DATA = '<data key>'      # query token: the data key of the source browser named among the required / forbidden keys


def _qkey(rend, k, dk):
    return dk if k == DATA else rend.key(k, dk)


def _abs_incl(op):
    """Every item carries its data: requiring the data key changes nothing, forbidding it selects nothing.  In the
    abstract query (items are their metadata) the latter is a required key that no item has."""
    incl = [k for k in op['incl'] if k != DATA]
    if DATA in op['excl']:
        incl = sorted(incl + ['__no_item_has_this_key__'])
    return incl


def run_c17(ctx):
    ctx.rule('spec->code: every state dumped by TLC for Browser.tla is a session (<= 3 items over 2 metadata keys x 2 values x '
             'present/absent, data key default/custom, every query over those keys/values plus an absent key and an absent value, '
             'chains filter.filter, merge.filter, filter.merge, select, two bases with different globals / data keys); each session '
             'is replayed on real Browser objects under two renderings (strings + unhashable data; 1/True/tuple values + hashable '
             "data + 'results' as a metadata key under a custom data key) and every browser / outcome / keys() / "
             'available_values() is compared with the TLC state.  code->spec: seeded random sessions (0-12 items, 4 keys, values '
             'from a pool of mixed hashables, chains <= 4) validated by TLC against BrowserTrace.tla.  distinct_nontrivial counts '
             'distinct sessions in which some operation returns at least one item.  Spelling: in both directions the required / '
             'forbidden keys of every query (sets in the specification) are handed over, in rotation over the sessions, as tuple, '
             'list, set, frozenset, dict-keys view, generator, iterator, map object, list naming every key twice, or (empty set) '
             'not at all, and filter_by is called by keyword / with include positional / with both positional; a disagreement '
             'that disappears when the same session is re-spelled with keyword tuples is filed under the spelling it depends on.')
    ctx.assume("metadata keys are strings other than 'index' and the data key; values are hashable and not NaN; every item carries the data key")
    ctx.assume('globals of a merge (documented: update of the first by the second) and the ValueError on different data keys are '
               'modelled as documented but a deviation there is reported as drift, the statement does not fix them')
    wd = tlc.workdir('c17')
    n_replayed = 0
    n_states = 0
    for name, consts, kinds in configs(ctx):
        cfg = tlc.write_cfg(os.path.join(wd, name + '.cfg'), constants=consts, invariants=INVS, properties=['Immutable'], deadlock=False)
        dump = os.path.join(wd, name)
        res = tlc.run(SPEC, cfg, dump=dump, timeout=1500)
        ctx.tlc(res, 'Browser/' + name)
        if not res.ok:
            raise tlc.MachineryError('Browser.tla %s: %s\n%s' % (name, res.violation, res.out[-1500:]))
        tlc.check_coverage(res, ['Init', 'Next'], 'Browser/' + name)
        seen_kinds = set()
        for st in read_dump_fast(dump):
            n_states += 1
            if not st['ops']:
                continue
            seen_kinds.update(o['kind'] for o in st['ops'])
            exp = expected_of_state(st)
            crc = zlib.crc32(json.dumps([st['brs'], st['ops']], sort_keys=True).encode())   # TLC's dump order is not deterministic
            for ridx, rname in enumerate(('str', 'mixed')):
                case = assign_spellings(case_of_state(st, rname, explicit_default=(crc % 2 == 0)), crc // 2 + 7919 * ridx)
                got = run_session(case)
                n_replayed += 1
                diff = compare(case, exp, got)
                if diff:
                    key, text, is_drift, n = diff
                    if is_drift:
                        ctx.drift('%s: %s' % (key, text))
                    else:
                        # is the disagreement tied to the way the arguments are spelled?  (same TLC state as oracle)
                        still = {}
                        for vname, var in respelled(case).items():
                            d = compare(var, exp, run_session(var))
                            still[vname] = bool(d) and (d[0], d[3]) == (key, n)
                        ctx.violation(spelled_key(key, case, n, still), text, case, module=MODULE)
            if _nontrivial(exp):
                ctx.distinct((name, crc))
            if crc % 4999 == 1:
                ctx.sample(dict(config=name, case=case, expected_ops=exp['ops']))
        missing = set(kinds) - seen_kinds
        if missing:
            raise tlc.MachineryError('vacuous model Browser/%s: operation kinds never taken: %s' % (name, sorted(missing)))
        os.remove(dump + '.dump')
    for k, (over, wits) in enumerate(WITNESSES):
        cfg = tlc.write_cfg(os.path.join(wd, 'wit%d.cfg' % k), constants=_consts(**over), invariants=wits, deadlock=False)
        res = tlc.run(SPEC, cfg, coverage=False, continue_=True)
        hit = set(re.findall(r'Error: Invariant (\S+) is violated', res.out))
        if set(wits) - hit:
            raise tlc.MachineryError('witnesses not reachable in Browser.tla: %s' % sorted(set(wits) - hit))
    ctx.count(evaluations=n_replayed, traces=n_replayed)

    # code -> spec
    rng = ctx.rng
    n_random = ctx.pick(3000, 20000)
    batch, byid = [], {}
    for cid in range(1, n_random + 1):
        case = assign_spellings(random_case(rng, 'pool' if cid % 2 else 'pool-h'), cid)
        got = run_session(case)
        if got['problem']:
            ctx.violation('C17/construct/%s' % _dk_class(case), got['problem'], case, module=MODULE)
            continue
        executed = dict(case, ops=case['ops'][:len(got['ops'])])
        byid[cid] = (case, executed, got)
        batch.append(to_trace_case(cid, executed, got))
    total_bad = set()
    found = []
    # binding self-test: corrupted twins of recorded sessions (one field changed / one observation dropped) ride along in
    # the first batch under ids >= TWIN and must be rejected by TLC
    twins = corrupted_twins(batch)
    if len(twins) < 2:
        raise tlc.MachineryError('no recorded session suitable for the corrupted-trace self-test')
    chunk = 5000
    for k in range(0, len(batch), chunk):
        res, bad = validate_batch(batch[k:k + chunk] + (list(twins.values()) if k == 0 else []), wd, 'trace%d' % (k // chunk))
        ctx.tlc(res, 'BrowserTrace/%d' % (k // chunk))
        if k == 0:
            missed = set(twins) - {b[0] for b in bad}
            if missed:
                raise tlc.MachineryError('BrowserTrace accepts corrupted traces %s' % sorted(missed))
        bad = [b for b in bad if b[0] < TWIN]
        first = {}
        for cid, n, clause in sorted(bad, key=lambda b: (b[0], b[1] == 0, b[1], b[2])):
            first.setdefault(cid, (n, clause))     # the first disagreement of a session; later ones may be consequences
        for cid, (n, clause) in sorted(first.items()):
            case, executed, got = byid[cid]
            key, is_drift = trace_key(executed, got, n, clause)
            text = ('BrowserTrace rejects operation %d (%s), clause %s: observed %r'
                    % (n, _how(executed['ops'][n - 1]) if n else 'end of session', clause, got['ops'][n - 1] if n else got['final']))[:1500]
            if is_drift:
                ctx.drift('%s: %s' % (key, text))
            else:
                total_bad.add(cid)
                found.append((cid, n, clause, key, text))
    keys = name_spellings(found, byid, wd)
    for cid, n, clause, key, text in found:
        ctx.violation(keys[cid], text, byid[cid][0], module=MODULE)
    ctx.count(evaluations=len(batch), traces=len(batch))
    for cid in list(byid)[:2]:
        ctx.sample(dict(source='random', case=byid[cid][0], observed_tags=[o['tag'] for o in byid[cid][2]['ops']]))
    ctx.cov['exhaustive'] = True
    ctx.cov['explanation'] = ('exhaustive for the TLC configurations listed in tlc_runs (%d states, each replayed under 2 renderings); '
                              'random beyond them (%d sessions, %d rejected by TLC)' % (n_states, len(batch), len(total_bad)))
    # behaviour beyond the listed property (DESIGN 10.6): the inverted index under the Browser
    import conf_browserindex
    ctx.extra('BrowserIndex', conf_browserindex.run, tlc.workdir('c17bix'))
