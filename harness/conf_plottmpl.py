"""PlotTmpl.tla <-> valjean.javert.templates (CurveElements, SubPlotElements, SubPlotAttributes, PlotTemplate, join).

Extra module, outside the listed properties: a disagreement between the real classes and PlotTmpl.tla is an OBSERVATION
(recorded in ctx.cov['plottmpl'], one summary line, exit code unaffected), never a VIOLATION.

The abstract state is a small heap: templates hold subplot objects, subplot objects hold buffers (arrays, the axis-name
list, limits, lines) and scalars, a template holds its backend_kw buffer.  The harness numbers the real objects it meets
by identity (in the order PlotTmpl!AddTpl / AddSubs allocate them), so that aliasing is part of what is compared.

spec -> code : every history TLC enumerates (PlotTmpl.tla, all histories of new / copy / join / join() / write up to
               MaxOps operations from one or two initial templates) is replayed on real objects; the heap projected
               from the real objects after the last operation is compared with the heap of the TLC state.
code -> spec : the same replays (as a tree of steps) and seeded random longer histories (three data values, more
               shapes, self-joins, index outside 0..255, join associativity on real objects) are recorded with, after
               every step, the projected heap and the answers of ==, fingerprint, nb_plots, curves_index(), and judged
               by TLC through PlotTmplTrace.tla (clauses <<name, detail>> per step).
tiers        : quick  - shapes <<2>>, <<1,1>>, all optional parts present, 3 templates, 2 operations (1 write into
                        backend_kw / lines / values): ~2.9k states, all replayed; laws on the initial pools; 120 random histories.
               thorough - the same with and without optional parts, writes into all 11 fields: ~18k states, all replayed; laws
                        after one operation; 4 templates / 3 operations TLC-only (68k states); 1000 random histories.
negative     : TLC's own states fed back through PlotTmplTrace must be accepted; the same with one corrupted field
               (a data token, a shared backend_kw, reversed subplots) and a real case with one flipped == answer must be
               rejected with the right clause; thorough: PlotTmpl.tla with a join that prepends must violate StepLaw.
"""
import json
import os
import re
import sys
import threading

import tlc

SPEC = os.path.join(tlc.SPECS, 'PlotTmpl.tla')
TRACE = os.path.join(tlc.SPECS, 'PlotTmplTrace.tla')
ALL_FIELDS = ['kw', 'small', 'ax', 'lim', 'lines', 'logx', 'val', 'bins', 'err', 'leg', 'idx']
T_FIELDS, S_FIELDS = ('kw', 'small'), ('ax', 'lim', 'lines', 'logx')
WITNESSES = ['W_WriteAfterJoin', 'W_WriteOriginalAfterCopy', 'W_EqualWithoutCopy', 'W_SelfJoin', 'W_WriteCopy', 'W_Full']
ACTIONS = ['New', 'Copy', 'Join', 'JoinNew', 'Mutate']


# ---------------------------------------------------------------------------------------------------------------
# the real objects
def _mods():
    import core
    core.use_repo()
    import numpy as np
    from valjean.javert import templates as tm
    from valjean.fingerprint import fingerprint
    return np, tm, fingerprint


def _tok(fn):
    try:
        v = fn()
        return int(v) if int(v) == v and 0 <= int(v) < 1000 else 999
    except Exception:  # pylint: disable=broad-except
        return 999


class World:
    """A pool of real PlotTemplates + the numbering of the objects met so far (a number is never reused: the objects are
    kept alive)."""

    def __init__(self):
        self.np, self.tm, self.fingerprint = _mods()
        self.pool = []
        self.bkey, self.bufs = {}, []          # key -> number ; number-1 -> (kind, object or None)
        self.skey, self.subs = {}, []          # id(subplot) -> number ; number-1 -> subplot object

    # -- numbering -------------------------------------------------------------------------------------------
    def _buf(self, kind, obj, owner):
        key = id(obj) if obj is not None else ('none', id(owner), kind)
        n = self.bkey.get(key)
        if n is None:
            self.bufs.append((kind, obj, owner))
            n = self.bkey[key] = len(self.bufs)
        return n

    def _token(self, kind, obj):
        if obj is None:
            return 0
        if kind == 'val' or kind == 'err':
            return _tok(lambda: obj.flat[0])
        if kind == 'bins':
            return _tok(lambda: obj[2] - 1)
        if kind == 'bins2':
            return _tok(lambda: obj[2] + 2)
        if kind == 'ax':
            return _tok(lambda: int(obj[1][1:]))
        if kind == 'lim':
            return _tok(lambda: obj[0][1])
        if kind == 'lines':
            return _tok(lambda: obj[0]['x'])
        if kind == 'kw':
            return _tok(lambda: obj['k']) if obj else 0
        return 999

    def _sub_record(self, sp):
        att = sp.attributes
        rec = dict(ax=self._buf('ax', sp.axnames, sp), lim=self._buf('lim', att.limits, att), lines=self._buf('lines', att.lines, att),
                   logx=2 if att.logx else 1, c=[])
        for cv in sp.curves:
            bins = cv.bins[0] if len(cv.bins) >= 1 else None
            rec['c'].append([self._buf('val', cv.values, cv), self._buf('bins' if len(cv.bins) < 2 else 'bins2', bins, cv), self._buf('err', cv.errors, cv),
                             _tok(lambda: int(cv.legend[1:])), _tok(lambda: cv.index + 1)])
        return rec

    def project(self):
        tpls = []
        for t in self.pool:
            kw = self._buf('kw', t.backend_kw, t)
            ids = []
            for sp in t.subplots:
                if id(sp) not in self.skey:
                    self.subs.append(sp)
                    self.skey[id(sp)] = len(self.subs)
                    self._sub_record(sp)                     # numbers its buffers now, in allocation order
                ids.append(self.skey[id(sp)])
            tpls.append(dict(subs=ids, kw=kw, small=1 if t.small_subplots else 2))
        subs = [self._sub_record(sp) for sp in self.subs]
        content = [self._token(kind, obj) for kind, obj, _ in self.bufs]
        return dict(tpls=tpls, subs=subs, content=content)

    # -- operations ------------------------------------------------------------------------------------------
    def new(self, shape, v, full):
        """v > 3: the same template with 2-D data (values 2x3, two bins arrays of different lengths as in the docstring of
        PlotTemplate, three axis names, ptype '2D'); in the model: bins token 4 (PlotTmpl!NewFull)."""
        np, tm = self.np, self.tm
        dim = 2 if v > 3 else 1
        subs = []
        for nc in shape:
            if dim == 1:
                mk = lambda a, b: np.array([float(a), b])
                bins = lambda: [np.array([0., 1., 2.])]
            else:
                mk = lambda a, b: np.array([[float(a), b, b], [b, b, b]])
                bins = lambda: [np.array([0., 1., 2.]), np.array([0., 1., 2., 3.])]
            curves = [tm.CurveElements(mk(v, 5.), bins(), 'l%d' % (k + 1), index=0, errors=mk(v, 7.) if full else None)
                      for k in range(nc)]
            sp = tm.SubPlotElements(curves=curves, axnames=['x', 'y%d' % v] if dim == 1 else ['x', 'y%d' % v, 'z'],
                                    ptype='1D' if dim == 1 else '2D')
            if full:
                sp.attributes.limits = [(0, v)] if dim == 1 else [(0, v), (0, 1)]
                sp.attributes.lines = [{'x': v}]
            subs.append(sp)
        self.pool.append(tm.PlotTemplate(subplots=subs, backend_kw={'k': v} if full else None))

    def write(self, t, s, c, f, v, how=''):
        tpl = self.pool[t - 1]
        if f == 'kw':
            tpl.backend_kw['k'] = v
        elif f == 'small':
            tpl.small_subplots = (v == 1)
        else:
            sp = tpl.subplots[s - 1]
            if f == 'ax':
                sp.axnames[1] = 'y%d' % v
            elif f == 'lim':
                sp.attributes.limits[0] = (0, v)
            elif f == 'lines':
                if how == 'item':
                    sp.attributes.lines[0] = {'x': v}
                else:
                    sp.attributes.lines[0]['x'] = v
            elif f == 'logx':
                sp.attributes.logx = (v == 2)
            else:
                cv = sp.curves[c - 1]
                if f == 'val':
                    cv.values.flat[0] = v
                elif f == 'bins':
                    cv.bins[0][2] = 1 + v
                elif f == 'err':
                    cv.errors.flat[0] = v
                elif f == 'leg':
                    cv.legend = 'l%d' % v
                elif f == 'idx':
                    cv.index = v - 1

    def apply(self, e):
        """-> '' or the name of what raised."""
        try:
            if e['op'] == 'new':
                self.new(e['shape'], e['v'], e['full'])
            elif e['op'] == 'copy':
                self.pool.append(self.pool[e['i'] - 1].copy())
            elif e['op'] == 'join':
                self.pool[e['i'] - 1].join(self.pool[e['j'] - 1])
            elif e['op'] == 'joinnew':
                self.pool.append(self.tm.join(self.pool[e['i'] - 1], self.pool[e['j'] - 1]))
            elif e['op'] == 'mutate':
                self.write(e['i'], e['s'], e['c'], e['f'], e['v'], e.get('how', ''))
        except Exception as ex:  # pylint: disable=broad-except
            return '%s-raises-%s' % (e['op'], type(ex).__name__)
        return ''

    def answers(self):
        n = len(self.pool)
        exc = ''
        eq = [[False] * n for _ in range(n)]
        for a in range(n):
            for b in range(n):
                try:
                    eq[a][b] = bool(self.pool[a] == self.pool[b])
                    if eq[a][b] == bool(self.pool[a] != self.pool[b]):
                        exc = exc or 'ne-is-not-the-negation-of-eq'
                except Exception as ex:  # pylint: disable=broad-except
                    exc = exc or 'eq-raises-%s' % type(ex).__name__
        fps = []
        for t in self.pool:
            try:
                fps.append(self.fingerprint(t))
            except Exception as ex:  # pylint: disable=broad-except
                fps.append(None)
                exc = exc or 'fingerprint-raises-%s' % type(ex).__name__
        fpeq = [[fps[a] is not None and fps[a] == fps[b] for b in range(n)] for a in range(n)]
        nb, cidx = [], []
        for t in self.pool:
            nb.append(_tok(lambda: t.nb_plots))
            try:
                cidx.append([int(x) + 1 for x in t.curves_index()])
            except Exception as ex:  # pylint: disable=broad-except
                cidx.append([])
                exc = exc or 'curves_index-raises-%s' % type(ex).__name__
        return dict(eq=eq, fpeq=fpeq, nb=nb, cidx=cidx), exc

    def content_of(self, tpl):
        """By-value content of a real template that is not in the pool: [[ax, [[val, bins, err, leg, idx], ...]], ...]."""
        out = []
        for sp in tpl.subplots:
            out.append([self._token('ax', sp.axnames),
                        [[self._token('val', cv.values), self._token('bins' if len(cv.bins) < 2 else 'bins2', cv.bins[0] if len(cv.bins) >= 1 else None),
                          self._token('err', cv.errors), _tok(lambda: int(cv.legend[1:])), _tok(lambda: cv.index + 1)] for cv in sp.curves]])
        return out


def ev(op, i=0, j=0, s=0, c=0, f='', v=0, shape=(), full=False, **kw):
    return dict(op=op, i=i, j=j, s=s, c=c, f=f, v=v, shape=list(shape), full=bool(full), **kw)


BLANK = dict(post=dict(tpls=[], subs=[], content=[]), eq=[], fpeq=[], nb=[], cidx=[], exc='', pre=[], ans=True,
             left=[], right=[], lreq=True, lrfp=True)


def case_of(cid, d, e, **kw):
    c = dict(BLANK, id=cid, d=d)
    c.update({k: e[k] for k in ('op', 'i', 'j', 's', 'c', 'f', 'v', 'shape', 'full')})
    c.update(kw)
    return c


def run_ops(ops):
    """Replay a history from scratch -> (world, name of what raised or '').  The objects are numbered after every step."""
    w = World()
    for e in ops:
        exc = w.apply(e)
        w.project()
        if exc:
            return w, exc
    return w, ''


# ---------------------------------------------------------------------------------------------------------------
# TLC side
def fast_states(path):
    """The states of a -dump file of PlotTmpl (ints, strings, booleans, records, tuples only), as python dicts / lists."""
    with open(path) as f:
        txt = f.read()
    txt = txt.replace('[', '{').replace(']', '}').replace('<<', '[').replace('>>', ']')
    txt = re.sub(r'(\w+) \|->', r'"\1":', txt).replace('TRUE', 'true').replace('FALSE', 'false')
    for block in re.split(r'^State \d+:\n', txt, flags=re.M)[1:]:
        st = {}
        for part in block.split('/\\ ')[1:]:
            name, _, val = part.partition(' = ')
            st[name.strip()] = json.loads(val)
        yield st


def heap_json(h):
    """TLC heap value -> the JSON shape of World.project()."""
    return dict(tpls=[dict(subs=list(t['subs']), kw=t['kw'], small=t['small']) for t in h['tpls']],
                subs=[dict(ax=s['ax'], lim=s['lim'], lines=s['lines'], logx=s['logx'],
                           c=[[c['val'], c['bins'], c['err'], c['leg'], c['idx']] for c in s['curves']]) for s in h['subs']],
                content=list(h['content']))


def canonical(h):
    """Heap up to the numbering: objects renumbered in the order a walk through the pool meets them."""
    bmap, smap = {}, {}

    def b(n):
        return bmap.setdefault(n, len(bmap) + 1)
    out = []
    for t in h['tpls']:
        row = [b(t['kw']), h['content'][t['kw'] - 1], t['small']]
        for sid in t['subs']:
            s = h['subs'][sid - 1]
            row.append((smap.setdefault(sid, len(smap) + 1), s['logx'],
                        tuple((b(s[k]), h['content'][s[k] - 1]) for k in ('ax', 'lim', 'lines')),
                        tuple((tuple((b(c[k]), h['content'][c[k] - 1]) for k in range(3)), c[3], c[4]) for c in s['c'])))
        out.append(tuple(row))
    return tuple(out)


def op_of(h):
    return ev(h['op'], h['i'], h['j'], h['s'], h['c'], h['f'], h['v'], h['shape'], h['full'])


def op_key(e):
    return (e['op'], e['i'], e['j'], e['s'], e['c'], e['f'], e['v'], tuple(e['shape']), e['full'])


def judge(ctx, wd, cases, tag):
    """-> {case id: set of (name, detail)}"""
    cj = tlc.json_dump(os.path.join(wd, 'pt_%s.json' % tag), cases)
    oj = os.path.join(wd, 'pt_%s_out.json' % tag)
    cfg = tlc.write_cfg(os.path.join(wd, 'pt_%s.cfg' % tag), spec='TSpec', deadlock=False, postcondition='Post',
                        constants={'ShapeCodes': frozenset({1}), 'Fulls': frozenset({True}), 'Vals': frozenset({1}), 'MaxTpl': 0,
                                   'MaxOps': 0, 'MaxMut': 0, 'MutFields': frozenset({'ax'})})
    res = tlc.run(TRACE, cfg, workers=1, coverage=False, env=dict(VERIF_CASES=cj, VERIF_OUT=oj), timeout=1500)
    with _LOCK:
        ctx.tlc(res, 'PlotTmplTrace/' + tag)
    if not res.ok:
        raise tlc.MachineryError('PlotTmplTrace %s: %s\n%s' % (tag, res.violation, res.out[-1500:]))
    with open(oj) as f:
        bad = json.load(f)['bad']
    out = {}
    for cid, name, detail in bad:
        out.setdefault(cid, set()).add((name, detail))
    os.remove(cj)
    return out


# ---------------------------------------------------------------------------------------------------------------
_T = [0.0]
_LOCK = threading.Lock()


def _lap(what):
    import time
    now = time.time()
    if os.environ.get('VERIF_VERBOSE') and _T[0]:
        print('  plottmpl %-14s %.1fs' % (what, now - _T[0]), flush=True)
    _T[0] = now


def run(ctx, wd):
    observations = {}
    _T[0] = 0.0
    _lap('start')

    def note(key, example):
        o = observations.setdefault('PlotTmpl/' + key, dict(count=0, example=example))
        o['count'] += 1
        size = lambda x: (len(x['ops']), sum('(t1, t1)' in y or 't1.join(t1)' in y for y in x['ops']))
        if size(example) < size(o['example']):
            o['example'] = example

    consts = {'ShapeCodes': frozenset({2, 11}), 'Fulls': frozenset(ctx.pick({True}, {True, False})),
              'Vals': frozenset({1, 2}), 'MaxTpl': 3, 'MaxOps': 2, 'MaxMut': 1,
              'MutFields': frozenset(ctx.pick(['kw', 'lines', 'val'], ALL_FIELDS))}
    invs = ['TypeOK', 'NoSharing', 'IndexLaw', 'Monitor']
    props = ['FrameLaw', 'StepLaw']
    cfg = tlc.write_cfg(os.path.join(wd, 'plottmpl.cfg'), spec='MSpec', constants=consts, invariants=invs, properties=props,
                        deadlock=False, postcondition='AllWitnessed')
    dump = os.path.join(wd, 'plottmpl')
    side = {}

    def laws():
        """The quantified laws (copy, join, join(), associativity, write, ==) on a smaller configuration; thorough: also
        one step of every kind from every initial pool, and the model with a join that prepends must be rejected."""
        try:
            c2 = dict(consts, ShapeCodes=frozenset({2, 11}), Fulls=frozenset({True, False}), MaxOps=ctx.pick(0, 1), MaxTpl=3,
                      MutFields=frozenset(ALL_FIELDS))
            lcfg = tlc.write_cfg(os.path.join(wd, 'laws.cfg'), constants=c2, deadlock=False,
                                 invariants=['TypeOK', 'NoSharing', 'CopyLaw', 'EqLaw', 'JoinLaw', 'JoinNewLaw', 'JoinAssoc', 'WriteLaw', 'IndexLaw'])
            side['laws'] = tlc.run(SPEC, lcfg, coverage=False, workers=ctx.pick(2, 6))
            if not ctx.quick:
                wcfg = tlc.write_cfg(os.path.join(wd, 'wrong.cfg'), constants=dict(c2, JoinH=tlc.Raw('<- JoinHPrepends'), MaxOps=1),
                                     properties=['StepLaw'], deadlock=False)
                side['wrong'] = tlc.run(SPEC, wcfg, coverage=False, workers=2)
                # one more operation (TLC only, no replay): 4 templates, 3 operations, writes into three kinds of buffers
                c3 = dict(consts, ShapeCodes=frozenset({2, 11}), Fulls=frozenset({True}), MaxTpl=4, MaxOps=3, MutFields=frozenset({'kw', 'lines', 'val'}))
                dcfg = tlc.write_cfg(os.path.join(wd, 'deep.cfg'), constants=c3, invariants=['TypeOK', 'NoSharing', 'IndexLaw'],
                                     properties=['FrameLaw', 'StepLaw'], deadlock=False)
                side['deep'] = tlc.run(SPEC, dcfg, coverage=False, workers=6)
        except Exception as ex:  # pylint: disable=broad-except
            side['error'] = ex
    th = threading.Thread(target=laws)
    th.start()
    try:
        res = tlc.run(SPEC, cfg, dump=dump, workers=ctx.pick(6, 12), timeout=1500)
    except tlc.MachineryError as ex:
        if 'AllWitnessed' not in str(ex):
            th.join()
            raise
        # which one?  the classical way: one run per witness, TLC must violate it
        for wit in WITNESSES:
            c2 = tlc.write_cfg(os.path.join(wd, wit + '.cfg'), constants=consts, invariants=[wit], deadlock=False)
            if tlc.run(SPEC, c2, coverage=False).violation != ('invariant', wit):
                th.join()
                raise tlc.MachineryError('witness %s not reachable in PlotTmpl.tla' % wit) from ex
        res = tlc.run(SPEC, tlc.write_cfg(cfg, constants=consts, invariants=invs[:-1], properties=props, deadlock=False), dump=dump, timeout=1500)
    ctx.tlc(res, 'PlotTmpl/histories')
    if not res.ok:
        th.join()
        raise tlc.MachineryError('PlotTmpl.tla: %s\n%s' % (res.violation, res.out[-1500:]))
    tlc.check_coverage(res, ACTIONS, 'PlotTmpl')

    # ---- spec -> code: every history, as a tree of steps ----------------------------------------------------
    _lap('tlc main')
    tree = {}                      # tuple of op keys -> dict(ops=[...], tlc=heap or None)
    nstates = 0
    for st in fast_states(dump + '.dump'):
        nstates += 1
        ops = [op_of(h) for h in st['hist']]
        for n in range(1, len(ops) + 1):
            key = tuple(op_key(e) for e in ops[:n])
            node = tree.setdefault(key, dict(ops=ops[:n], tlc=None))
            if n == len(ops):
                node['tlc'] = heap_json(st['heap'])
    os.remove(dump + '.dump')
    _lap('dump read')
    cases, meta = [], {}
    diverged = set()
    nreplayed = nexact = nrenumbered = 0
    posts = {}
    order = sorted(tree)           # lexicographic = depth-first: a node right after its prefix, before its siblings' subtrees
    for key in order:
        node = tree[key]
        w, exc = run_ops(node['ops'])
        post = w.project()
        ans, exc2 = w.answers() if not exc else (dict(eq=[], fpeq=[], nb=[], cidx=[]), '')
        cid = len(cases) + 1
        cases.append(case_of(cid, len(key), node['ops'][-1], post=post, exc=exc or exc2, **ans))
        meta[cid] = dict(ops=node['ops'], post=post, answers=ans)
        posts[key] = post
        if node['tlc'] is not None:
            nreplayed += 1
            if post == node['tlc']:
                nexact += 1
            elif canonical(post) == canonical(node['tlc']):
                nrenumbered += 1
            else:
                diverged.add(key)
                if key[:-1] not in diverged:       # the first step of this history at which the real heap leaves TLC's
                    note('replay/heap-differs-from-TLC-state/after-%s' % node['ops'][-1]['op'],
                         dict(ops=_short(node['ops']), real=post, tlc=node['tlc']))
    ctx.count(evaluations=len(order))
    _lap('replay')
    if nstates != res.distinct:
        raise tlc.MachineryError('PlotTmpl: %d states found, %d in the dump' % (res.distinct, nstates))

    # controls: TLC's own states through the trace specification (must pass), then corrupted (must be rejected)
    controls, expect = [], {}
    cid = 10 ** 6

    def control(key, mut=None, want=None):
        nonlocal cid
        node, parent = tree[key], tree.get(key[:-1])
        if node['tlc'] is None or (len(key) > 1 and (parent is None or parent['tlc'] is None)):
            return False
        post = json.loads(json.dumps(node['tlc']))
        if mut is not None and mut(post, node['ops'][-1]) is False:
            return False
        cid += 1
        controls.append(case_of(cid, len(key), node['ops'][-1], post=post, ans=False,
                                pre=[parent['tlc']] if len(key) > 1 else [dict(tpls=[], subs=[], content=[])]))
        expect[cid] = want
        return True

    def m_token(post, e):
        post['content'][post['tpls'][-1]['kw'] - 1] += 1

    def m_share(post, e):
        post['tpls'][-1]['kw'] = post['tpls'][e['i'] - 1]['kw']

    def m_reverse(post, e):
        subs = post['tpls'][e['i'] - 1]['subs']
        tok = lambda b: post['content'][b - 1]
        byval = [(tok(post['subs'][s - 1]['ax']), [[tok(c[0]), tok(c[1]), tok(c[2]), c[3], c[4]] for c in post['subs'][s - 1]['c']]) for s in subs]
        if byval == byval[::-1]:
            return False
        subs.reverse()
        return True
    done = dict(plain=0, token=0, share=0, reverse=0)
    for key in order:
        op = tree[key]['ops'][-1]['op']
        if done['plain'] < ctx.pick(60, 300) and control(key):
            done['plain'] += 1
        if op == 'copy' and done['token'] < 5 and control(key, m_token, ('content', 'copy')):
            done['token'] += 1
        if op == 'copy' and done['share'] < 5 and control(key, m_share, ('copy-shares', 'kw')):
            done['share'] += 1
        if op == 'join' and done['reverse'] < 5 and control(key, m_reverse, ('content', 'join')):
            done['reverse'] += 1
    if min(done.values()) == 0:
        raise tlc.MachineryError('PlotTmpl: no control case of some kind: %s' % done)
    # a real case with one flipped == answer
    for c in cases:
        if len(c['eq']) >= 2 and not c['exc'] and c['eq'][0][1] == c['eq'][1][0]:
            cid += 1
            flipped = dict(c, id=cid, eq=[list(r) for r in c['eq']],
                           pre=[posts[tuple(op_key(e) for e in meta[c['id']]['ops'][:-1])]] if c['d'] > 1 else [BLANK['post']])
            flipped['eq'][0][1] = not flipped['eq'][0][1]
            controls.append(flipped)
            expect[cid] = ('eq', 'not-symmetric')
            break
    else:
        raise tlc.MachineryError('PlotTmpl: no case to flip an == answer in')

    # ---- code -> spec: random longer histories ------------------------------------------------------------------
    rng = ctx.rng
    rcases, rmeta = [], {}
    ntraces = ctx.pick(120, 1000)
    shapes = [(1,), (2,), (1, 1), (2, 1), (1, 2)]
    for tr in range(ntraces):
        w = World()
        ops = []
        length = rng.randint(3, 9)
        big = tr % 25 == 24
        for k in range(length):
            n = len(w.pool)
            r = rng.random()
            if n == 0 or (r < 0.15 and n < 5):
                e = ev('new', shape=rng.choice(shapes), v=rng.randint(4, 5) if rng.random() < 0.2 else rng.randint(1, 3), full=rng.random() < 0.6)
            elif r < 0.30 and n < 5:
                e = ev('copy', i=rng.randint(1, n))
            elif r < 0.55:
                a, b = rng.randint(1, n), rng.randint(1, n)
                if len(w.pool[a - 1].subplots) + len(w.pool[b - 1].subplots) > 5:
                    e = ev('copy', i=a) if n < 5 else None
                else:
                    e = ev('join' if rng.random() < 0.5 or n >= 5 else 'joinnew', i=a, j=b)
            else:
                e = _random_write(rng, w)
            if big and k == length - 1:
                e = _random_write(rng, w, big=True)
            if e is None:
                continue
            exc = w.apply(e)
            ops.append(e)
            post = w.project()
            ans, exc2 = w.answers() if not exc else (dict(eq=[], fpeq=[], nb=[], cidx=[]), '')
            cid = 2 * 10 ** 6 + len(rcases) + 1
            rcases.append(case_of(cid, len(ops), e, post=post, exc=exc or exc2, **ans))
            rmeta[cid] = dict(ops=list(ops), post=post, answers=ans)
            if exc or exc2:
                break
        else:
            n = len(w.pool)
            a, b, c = (rng.randint(1, n) for _ in range(3))
            if sum(len(w.pool[x - 1].subplots) for x in (a, b, c)) <= 6:
                cid = 2 * 10 ** 6 + len(rcases) + 1
                e = ev('assoc', i=a, j=b, s=c)
                try:
                    join = w.tm.join
                    left = join(join(w.pool[a - 1], w.pool[b - 1]), w.pool[c - 1])
                    right = join(w.pool[a - 1], join(w.pool[b - 1], w.pool[c - 1]))
                    extra = dict(left=w.content_of(left), right=w.content_of(right), lreq=bool(left == right),
                                 lrfp=w.fingerprint(left) == w.fingerprint(right))
                    exc = ''
                except Exception as ex:  # pylint: disable=broad-except
                    extra, exc = {}, 'assoc-raises-%s' % type(ex).__name__
                rcases.append(case_of(cid, len(ops) + 1, e, exc=exc, **extra))
                rmeta[cid] = dict(ops=list(ops) + [e], post=w.project(), answers=extra)
    _lap('random')
    # ---- code -> spec: the tree of replays, judged by TLC -----------------------------------------------------
    chunks = []
    for c in cases:
        if c['d'] == 1:
            chunks.append([])
        chunks[-1].append(c)
    chunks.sort(key=len, reverse=True)
    chunks[-1] = chunks[-1] + controls
    if ctx.quick:
        chunks[-1] = chunks[-1] + rcases         # one JVM less
    verdict = {}
    jobs = [lambda ch=ch, k=k: judge(ctx, wd, ch, 'enum%d' % k) for k, ch in enumerate(chunks)]
    if not ctx.quick:
        jobs.append(lambda: judge(ctx, wd, rcases, 'random'))
    for v in _parallel(jobs, ctx.pick(2, 4)):
        verdict.update(v)
    for k, want in expect.items():
        got = verdict.get(k, set())
        if want is None and got:
            raise tlc.MachineryError('PlotTmplTrace rejects a state of PlotTmpl.tla itself: %s' % sorted(got))
        if want is not None and want not in got:
            raise tlc.MachineryError('PlotTmplTrace accepts a corrupted case (expected %s, got %s)' % (want, sorted(got)))
    for c in cases:
        for name, detail in sorted(verdict.get(c['id'], ())):
            m = meta[c['id']]
            note('%s/%s' % (name, detail), dict(ops=_short(m['ops']), heap_after=m['post'], answers=m['answers']))
    ctx.count(traces=len(cases))
    _lap('judge enum')

    rverdict = verdict
    for c in rcases:
        for name, detail in sorted(rverdict.get(c['id'], ())):
            m = rmeta[c['id']]
            note('%s/%s' % (name, detail), dict(ops=_short(m['ops']), heap_after=m['post'], answers=m['answers']))
    ctx.count(evaluations=len(rcases), traces=len(rcases))

    _lap('judge random')
    th.join()
    _lap('laws joined')
    if 'error' in side:
        raise tlc.MachineryError('PlotTmpl laws: %s' % side['error'])
    ctx.tlc(side['laws'], 'PlotTmpl/laws')
    if not side['laws'].ok:
        raise tlc.MachineryError('PlotTmpl.tla: a law does not hold in the model: %s\n%s' % (side['laws'].violation, side['laws'].out[-1500:]))
    if 'deep' in side:
        ctx.tlc(side['deep'], 'PlotTmpl/three-operations')
        if not side['deep'].ok:
            raise tlc.MachineryError('PlotTmpl.tla (three operations): %s' % (side['deep'].violation,))
    if 'wrong' in side:
        ctx.tlc(side['wrong'], 'PlotTmpl/join-prepends (must fail)')
        if side['wrong'].violation != ('property', 'StepLaw'):
            raise tlc.MachineryError('PlotTmpl.tla with a join that prepends is not rejected: %s' % (side['wrong'].violation,))

    ctx.cov['plottmpl'] = dict(histories_enumerated=nreplayed, replay_exact=nexact, replay_same_up_to_numbering=nrenumbered,
                               steps_judged=len(cases), controls=dict(done, flipped_eq=1), random_histories=ntraces,
                               random_steps=len(rcases), observations={k: v for k, v in sorted(observations.items())})
    print_summary('PlotTmpl', 'plottmpl', observations, strip='PlotTmpl/')


def _parallel(jobs, width):
    """Run the jobs (each starts one JVM) `width` at a time -> results in order; the first exception is raised."""
    out, errs = [None] * len(jobs), []
    todo = list(enumerate(jobs))
    lock = threading.Lock()

    def worker():
        while True:
            with lock:
                if not todo or errs:
                    return
                k, job = todo.pop(0)
            try:
                out[k] = job()
            except Exception as ex:  # pylint: disable=broad-except
                errs.append(ex)
    ths = [threading.Thread(target=worker) for _ in range(width)]
    for t in ths:
        t.start()
    for t in ths:
        t.join()
    if errs:
        raise errs[0]
    return out


def _random_write(rng, w, big=False):
    t = rng.randint(1, len(w.pool))
    tpl = w.pool[t - 1]
    f = 'idx' if big else rng.choice(ALL_FIELDS)
    s = c = 0
    if f not in T_FIELDS:
        if not tpl.subplots:
            return None
        s = rng.randint(1, len(tpl.subplots))
        if f not in S_FIELDS:
            c = rng.randint(1, len(tpl.subplots[s - 1].curves))
    h = w.project()
    sub = h['subs'][h['tpls'][t - 1]['subs'][s - 1] - 1] if s else None
    if f == 'small':
        cur = h['tpls'][t - 1]['small']
    elif f == 'kw':
        cur = h['content'][h['tpls'][t - 1]['kw'] - 1]
    elif f == 'logx':
        cur = sub['logx']
    elif f in S_FIELDS:
        cur = h['content'][sub[f] - 1]
    elif f in ('leg', 'idx'):
        cur = sub['c'][c - 1][3 if f == 'leg' else 4]
    else:
        cur = h['content'][sub['c'][c - 1][('val', 'bins', 'err').index(f)] - 1]
    if (f in ('lim', 'lines', 'err') and cur == 0) or (f == 'bins' and cur > 3):
        return None
    if big:
        return ev('mutate', i=t, s=s, c=c, f=f, v=301)          # index=300: an int, as documented
    v = rng.choice([x for x in ((1, 2) if f in ('small', 'logx') else (1, 2, 3)) if x != cur])
    return ev('mutate', i=t, s=s, c=c, f=f, v=v, how='item' if f == 'lines' and rng.random() < 0.5 else '')


def _short(ops):
    out = []
    for e in ops:
        if e['op'] == 'new':
            out.append('new(shape=%s, v=%d, full=%s%s)' % (list(e['shape']), e['v'], e['full'], ', 2-D data' if e['v'] > 3 else ''))
        elif e['op'] == 'copy':
            out.append('t%d.copy()' % e['i'])
        elif e['op'] == 'join':
            out.append('t%d.join(t%d)' % (e['i'], e['j']))
        elif e['op'] == 'joinnew':
            out.append('join(t%d, t%d)' % (e['i'], e['j']))
        elif e['op'] == 'assoc':
            out.append('join(join(t%d, t%d), t%d) vs join(t%d, join(t%d, t%d))' % (e['i'], e['j'], e['s'], e['i'], e['j'], e['s']))
        else:
            where = 't%d' % e['i'] + ('.subplots[%d]' % (e['s'] - 1) if e['s'] else '') + ('.curves[%d]' % (e['c'] - 1) if e['c'] else '')
            out.append('write %s.%s := %d' % (where, e['f'], e['v']))
    return out


def print_summary(module, name, observations, strip=''):
    """The ONE line an extra module prints per run (nothing when there is nothing to observe): the classes with their counts,
    most frequent first, at most 300 characters.  Count and smallest example of every class stay in the evidence
    (ctx.cov[name]['observations'])."""
    if not observations:
        return
    try:
        '—…'.encode(getattr(sys.stdout, 'encoding', None) or 'ascii')
        dash, dots = '—', '…'
    except (UnicodeError, LookupError):
        dash, dots = '--', '...'
    head = 'OBSERVATION (%s, outside the listed properties) %d classes, %d cases: ' % (
        module, len(observations), sum(v['count'] for v in observations.values()))
    tail = ' %s details in evidence coverage.%s.observations' % (dash, name)
    items = ['%s (%d)' % (k[len(strip):] if strip and k.startswith(strip) else k, v['count'])
             for k, v in sorted(observations.items(), key=lambda kv: (-kv[1]['count'], kv[0]))]
    room = 300 - len(head) - len(tail)
    shown = []
    for n, item in enumerate(items):
        if len(', '.join(shown + [item])) + (len(dots) + 2 if n + 1 < len(items) else 0) > room:
            shown.append(dots)
            break
        shown.append(item)
    print(head + ', '.join(shown) + tail)
