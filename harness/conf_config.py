"""Config.tla <-> valjean.config.Config, its builders (valjean.cambronne.main: `-c FILE`, process_options, `valjean run`),
its readers (RunTask, CheckoutTask, PythonTask: config.query('path', ...)) and valjean.path (ensure, sanitize_filename).

Extra module, outside the listed properties: a disagreement between the real code and Config.tla is an OBSERVATION
(ctx.cov['config']['observations']), never a violation.
spec -> code : every history TLC enumerates (Config histories from one `Config()`; path.py histories on an empty scratch
               tree) is replayed on the real objects; after every step the projection of every object (and the TOML / repr
               views, the results, the exception) is recorded.
code -> spec : seeded random longer histories over a bigger domain (other section / key names, float and bool values,
               TOML written by hand with inline and dotted tables, the real argument parser, a real `valjean run`).
Both kinds of recorded runs are judged by TLC through ConfigTrace.tla (Eff / EnsureEff of Config.tla); the states TLC
dumped are compared with the replay as a cross-check of the two oracles.
"""
import copy
import json
import os
import re
import shutil

import tlc
from conf_rlist import print_summary

SPEC = os.path.join(tlc.SPECS, 'Config.tla')
TRACE = os.path.join(tlc.SPECS, 'ConfigTrace.tla')

KEYMAP = {'log': 'log-root', 'out': 'output-root', 'rep': 'report-root'}
KEYBACK = {v: k for k, v in KEYMAP.items()}
DEFDIR = {'log': 'log', 'out': 'output', 'rep': 'report'}
NONE = dict(t='none', v='', m={})
ACTIONS = ['New', 'From', 'NewBad', 'SetSec', 'Set', 'SetIn', 'Del', 'Get', 'GetDef', 'Copy', 'Update', 'Eq', 'Round', 'Consume',
           'Ensure', 'Sanitize']
CHARS = {'a': 'a', '.': '.', '/': '/', '0': '\0'}


def leaf(v):
    return dict(t='leaf', v=v, m={})


class World:
    """The real side of one run of the module: a scratch directory that is the working directory (so that the built-in
    defaults point into it), the values the tokens stand for, the parser of the real `valjean` executable."""

    def __init__(self, wd):
        import core
        core.use_repo()
        self.base = os.path.realpath(os.path.join(wd, 'world'))
        self.cwd = os.path.join(self.base, 'cwd')
        os.makedirs(self.cwd, exist_ok=True)
        self.tok = {'x': os.path.join(self.base, 'X'), 'y': 7, 'z': os.path.join(self.base, 'Z'), 'w': 2.5, 'J': 3}
        self.back = {(type(v).__name__, v): k for k, v in self.tok.items()}
        for k, d in DEFDIR.items():
            self.back[('str', '%s/%s' % (self.cwd, d))] = ('def', k)
        self.nfile = 0
        self.nfs = 0
        self._parser = None
        self.sink = []

    def __enter__(self):
        self.old = os.getcwd()
        os.chdir(self.cwd)
        return self

    def __exit__(self, *a):
        os.chdir(self.old)

    # -- model value <-> python value
    def py(self, v):
        if v['t'] == 'leaf':
            return self.tok[v['v']]
        if v['t'] == 'def':
            return '%s/%s' % (self.cwd, DEFDIR[v['v']])
        if v['t'] == 'node':
            return {KEYMAP.get(k, k): self.py(x) for k, x in v['m'].items()}
        raise ValueError(v)

    def py_tab(self, tab, rev=False):
        keys = sorted(tab, reverse=rev)
        return {KEYMAP.get(k, k): self.py(tab[k]) for k in keys}

    def py_tree(self, tree, rev=False):
        return {s: self.py_tab(tree[s], rev) for s in sorted(tree, reverse=rev)}

    def val(self, x, deep=True):
        if isinstance(x, dict):
            if not deep:
                return leaf('?nested')
            return dict(t='node', v='', m={KEYBACK.get(k, str(k)): self.val(y, False) for k, y in x.items()})
        try:
            hit = self.back.get((type(x).__name__, x))
        except TypeError:
            hit = None
        if isinstance(hit, tuple):
            return dict(t='def', v=hit[1], m={})
        if hit is not None:
            return leaf(hit)
        return leaf('?' + repr(x)[:40])

    def tab(self, d):
        if not isinstance(d, dict):
            return {'?': leaf('?' + repr(d)[:40])}
        return {KEYBACK.get(k, str(k)): self.val(v) for k, v in d.items()}

    def tree(self, mapping):
        out = {}
        for s in mapping:
            t = mapping[s]
            if s == 'args' and isinstance(t, dict) and 'func' in t:       # vars(args) stored by `valjean run`: what is read later
                t = {'workers': t.get('workers')}
            out[str(s)] = self.tab(t)
        return out

    def parser(self):
        if self._parser is None:
            from valjean.cambronne import main
            self._parser = main.make_parser()
        return self._parser

    def newfile(self, text):
        self.nfile += 1
        path = os.path.join(self.base, 'f%d.toml' % self.nfile)
        with open(path, 'w') as f:
            f.write(text)
        return path


def toml_text(py, rng):
    """TOML written by hand (not by the library under test): sections and keys in the order of `py`, a nested table either
    inline or as a dotted header."""
    def key(k):
        return k if k.replace('-', '').replace('_', '').isalnum() else json.dumps(k)

    def lit(v):
        if isinstance(v, bool):
            return 'true' if v else 'false'
        if isinstance(v, (int, float)):
            return repr(v)
        return json.dumps(v)
    lines = []
    for s, tab in py.items():
        lines.append('[%s]' % key(s))
        later = []
        for k, v in tab.items():
            if isinstance(v, dict):
                if v and rng.random() < 0.5:
                    lines.append('%s = { %s }' % (key(k), ', '.join('%s = %s' % (key(a), lit(b)) for a, b in v.items())))
                else:
                    later.append((k, v))
            else:
                lines.append('%s = %s' % (key(k), lit(v)))
        for k, v in later:
            lines.append('[%s.%s]' % (key(s), key(k)))
            lines += ['%s = %s' % (key(a), lit(b)) for a, b in v.items()]
        lines.append('')
    return '\n'.join(lines)


JOB = '''from valjean.cosette.pythontask import PythonTask
from valjean.cosette.task import TaskStatus
import builtins
def job():
    def probe(*, config):
        builtins._verif_config_sink.append(config)
        return {'probe': {}}, TaskStatus.DONE
    return [PythonTask('probe', probe, config_kwarg='config')]
'''


def _exc(ex):
    return 'OSError' if isinstance(ex, OSError) else type(ex).__name__


def run_conf(w, events, rng):
    """Execute a Config history on the real class; returns the events with `obs`."""
    from valjean.config import Config
    objs = [Config()]
    out = []
    for e in events:
        e = dict(e)
        op, kind = e['op'], e['kind']
        a = objs[e['a'] - 1] if 1 <= e['a'] <= len(objs) else None
        exc, val, b, argsame = '', NONE, False, True
        before = [repr(c) for c in objs]
        touched = [e['a']] if a is not None else []
        try:
            if op == 'new':
                if kind == 'cli':
                    from valjean.cambronne import main
                    objs.append(main.process_options(w.parser().parse_args(['run', 'job.py'])))
                else:
                    objs.append(Config(None) if kind == 'none' else Config())
                touched.append(len(objs))
            elif op == 'from':
                py = w.py_tree(e['m'], rev=kind in ('dictrev', 'clirun'))
                if kind in ('dict', 'dictrev'):
                    snap = copy.deepcopy(py)
                    try:
                        objs.append(Config(py))
                    finally:
                        argsame = py == snap
                elif kind == 'file':
                    path = w.newfile(toml_text(py, rng))
                    from pathlib import Path
                    objs.append(Config.from_file(Path(path) if rng.random() < 0.5 else path))
                elif kind == 'cli':
                    from valjean.cambronne import main
                    objs.append(main.process_options(w.parser().parse_args(['-c', w.newfile(toml_text(py, rng)), 'run', 'job.py'])))
                elif kind == 'clirun':
                    import builtins
                    from valjean.cambronne import main
                    job = os.path.join(w.base, 'job.py')
                    if not os.path.exists(job):
                        with open(job, 'w') as f:
                            f.write(JOB)
                    builtins._verif_config_sink = w.sink
                    del w.sink[:]
                    main.main(['-c', w.newfile(toml_text(py, rng)), 'run', '-j', str(w.tok['J']), job])
                    objs.append(w.sink[0])
                else:
                    raise RuntimeError('kind %r' % kind)
                touched.append(len(objs))
            elif op == 'newbad':
                Config({'path': rng.choice(['x', 7, ['a']])})
            elif op == 'setsec':
                a[e['s']] = w.py_tab(e['m'])
            elif op == 'set':
                a.set(e['s'], KEYMAP.get(e['k'], e['k']), w.py(e['v']))
            elif op == 'setin':
                k, k2 = KEYMAP.get(e['k'], e['k']), KEYMAP.get(e['k2'], e['k2'])
                if rng.random() < 0.5:
                    a.query(e['s'], k)[k2] = w.py(e['v'])
                else:
                    a[e['s']][k][k2] = w.py(e['v'])
            elif op == 'del':
                del a[e['s']]
            elif op == 'get':
                k, k2 = KEYMAP.get(e['k'], e['k']), KEYMAP.get(e['k2'], e['k2'])
                if e['n'] == 1:
                    r = a[e['s']]
                    val = dict(t='node', v='', m=w.tab(r)) if isinstance(r, dict) else w.val(r)
                else:
                    r = a.query(e['s'], k) if rng.random() < 0.7 else a[e['s']][k]
                    val = w.val(r if e['n'] == 2 else r[k2])
            elif op == 'getdef':
                sentinel = object()
                r = a.get(e['s'], sentinel)
                b = e['s'] in a
                val = NONE if r is sentinel else dict(t='node', v='', m=w.tab(r))
            elif op == 'copy':
                objs.append(copy.deepcopy(a) if kind == 'deep' else copy.copy(a) if kind == 'shallow' else Config(a))
                touched.append(len(objs))
            elif op == 'update':
                py = w.py_tree(e['m'])
                snap = copy.deepcopy(py)
                a.update(py)
                argsame = py == snap
            elif op == 'eq':
                if kind == 'dict':
                    other = {s: a[s] for s in a}
                elif kind == 'reordered':           # the same content, inserted in the reverse order at both levels
                    other = copy.deepcopy(a)
                    for s in list(other)[::-1]:
                        tab = other[s]
                        del other[s]
                        other[s] = {k: tab[k] for k in list(tab)[::-1]} if isinstance(tab, dict) else tab
                else:
                    other = objs[e['b'] - 1]
                b = bool(a == other)
                if bool(a != other) == b:
                    exc = 'NeIsNotTheNegationOfEq'
            elif op == 'round':
                if kind == 'repr':
                    objs.append(eval(repr(a), {'Config': Config}))      # pylint: disable=eval-used
                else:
                    objs.append(Config.from_file(w.newfile(str(a))))
                touched.append(len(objs))
            elif op == 'consume':
                val = consume(w, a, e)
            else:
                raise RuntimeError('op %r' % op)
        except Exception as ex:  # pylint: disable=broad-except
            exc = _exc(ex)
        obs = dict(exc=exc, val=val, b=b, argsame=argsame, trees=[], lens=[], tv=[], rv=[])
        for c in objs:
            try:
                obs['trees'].append(w.tree({s: c[s] for s in c}))
                obs['lens'].append(len(c))
            except Exception as ex:  # pylint: disable=broad-except
                obs['trees'].append({'?' + _exc(ex): {}})
                obs['lens'].append(-1)
        import toml
        for i in sorted(set(touched)):
            if not 1 <= i <= len(objs):
                continue
            try:
                obs['tv'].append(dict(id=i, tree=w.tree(toml.loads(str(objs[i - 1])))))
            except Exception as ex:  # pylint: disable=broad-except
                obs['tv'].append(dict(id=i, tree={'?' + _exc(ex): {}}))
            if 'args' in obs['trees'][i - 1]:         # vars(args) of a real `valjean run` holds functions: no evaluable repr
                continue
            try:
                obs['rv'].append(dict(id=i, tree=w.tree(eval(repr(objs[i - 1]), {'Config': lambda d: d}))))     # pylint: disable=eval-used
            except Exception as ex:  # pylint: disable=broad-except
                obs['rv'].append(dict(id=i, tree={'?' + _exc(ex): {}}))
        obs['pure'] = before == [repr(c) for c in objs[:len(before)]]
        e['obs'] = obs
        out.append(e)
    return out


def consume(w, conf, e):
    """The value a real reader of the configuration ends up using."""
    from pathlib import Path
    kind, key = e['kind'], KEYMAP.get(e['k'], e['k'])
    if kind == 'run':
        from valjean.cosette.run import RunTask
        name = e['k2']
        env_up, _ = RunTask.from_clis(name, []).do(env={}, config=conf)
        return w.val(str(Path(env_up[name]['output_dir']).parent))
    if kind == 'pytask':
        from valjean.cosette.pythontask import PythonTask
        from valjean.cosette.task import TaskStatus
        got = []

        def read(*, config):
            got.append(config.query('path', key))
            return {}, TaskStatus.DONE
        PythonTask('t', read, config_kwarg='config').do(env={}, config=conf)
        return w.val(got[0])
    from valjean.cosette.code import CheckoutTask
    arg = None if e['v']['t'] == 'none' else w.py(e['v'])
    other = os.path.join(w.base, 'elsewhere')
    saved = CheckoutTask.GIT
    CheckoutTask.GIT = 'true'
    try:
        if e['k'] == 'log':
            task = CheckoutTask('t', repository=os.path.join(w.base, 'repo'), log_root=arg, checkout_root=other)
            env_up, _ = task.do(env={}, config=conf)
            return w.val(str(Path(env_up['t']['checkout_log']).parent))
        task = CheckoutTask('t', repository=os.path.join(w.base, 'repo'), log_root=other, checkout_root=arg)
        env_up, _ = task.do(env={}, config=conf)
        return w.val(str(Path(env_up['t']['output_dir']).parent))
    finally:
        CheckoutTask.GIT = saved


def run_path(w, events, rng):
    from pathlib import Path
    from valjean.path import ensure, sanitize_filename
    w.nfs += 1
    root = os.path.join(w.base, 'fs', str(w.nfs))
    os.makedirs(root)
    out = []
    for e in events:
        e = dict(e)
        exc, same = '', True
        try:
            if e['op'] == 'ensure':
                parts = [root] + list(e['p'])
                cut = rng.randint(1, len(parts))
                args = [os.path.join(*parts[:cut])] + ([os.path.join(*parts[cut:])] if cut < len(parts) else [])
                if rng.random() < 0.3:
                    args = [Path(x) for x in args]
                r = ensure(*args, is_dir=e['d'])
                if Path(r) != Path(*parts):
                    exc = 'ReturnsAnotherPath'
            else:
                name = ''.join(CHARS[c] for c in e['p'])
                same = sanitize_filename(name) == name
        except Exception as ex:  # pylint: disable=broad-except
            exc = _exc(ex)
        dirs, files = [], []
        for d, dn, fn in os.walk(root):
            rel = [] if d == root else os.path.relpath(d, root).split(os.sep)
            dirs += [rel + [x] for x in dn]
            files += [rel + [x] for x in fn]
        e['obs'] = dict(exc=exc, same=same, dirs=sorted(dirs), files=sorted(files))
        out.append(e)
    shutil.rmtree(root, ignore_errors=True)
    return out


# ------------------------------------------------------------------ TLC values -> events
def _plain(x):
    if isinstance(x, dict):
        return {str(k): _plain(v) for k, v in x.items()}
    if isinstance(x, tuple):
        return {} if not x else [_plain(v) for v in x]
    return x if isinstance(x, (bool, int)) else str(x)


def event_of(h):
    if h['op'] in ('ensure', 'sanitize'):
        return dict(op=str(h['op']), p=[str(c) for c in h['p']], d=bool(h['d']))
    e = _plain(h)
    e['m'] = e['m'] or {}
    return e


FROM_KINDS = ['dict', 'file', 'dictrev', 'cli']


def with_kinds(events, n):
    """`kind` of new / from / round is a variant of the binding, not of the model: rotate through them."""
    out = []
    for i, e in enumerate(events):
        e = dict(e)
        if e['op'] == 'from':
            e['kind'] = FROM_KINDS[(n + i) % 4]
        elif e['op'] == 'round':
            e['kind'] = ['toml', 'repr'][(n + i) % 2]
        elif e['op'] == 'new':
            e['kind'] = ['', 'none', 'cli'][(n + i) % 3]
        out.append(e)
    return out


def consts(ctx, **over):
    c = {'Keys': frozenset(['log', 'out', 'rep', 'k']), 'SetKeys': frozenset(['log', 'k']), 'Toks': frozenset(['x', 'y']),
         'StrToks': frozenset(['x']), 'MaxObjs': 2, 'MaxOps': 2, 'MaxPathOps': 2, 'Names': frozenset(['a', 'b']),
         'Chars': frozenset(CHARS), 'MaxName': 2, 'Big': False}
    c.update(over)
    return c


def judge(ctx, wd, traces, tag):
    """TLC (ConfigTrace.tla) judges recorded traces: list of failing (step, clause) per trace."""
    tj = os.path.join(wd, 'cf_%s.json' % tag)
    with open(tj, 'w') as f:
        f.write(json.dumps(traces))          # (json.dump streams through the slow pure-python encoder)
    oj = os.path.join(wd, 'cf_%s_out.json' % tag)
    cfg = tlc.write_cfg(os.path.join(wd, 'cf_%s.cfg' % tag), spec='TSpec',
                        constants=consts(ctx, Toks=frozenset(['x', 'y', 'z', 'w', 'J']), StrToks=frozenset(['x', 'z']), MaxObjs=4, MaxOps=0),
                        deadlock=False, postcondition='TPost')
    res = tlc.run(TRACE, cfg, workers=1, coverage=False, env=dict(VERIF_TRACES=tj, VERIF_OUT=oj), timeout=1500)
    ctx.tlc(res, 'ConfigTrace/' + tag)
    if not res.ok:
        raise tlc.MachineryError('ConfigTrace %s: %s\n%s' % (tag, res.violation, res.out[-1500:]))
    with open(oj) as f:
        out = json.load(f)
    for tr, r in zip(traces, out['reached']):
        if r != len(tr['events']) + 1:
            raise tlc.MachineryError('ConfigTrace did not consume a trace (%s of %s steps)' % (r - 1, len(tr['events'])))
    os.remove(tj)
    return [sorted((int(s), str(c)) for s, c in fl) for fl in out['failing']]


def short(e):
    if e['op'] in ('ensure', 'sanitize'):
        return '%s(%s%s)' % (e['op'], '/'.join(e['p']) if e['op'] == 'ensure' else repr(''.join(CHARS[c] for c in e['p'])),
                             ', is_dir=True' if e['d'] else '')

    def v(x):
        return x['v'] if x['t'] == 'leaf' else 'None' if x['t'] == 'none' else '{%s}' % ','.join('%s:%s' % (k, v(y)) for k, y in x['m'].items())

    def t(m):
        return '{%s}' % ','.join('%s:{%s}' % (s, ','.join('%s:%s' % (k, v(y)) for k, y in tab.items())) if isinstance(tab, dict) and
                                  not ('t' in tab and 'v' in tab) else '%s:%s' % (s, v(tab)) for s, tab in m.items())
    op, a = e['op'], 'c%d' % e['a']
    kd = e['kind']
    return {'new': lambda: 'Config()%s' % ('[%s]' % kd if kd else ''), 'from': lambda: 'Config[%s](%s)' % (kd, t(e['m'])),
            'newbad': lambda: "Config({'path': non-table})", 'setsec': lambda: '%s[%s]=%s' % (a, e['s'], t(e['m'])),
            'set': lambda: '%s.set(%s,%s,%s)' % (a, e['s'], e['k'], v(e['v'])),
            'setin': lambda: '%s.query(%s,%s)[%s]=%s' % (a, e['s'], e['k'], e['k2'], v(e['v'])),
            'del': lambda: 'del %s[%s]' % (a, e['s']), 'get': lambda: '%s.get%s' % (a, tuple([e['s'], e['k'], e['k2']][:e['n']])),
            'getdef': lambda: '%s.get(%s,default)' % (a, e['s']), 'copy': lambda: '%s-copy(%s)' % (kd, a),
            'update': lambda: '%s.update(%s)' % (a, t(e['m'])), 'eq': lambda: '%s==%s' % (a, '%s(%s)' % (kd, a) if kd else 'c%d' % e['b']),
            'round': lambda: '%s-roundtrip(%s)' % (kd, a),
            'consume': lambda: '%s[%s](%s,%s%s)' % (kd, e['k2'], a, e['k'], '' if e['v']['t'] == 'none' else ',arg=' + v(e['v']))}[op]()


class Notes:
    def __init__(self):
        self.obs = {}

    def add(self, tr, step, clause):
        e = tr['events'][step - 1]
        key = 'Config/%s/%s' % (clause, e['op'])
        if e.get('kind'):
            key += '/' + ('dict' if e['kind'] == 'dictrev' else e['kind'])
        if clause == 'state-other':
            prev = [x['kind'] for x in tr['events'][:step] if x['op'] == 'copy']
            key += '/after-%s-copy' % ('shallow' if 'shallow' in prev else prev[-1]) if prev else ''
        ex = dict(ops=[short(x) for x in tr['events'][:step]], observed={k: v for k, v in e['obs'].items() if k not in ('tv', 'rv', 'lens') or clause.endswith('view') or clause == 'len'})
        cur = self.obs.get(key)
        if cur is None:
            self.obs[key] = dict(count=1, example=ex)
        else:
            cur['count'] += 1
            if (len(ex['ops']), len(json.dumps(ex))) < (len(cur['example']['ops']), len(json.dumps(cur['example']))):
                cur['example'] = ex


def first_failures(failing):
    """The model goes on from ITS state after a disagreement: only the first failing step of a trace is meaningful."""
    if not failing:
        return []
    s0 = failing[0][0]
    return [(s, c) for s, c in failing if s == s0]


def corrupt(tr, rng):
    """Negative self-test: one recorded field of a conforming trace is changed."""
    tr = copy.deepcopy(tr)
    e = rng.choice(tr['events'])
    o = e['obs']
    if tr['kind'] == 'path':
        if e['op'] == 'ensure' and not o['exc']:
            o['files'] = o['files'] + [['zz']]
        else:
            o['exc'] = 'ValueError' if not o['exc'] else ''
        return tr
    how = rng.randint(0, 3)
    if how == 0:
        o['exc'] = 'KeyError' if o['exc'] != 'KeyError' else ''
    elif how == 1:
        o['trees'][0] = dict(o['trees'][0], extra={})
    elif how == 2:
        t0 = copy.deepcopy(o['trees'][-1])
        t0.setdefault('path', {})['out'] = leaf('w')
        o['trees'][-1] = t0
    else:
        o['argsame'] = False
    return tr


# ------------------------------------------------------------------ random histories (code -> spec)
def random_conf(rng, length):
    secs, keys, toks = ['path', 's', 'u v'], ['log', 'out', 'rep', 'k', 'j'], ['x', 'y', 'z', 'w']
    strs = ['x', 'z']

    def rleaf():
        return leaf(rng.choice(toks))

    def rval():
        return rleaf() if rng.random() < 0.75 else dict(t='node', v='', m={k: rleaf() for k in rng.sample(keys, rng.randint(0, 2))})

    def rtab():
        return {k: rval() for k in rng.sample(keys, rng.randint(0, 3))}

    def rtree():
        return {s: rtab() for s in rng.sample(secs, rng.randint(0, 3))}
    n, alias = 1, [False]
    evs = []

    def ev(op, a=0, b=0, s='', k='', k2='', nn=0, v=NONE, m=None, kind=''):
        evs.append(dict(op=op, a=a, b=b, s=s, k=k, k2=k2, n=nn, v=v, m=m or {}, kind=kind))
    for _ in range(length):
        a = rng.randint(1, n)
        r = rng.random()
        if r < 0.12 and n < 4:
            if rng.random() < 0.2:
                ev('new', kind=rng.choice(['', 'none', 'cli']))
            else:
                ev('from', m=rtree(), kind=rng.choice(FROM_KINDS))
            n += 1
            alias.append(False)
        elif r < 0.14:
            ev('newbad')
        elif r < 0.24 and n < 4:
            kd = rng.choice(['deep', 'deep', 'shallow', 'ctor'])
            ev('copy', a=a, kind=kd)
            n += 1
            alias.append(kd != 'deep')
            if kd != 'deep':
                alias[a - 1] = True
        elif r < 0.28 and n < 4:
            ev('round', a=a, kind=rng.choice(['toml', 'repr']))
            n += 1
            alias.append(False)
        elif r < 0.38:
            ev('setsec', a=a, s=rng.choice(secs), nn=1, m=rtab())
        elif r < 0.52:
            free = [i + 1 for i in range(n) if not alias[i]]
            if free:
                ev('set', a=rng.choice(free), s=rng.choice(secs), k=rng.choice(keys), nn=2, v=rval())
        elif r < 0.58:
            free = [i + 1 for i in range(n) if not alias[i]]
            if free:
                ev('setin', a=rng.choice(free), s=rng.choice(secs), k=rng.choice(keys), k2=rng.choice(keys), nn=3, v=rleaf())
        elif r < 0.62:
            ev('del', a=a, s=rng.choice(secs))
        elif r < 0.74:
            nn = rng.randint(1, 3)
            ev('get', a=a, s=rng.choice(secs), k=rng.choice(keys) if nn >= 2 else '', k2=rng.choice(keys) if nn == 3 else '', nn=nn)
        elif r < 0.77:
            ev('getdef', a=a, s=rng.choice(secs + ['nosuch']), nn=1)
        elif r < 0.82:
            ev('update', a=a, m=rtree())
        elif r < 0.90:
            if rng.random() < 0.3:
                ev('eq', a=a, kind=rng.choice(['dict', 'reordered']))
            else:
                ev('eq', a=a, b=rng.randint(1, n))
        else:
            kd = rng.choice(['run', 'run', 'pytask', 'pytask', 'checkout'])
            arg = leaf(rng.choice(strs)) if kd == 'checkout' and rng.random() < 0.5 else NONE
            ev('consume', a=a, s='path', k='out' if kd == 'run' else rng.choice(['log', 'out'] if kd == 'checkout' else ['log', 'out', 'rep']),
               k2=rng.choice(['t', 't', '..', 'a/b', '.', '']) if kd == 'run' else 't', nn=2, v=arg, kind=kd)
    return evs


def random_path(rng, length):
    evs = []
    for _ in range(length):
        if rng.random() < 0.75:
            evs.append(dict(op='ensure', p=[rng.choice(['a', 'b', 'c']) for _ in range(rng.randint(1, 3))], d=rng.random() < 0.5))
        else:
            evs.append(dict(op='sanitize', p=[rng.choice(['a', 'a', '.', '/', '0']) for _ in range(rng.randint(0, 4))], d=False))
    return evs


def norm_tree(t):
    """A tree of TLC's dump and a projected tree in one shape (TLC prints the empty function as <<>>)."""
    if isinstance(t, tuple):
        return {}
    return {str(k): norm_tree(v) if isinstance(v, (dict, tuple)) else (v if isinstance(v, bool) else str(v)) for k, v in t.items()}


# ------------------------------------------------------------------ the module
def run(ctx, wd):
    rng = ctx.rng
    notes = Notes()
    big = ctx.tier != 'quick'
    cs = consts(ctx, Big=big, SetKeys=frozenset(['log', 'k', 'out']) if big else frozenset(['log', 'k']))
    # 1. TLC enumerates every history (laws as invariants / action properties, witnesses, wrong variant rejected)
    wj = os.path.join(wd, 'config_wit.json')
    cfg = tlc.write_cfg(os.path.join(wd, 'config.cfg'), spec='WSpec', constants=cs,
                        invariants=['TypeOK', 'LawObjects', 'LawLayers', 'LawEnsure', 'WitnessProbe'],
                        properties=['LawSteps', 'LawEnsureSteps'], deadlock=False, postcondition='Post')
    dump = os.path.join(wd, 'config')
    res = tlc.run(SPEC, cfg, workers=1, dump=dump, env=dict(VERIF_OUT=wj), timeout=1500)
    # TLC prints `<From line .. of module Config (192 28 192 86)>: n:m` for an action under a quantifier: tlc.py only
    # reads the form without the parenthesis
    for m in re.finditer(r'^<(\w+) line \d+, col \d+ to line \d+, col \d+ of module Config \([\d ]+\)>: (\d+):(\d+)', res.out, re.M):
        cur = res.coverage.setdefault(m.group(1), [0, 0])
        cur[0] += int(m.group(2))
        cur[1] += int(m.group(3))
    ctx.tlc(res, 'Config/histories')
    if not res.ok:
        raise tlc.MachineryError('Config.tla: %s\n%s' % (res.violation, res.out[-1500:]))
    tlc.check_coverage(res, ACTIONS, 'Config')
    with open(wj) as f:
        wit = json.load(f)
    missing = [n for n, r in zip(wit['names'], wit['reached']) if not r]
    if missing or len(wit['names']) < 15:
        raise tlc.MachineryError('witnesses not reachable in Config.tla: %s' % missing)
    # 2. spec -> code: replay every maximal history; remember TLC's state after every prefix
    states = {}
    for st in tlc.read_dump(dump):
        hist = tuple(st['hist']) if not isinstance(st['hist'], tuple) else st['hist']
        states[hist] = st
    os.remove(dump + '.dump')
    maximal = [h for h in states if h and len(h) == (cs['MaxPathOps'] if h[0]['op'] in ('ensure', 'sanitize') else cs['MaxOps'])]
    maximal.sort(key=lambda h: json.dumps([event_of(x) for x in h], sort_keys=True))
    traces, origin = [], []
    with World(wd) as w:
        for n, h in enumerate(maximal):
            evs = [event_of(x) for x in h]
            if evs[0]['op'] in ('ensure', 'sanitize'):
                traces.append(dict(kind='path', events=run_path(w, evs, rng)))
            else:
                traces.append(dict(kind='conf', events=run_conf(w, with_kinds(evs, n), rng)))
            origin.append(h)
        nenum = len(traces)
        ctx.count(evaluations=sum(len(t['events']) for t in traces))
        # 3. code -> spec: random histories on the real class, the real parser, a real `valjean run`
        nrand = ctx.pick(250, 2500)
        for _ in range(nrand):
            traces.append(dict(kind='conf', events=run_conf(w, random_conf(rng, rng.randint(3, 10)), rng)))
        ncli = ctx.pick(6, 60)
        for _ in range(ncli):
            # (a `valjean run` makes directories of the roots: strings only there)
            m = {s: {k: leaf(rng.choice(['x', 'z'] if s == 'path' else ['x', 'z', 'y'])) for k in rng.sample(['log', 'out', 'rep', 'k'], rng.randint(0, 3))}
                 for s in rng.sample(['path', 's'], rng.randint(0, 2))}
            first = dict(op='from', a=0, b=0, s='', k='', k2='', n=0, v=NONE, m=m, kind='clirun')
            rest = [e for e in random_conf(rng, 4) if e['op'] in ('get', 'consume', 'eq', 'getdef') and e['a'] <= 2 and e['b'] <= 2
                    and e['kind'] != 'reordered']          # (vars(args) holds bound methods: a deep copy of them is another object)
            traces.append(dict(kind='conf', events=run_conf(w, [first] + rest, rng)))
        npath = ctx.pick(150, 1000)
        for _ in range(npath):
            traces.append(dict(kind='path', events=run_path(w, random_path(rng, rng.randint(2, 7)), rng)))
        ctx.count(evaluations=sum(len(t['events']) for t in traces[nenum:]))
    shutil.rmtree(os.path.join(wd, 'world'), ignore_errors=True)
    # 4. TLC judges everything (chunks).  Negative self-test in the same JVM start: copies of some traces with one recorded
    # field changed; the copy of every trace TLC accepts must be rejected
    picked = rng.sample(range(len(traces)), ctx.pick(60, 300))
    ntr = len(traces)
    allt = traces + [corrupt(traces[i], rng) for i in picked]
    failing = []
    step = 6000
    for k in range(0, len(allt), step):
        failing += judge(ctx, wd, allt[k:k + step], 'batch%d' % (k // step))
    pairs = [(i, failing[ntr + j]) for j, i in enumerate(picked) if not failing[i]]
    failing = failing[:ntr]
    if len(pairs) < 20:
        raise tlc.MachineryError('negative self-test: only %d conforming traces among the %d picked' % (len(pairs), len(picked)))
    for i, fl in pairs:
        if not fl:
            raise tlc.MachineryError('negative self-test: ConfigTrace accepted a corrupted copy of %s' % [short(e) for e in traces[i]['events']])
    ctx.count(traces=len(traces))
    for tr, fl in zip(traces, failing):
        if any(c == 'not-enabled' for _, c in fl):
            raise tlc.MachineryError('the generator produced an event the model does not take: %s' % [short(e) for e in tr['events']])
        for s, c in first_failures(fl):
            notes.add(tr, s, c)
    # cross-check of the two oracles: the state TLC dumped after every prefix of an enumerated history vs the replay, up
    # to the first step ConfigTrace rejects
    ncross = 0
    for tr, fl, h in zip(traces[:nenum], failing[:nenum], origin):
        if tr['kind'] != 'conf':
            continue
        for j, e in enumerate(tr['events'], 1):
            want = [norm_tree(o['tree']) for o in states[h[:j]]['objs']]
            got = e['obs']['trees']
            judged_ok = not any(s == j and c.startswith('state') for s, c in fl)
            if (want == got) != judged_ok:
                raise tlc.MachineryError('ConfigTrace and the dump of Config.tla disagree on %s: dump %s, replay %s, clauses %s'
                                         % ([short(x) for x in tr['events'][:j]], want, got, fl))
            ncross += 1
            if any(s == j for s, _ in fl):
                break
    good = [t for t, fl in zip(traces, failing) if not fl]
    kinds = {}
    for tr in traces:
        for e in tr['events']:
            k = e['op'] + ('/' + e['kind'] if e.get('kind') else '')
            kinds[k] = kinds.get(k, 0) + 1
    ctx.cov['config'] = dict(histories_enumerated=nenum, random_histories=nrand, cli_runs=ncli, random_path_histories=npath,
                             traces_judged=len(traces), conforming=len(good), states_cross_checked=ncross, corrupted_rejected=len(pairs),
                             witnesses=wit['names'], operations=dict(sorted(kinds.items())),
                             observations={k: v for k, v in sorted(notes.obs.items())})
    print_summary('Config', 'config', notes.obs, strip='Config/')
