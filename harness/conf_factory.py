"""C15 -- generated tasks correspond one-to-one to requests: binding of specs/Factory.tla (+ FactoryImpl.tla,
FactoryTrace.tla) to valjean.cosette.use.Use / using / Use.map, valjean.cosette.run.RunTaskFactory.make,
valjean.cambronne.common.collect_tasks / build_graphs (and their parts valjean.cosette.task.close_dependency_graph and
valjean.cambronne.common.check_unique_task_names).

A *world* is one process state: fresh function objects (f1, f2, f3 all named `f`; lam1..lam3 lambdas; g, h),
base tasks t1..t3, factories F1, F2 (both named `fac`) and G1, and a fresh copy of the module valjean.cosette.use
(new class objects, hence new class-level state whatever it is called -- no private name is touched).  A request is
executed by building the wrapper the way a job file does (stacked Use.from_func / using decorators, the
Use constructor, Use.map) or by factory.make; the projection of the answer is

    identity class of the returned task (0 = an exception), and what the task does when executed on a
    prepared environment: which function ran on which (task, key) values positionally / by keyword, or the
    command line and the factory it came from; depends_on and soft_depends_on.

spec -> code : every complete history TLC enumerates for Factory.tla (all pairs of requests over the small
               universe, incl. mapping over the first answer), simulated longer histories over a larger
               universe, and the counterexamples TLC finds for FactoryImpl.tla (the caches as coded) are
               executed from an emptied cache; every dumped closure case (graph x names x job set) is spelled as
               several job lists (order, the same task object two or three times) and goes, through a real job
               file and its arguments, into collect_tasks, build_graphs and the two parts called separately.
code -> spec : seeded random long histories (requests made after many others, in several construction
               styles), random dependency graphs of up to 6 tasks with random job lists, and jobs made of the
               tasks that the wrappers / factories of a random history produced (listed directly or reached
               through hard / soft dependencies of the job's own tasks); TLC judges the recorded events
               against FactoryTrace.tla.  Size boundaries: a few long histories per run in which requests of every
               kind are made, then 1 100 / 2 100 (thorough: / 5 000) distinct cheap filler requests of EACH kind (new
               functions in every construction style, maps, new argument lists on every factory; made, not executed;
               one `fill` event per block, which enters the history of FactoryTrace.tla request by request), then the
               identical requests again and later dependents of the first tasks (an earlier and a later dependent also
               as one job).  The same history without its fillers is judged beside it: only what fails with the
               fillers alone gets a key of its own (.../after-many-other-requests).
"""
import json
import zlib
import os
import shutil
import sys

import tlc
from tlc import Raw

SPEC = os.path.join(tlc.SPECS, 'Factory.tla')
IMPL = os.path.join(tlc.SPECS, 'FactoryImpl.tla')
TRACE = os.path.join(tlc.SPECS, 'FactoryTrace.tla')
HIST_INVS = ['C15_Same', 'C15_Inj', 'C15_Acts', 'C15_ErrorOK']
FUNC_NAMES = {'f1': 'f', 'f2': 'f', 'f3': 'f', 'lam1': '<lambda>', 'lam2': '<lambda>', 'lam3': '<lambda>', 'g': 'g', 'h': 'h'}
FAC_NAMES = {'F1': 'fac', 'F2': 'fac', 'G1': 'gac', 'H1': 'hac'}
# a factory that carries dependencies of its own (as RunTaskFactory.from_task does): every task it makes depends on them
# in addition to the dependencies given to make(); requests on it list the union, the real call passes only the rest
FAC_OWN = {'H1': (['t3'], ['t2'])}
KEYS = ['result', 'other']


def _scratch(prefix):
    import tempfile
    if os.path.isdir('/dev/shm') and os.access('/dev/shm', os.W_OK):
        d = tempfile.mkdtemp(prefix='verif-%s-' % prefix, dir='/dev/shm')
        tlc._WORK.append(d)      # pylint: disable=protected-access
        return d
    return tlc.workdir(prefix)


# ---------------------------------------------------------------------------------------------
# the real world

def _make_named(fid, name):
    def f(*args, **kwargs):
        return (fid, args, kwargs)
    f.__name__ = name
    f.__qualname__ = name
    return f


_USE_SRC = None      # (module spec, code object) of valjean.cosette.use; False = cannot be re-executed


def _clear_class_state(cls):
    """Fallback isolation: empty every class-level dict / set of cls (whatever its name)."""
    for klass in getattr(cls, '__mro__', ()):
        if klass is object:
            continue
        for val in list(vars(klass).values()):
            if isinstance(val, (dict, set)):
                try:
                    val.clear()
                except Exception:  # pylint: disable=broad-except
                    pass


def fresh_use_module():
    """The wrappers of a new process: a fresh execution of the module valjean.cosette.use (new Use / UseRun classes with
    new class-level state, new module-level state), not registered in sys.modules so that nothing else is disturbed.
    If the module cannot be re-executed, the registered module with every class-level dict / set of Use emptied.
    check_isolation() verifies that the result really behaves like a new process."""
    global _USE_SRC      # pylint: disable=global-statement
    import importlib.util
    if _USE_SRC is None:
        try:
            spec = importlib.util.find_spec('valjean.cosette.use')
            _USE_SRC = (spec, spec.loader.get_code(spec.name))
        except Exception:  # pylint: disable=broad-except
            _USE_SRC = False
    if _USE_SRC:
        try:
            spec, code = _USE_SRC
            mod = importlib.util.module_from_spec(spec)
            exec(code, mod.__dict__)      # pylint: disable=exec-used
            if hasattr(mod, 'Use') and hasattr(mod, 'using'):
                return mod
        except Exception:  # pylint: disable=broad-except
            pass
        _USE_SRC = False
    import valjean.cosette.use as registered
    _clear_class_state(registered.Use)
    return registered


def check_isolation():
    """Two worlds must not share generated tasks (else the histories are not `from a new process`)."""
    reqs = [dict(kind='use', func='f1', pos=[dict(task='t1', key='result')], kw=[], soft=soft, fac='-', name='-', args=[], deps=[], sdeps=[])
            for soft in (False, True)]
    reqs.append(dict(kind='make', func='-', pos=[], kw=[], soft=False, fac='F1', name='n1', args=['a'], deps=[], sdeps=[]))
    first = World()
    answers = [first.request(req)[0] for req in reqs]
    second = World()                  # (a new world begins when the previous one has made its requests)
    for req, a in zip(reqs, answers):
        b = second.request(req)[0]
        if a and b and first.tasks[a - 1] is second.tasks[b - 1]:
            raise tlc.MachineryError('cannot obtain a fresh process state: two worlds share the task of %s' % (req,))


class World:
    _ROOT = None

    def __init__(self):
        self.partial = {}
        self.use_mod = fresh_use_module()
        Use = self.use_mod.Use
        from valjean.cosette.run import RunTaskFactory
        from valjean.cosette.pythontask import PythonTask
        from valjean.cosette.task import TaskStatus
        from valjean.config import Config
        self.Use = Use
        self.funcs = {}
        for fid, name in FUNC_NAMES.items():
            if name == '<lambda>':
                self.funcs[fid] = (lambda fid_: (lambda *a, **k: (fid_, a, k)))(fid)
            else:
                self.funcs[fid] = _make_named(fid, name)
        self.bases = {}
        for b in ('t1', 't2', 't3'):
            self.bases[b] = PythonTask(b, (lambda b_: (lambda: ({b_: {'result': b_}}, TaskStatus.DONE)))(b))
        self.facs = {F: RunTaskFactory.from_executable('echo', name=FAC_NAMES[F], default_args=[F],
                                                       **({'deps': [self.bases[t] for t in FAC_OWN[F][0]],
                                                           'soft_deps': [self.bases[t] for t in FAC_OWN[F][1]]} if F in FAC_OWN else {}))
                     for F in FAC_NAMES}
        self.tasks = []          # identity classes: class k = self.tasks[k - 1]
        self._index = {}         # id(task) -> class
        self.creator = {}        # class -> the request it was first returned for
        self.uses = {}           # class -> the Use object that generated it (for Use.map)
        self.obs_cache = {}
        self.control = 0         # trace id of the same history without its filler requests
        self.cstep = {}          # event index -> event index in the control history
        self.pairs = []          # (earlier dependent, later dependent) of one task: a job for collect
        if World._ROOT is None or World._ROOT[0] != os.getpid():
            # one scratch root per check process (created by the parent, removed by tlc.cleanup()); pool workers get a
            # sub-directory of it so that nothing is left behind when they are terminated
            parent = os.environ.get('VERIF_C15_ROOT')
            if parent and os.path.isdir(parent):
                sub = os.path.join(parent, 'w%d' % os.getpid())
                os.makedirs(sub, exist_ok=True)
                World._ROOT = (os.getpid(), sub)
            else:
                World._ROOT = (os.getpid(), _scratch('c15'))
                os.environ['VERIF_C15_ROOT'] = World._ROOT[1]
        root = World._ROOT[1]
        self.config = Config({'path': {'output-root': os.path.join(root, 'out'), 'log-root': os.path.join(root, 'log'),
                                       'report-root': os.path.join(root, 'rep')}})
        self.events = []

    # -- helpers -------------------------------------------------------------------------
    def _obj(self, tag):
        if tag in self.bases:
            return self.bases[tag]
        if tag.startswith('#'):
            return self.tasks[int(tag[1:]) - 1]
        raise KeyError(tag)

    def _tag(self, obj):
        for tag, t in self.bases.items():
            if t is obj:
                return tag
        for k, t in enumerate(self.tasks, 1):
            if t is obj:
                return '#%d' % k
        return '?'

    def _class_of(self, task):
        # (the tasks are kept alive in self.tasks, so id() identifies them)
        k = self._index.get(id(task))
        if k is not None and self.tasks[k - 1] is task:
            return k
        self.tasks.append(task)
        self._index[id(task)] = len(self.tasks)
        return len(self.tasks)

    def _func(self, fid):
        """The function object of a request: one of FUNC_NAMES, or the function of filler request <x> (`fill<x>`, named so)."""
        if fid not in self.funcs and fid.startswith('fill') and fid[4:].isdigit():
            self.funcs[fid] = _make_named(fid, fid)
        return self.funcs[fid]

    # -- requests ------------------------------------------------------------------------
    def build_use(self, req, style):
        """The wrapper object for a use request.  pos is in CALL order; stacked decorators provide the
        positional arguments from the outside in, i.e. the last wrapper applied gives the first argument."""
        Use, using = self.use_mod.Use, self.use_mod.using
        func = self._func(req['func'])
        deps_type = 'soft' if req['soft'] else 'hard'
        pos = [(self._obj(p['task']), p['key']) for p in req['pos']]
        kws = [(x['kw'], self._obj(x['task']), x['key']) for x in sorted(req['kw'], key=lambda x: x['kw'])]
        if style == 'ctor':
            return Use(inj_args=list(reversed(pos)), inj_kwargs={k: (t, key) for k, t, key in kws}, wrapped=func, deps_type=deps_type)
        if style == 'map' and len(pos) == 1 and not kws and not req['soft'] and pos[0][1] == 'result':
            k = next((c for c, t in enumerate(self.tasks, 1) if t is pos[0][0]), None)
            if k in self.uses:
                return self.uses[k].map(func)
        cur = func
        steps = [('kw', x) for x in kws] + [('pos', p) for p in reversed(pos)]
        if style == 'kwlast':
            steps = [('pos', p) for p in reversed(pos)] + [('kw', x) for x in kws]
        if style == 'branch':
            steps = [('pos', p) for p in reversed(pos)] + [('kw', x) for x in kws]
        prefix = (req['func'], deps_type)
        for how, item in steps:
            if how == 'pos':
                task, key = item
                kwarg = None
            else:
                kwarg, task, key = item
            prefix = prefix + ((how, kwarg, self._tag(task), key),)
            if style == 'branch' and prefix in self.partial:
                # specialise a wrapper object that was already decorated before (one base, several branches)
                cur = self.partial[prefix]
            elif style == 'using' and not req['soft']:
                cur = using(task=task, key=key, kwarg=kwarg)(cur)
            else:
                cur = Use.from_func(func=cur, task=task, key=key, kwarg=kwarg, deps_type=deps_type)
            if style == 'branch':
                self.partial.setdefault(prefix, cur)
        return cur

    def request(self, req, style='stack'):
        """Execute one request; returns (class id or 0, exception name)."""
        try:
            if req['kind'] == 'use':
                use = self.build_use(req, style)
                task = use.get_task()
            else:
                use = None
                fac = self.facs[req['fac']]
                own_h, own_s = FAC_OWN.get(req['fac'], ([], []))
                task = fac.make(name=None if req['name'] == '-' else req['name'], extra_args=list(req['args']),
                                deps=[self._obj(t) for t in req['deps'] if t not in own_h],
                                soft_deps=[self._obj(t) for t in req['sdeps'] if t not in own_s])
        except Exception as ex:  # pylint: disable=broad-except
            return 0, type(ex).__name__
        k = self._class_of(task)
        if k not in self.creator:
            self.creator[k] = req
            if use is not None:
                self.uses[k] = use
        return k, ''

    def observe(self, k):
        """What task class k does when executed (cached: a task is executed once)."""
        if k in self.obs_cache:
            return self.obs_cache[k]
        from valjean.cosette.env import Env
        task = self.tasks[k - 1]
        env = Env()
        for tag in list(self.bases) + ['#%d' % c for c in range(1, len(self.tasks) + 1)]:
            obj = self._obj(tag)
            if obj.name not in env:
                env[obj.name] = {key: '%s|%s' % (tag, key) for key in KEYS}
        obs = dict(kind='raise', func='-', pos=[], kw=[], fac='-', args=[],
                   hard=sorted(self._tag(d) for d in task.depends_on), soft=sorted(self._tag(d) for d in task.soft_depends_on))
        try:
            env_up, _status = task.do(env, self.config)
            entry = env_up[task.name]
            if 'clis' in entry:
                cli = entry['clis'][0]
                obs.update(kind='make', fac=cli[1] if len(cli) > 1 else '?', args=list(cli[2:]))
            else:
                fid, args, kwargs = entry['result']

                def split(v):
                    tag, _sep, key = str(v).partition('|')
                    return tag, key
                obs.update(kind='use', func=fid, pos=[dict(task=split(a)[0], key=split(a)[1]) for a in args],
                           kw=[dict(kw=kw, task=split(v)[0], key=split(v)[1]) for kw, v in sorted(kwargs.items())])
        except Exception as ex:  # pylint: disable=broad-except
            obs['func'] = type(ex).__name__
        self.obs_cache[k] = obs
        return obs

    def fill(self, n, templates, styles, start):
        """n filler requests x = start .. start + n - 1 (see filler_request), made but not executed: one event."""
        resps = []
        for x in range(start, start + n):
            resps.append(self.request(filler_request(templates[x % len(templates)], x), styles[x % len(templates)])[0])
        ev = dict(op='fill', n=n, start=start, templates=templates, styles=list(styles), resps=resps)
        self.events.append(ev)
        return ev

    def flat(self, upto=None):
        """(event index, request, answer) of every request made, the fillers one by one."""
        for i, ev in enumerate(self.events[:upto]):
            if ev['op'] == 'fill':
                for k, resp in enumerate(ev['resps']):
                    yield i, filler_request(ev['templates'][(ev['start'] + k) % len(ev['templates'])], ev['start'] + k), resp
            else:
                yield i, ev['req'], ev['resp']

    def step(self, req, style='stack'):
        resp, exc = self.request(req, style)
        obs = self.observe(resp) if resp else dict(kind='none', func='-', pos=[], kw=[], fac='-', args=[], hard=[], soft=[])
        ev = dict(op='req', req=req, resp=resp, obs=obs, exc=exc, style=style)
        self.events.append(ev)
        return ev


# ---------------------------------------------------------------------------------------------
# requests: TLC value <-> python

def req_of_tla(r):
    return dict(kind=r['kind'], func=r['func'], pos=[dict(task=p['task'], key=p['key']) for p in r['pos']],
                kw=sorted((dict(kw=x['kw'], task=x['task'], key=x['key']) for x in r['kw']), key=lambda x: x['kw']),
                soft=bool(r['soft']), fac=r['fac'], name=r['name'], args=list(r['args']),
                deps=sorted(r['deps']), sdeps=sorted(r['sdeps']))


def meaning_of_tla(m):
    return dict(kind=m['kind'], func=m['func'], pos=[dict(task=p['task'], key=p['key']) for p in m['pos']],
                kw=sorted((dict(kw=x['kw'], task=x['task'], key=x['key']) for x in m['kw']), key=lambda x: x['kw']),
                fac=m['fac'], args=list(m['args']), hard=sorted(m['hard']), soft=sorted(m['soft']))


def filler_request(template, x):
    """Filler request number x: the template with the function `fill<x>` (use) / the additional last argument `fill<x>` (make):
    a request that nothing else makes (FactoryTrace.tla: FillReq)."""
    req = json.loads(json.dumps(template))
    if req['kind'] == 'use':
        req['func'] = 'fill%d' % x
    else:
        req['args'] = list(req['args']) + ['fill%d' % x]
    return req


def case_requests(evs):
    """The requests / construction styles of recorded events as stored in a replay case (a block of fillers is one entry)."""
    return [dict(kind='fill', n=e['n'], start=e['start'], templates=e['templates']) if e['op'] == 'fill' else e['req'] for e in evs]


def case_styles(evs):
    return [e['styles'] if e['op'] == 'fill' else e['style'] for e in evs]


def run_case_requests(world, case):
    for req, style in zip(case['requests'], case.get('styles') or ['stack'] * len(case['requests'])):
        if req['kind'] == 'fill':
            world.fill(req['n'], req['templates'], style if isinstance(style, list) else [style] * len(req['templates']), req['start'])
        else:
            world.step(req, style)


def same_request(a, b):
    return json.dumps(a, sort_keys=True) == json.dumps(b, sort_keys=True)


def conflict_key(req, other):
    """Finding class of `req was answered with the task generated for the different request other`:
    the first parameter (in this order) in which the two requests differ."""
    if req['kind'] != other['kind']:
        return 'C15/shared-task/%s-and-%s' % (other['kind'], req['kind'])
    if req['kind'] == 'use':
        if req['func'] != other['func']:
            if req['func'] not in FUNC_NAMES or other['func'] not in FUNC_NAMES:       # (a filler function: its name is its own)
                return 'C15/use/shared-task/other-function'
            both_lambda = FUNC_NAMES.get(req['func']) == '<lambda>' and FUNC_NAMES.get(other['func']) == '<lambda>'
            return 'C15/use/cache-by-name/' + ('other-lambda' if both_lambda else 'other-function-same-name')
        inj = lambda r: sorted([(p['task'], p['key'], 'pos') for p in r['pos']] + [(x['task'], x['key'], 'kw:' + x['kw']) for x in r['kw']])
        a, b = inj(req), inj(other)
        if sorted(set(x[0] for x in a)) != sorted(set(x[0] for x in b)):
            return 'C15/use/cache-by-name/other-injected-task' + ('-soft' if req['soft'] and other['soft'] else '')
        if sorted((x[0], x[1]) for x in a) != sorted((x[0], x[1]) for x in b):
            return 'C15/use/cache-by-name/other-key'
        if a != b:
            return 'C15/use/cache-by-name/positional-vs-keyword'
        if req['pos'] != other['pos']:
            return 'C15/use/cache-by-name/other-argument-order'
        if req['soft'] != other['soft']:
            return 'C15/use/cache-by-name/other-dependency-type'
        return 'C15/use/cache-by-name/identical?'
    if req['fac'] != other['fac']:
        return 'C15/make/shared-between-factories'
    named = 'same-name' if req['name'] != '-' else 'no-name'
    if req['args'] != other['args']:
        return 'C15/make/cache-by-name/%s-other-args' % named
    if req['deps'] != other['deps']:
        return 'C15/make/cache-by-name/other-deps'
    if req['sdeps'] != other['sdeps']:
        return 'C15/make/cache-by-name/other-soft-deps'
    return 'C15/make/cache-by-name/identical?'


def acts_key(req, obs, exp):
    return 'C15/%s/new-task-does-not-act-as-requested' % req['kind']


def classify(world, idx, clauses, exp_meaning=None):
    """Key and description for failing clauses at event idx of world.events."""
    ev = world.events[idx]
    if ev['op'] == 'fill':
        return classify_fill(world, idx, clauses)
    req, resp = ev['req'], ev['resp']
    if resp and not same_request(world.creator[resp], req):
        other = world.creator[resp]
        return conflict_key(req, other), ('request %s was silently answered with the task %r generated for the different request %s; '
                                          'the task does %s' % (req, world.tasks[resp - 1].name, other, ev['obs']))
    if resp and 'Inj' in clauses:
        # the task is the right one for this request, but a different request was answered with it earlier
        for _j, ereq, eresp in world.flat(idx):
            if eresp == resp and not same_request(ereq, req):
                return conflict_key(ereq, req), ('request %s had silently been answered with the task %r generated for the different '
                                                 'request %s' % (ereq, world.tasks[resp - 1].name, req))
    if 'Same' in clauses:
        return 'C15/%s/identical-requests-different-tasks' % req['kind'], 'request %s repeated: answer %s (%s)' % (req, resp, ev['exc'])
    if 'ErrorOK' in clauses:
        return 'C15/%s/error-on-first-request' % req['kind'], 'request %s raised %s although nothing different was asked before' % (req, ev['exc'])
    exp = exp_meaning or {}
    diff = [f for f in ('kind', 'func', 'pos', 'kw', 'fac', 'args', 'hard', 'soft') if exp and ev['obs'].get(f) != exp.get(f)]
    return acts_key(req, ev['obs'], exp), 'request %s: the new task does %s%s' % (req, ev['obs'], ' (differs in %s)' % diff if diff else '')


def classify_fill(world, idx, clauses):
    """Key and description for a block of filler requests that TLC rejects: the first filler answered with a task that
    answered another request (a label: the verdict is TLC's)."""
    seen = {}
    for j, req, resp in world.flat(idx + 1):
        if resp and resp in seen and not same_request(seen[resp], req):
            if j == idx:
                return conflict_key(req, seen[resp]), ('filler request %s (one of %d distinct requests made in a row) was silently answered with '
                                                       'the task %r generated for the different request %s'
                                                       % (req, world.events[idx]['n'], world.tasks[resp - 1].name, seen[resp]))
        elif resp:
            seen.setdefault(resp, req)
        elif j == idx and 'ErrorOK' in clauses:
            return 'C15/%s/error-on-first-request' % req['kind'], 'request %s raised an exception although nothing different was asked before' % (req,)
    return 'C15/fill/%s' % '+'.join(sorted(clauses)), 'a block of %d distinct filler requests: clauses %s false' % (world.events[idx]['n'], sorted(clauses))


# ---------------------------------------------------------------------------------------------
# collect

COLLECT_VIAS = ('collect_tasks', 'build_graphs', 'parts')
JOB_TASKS = {}       # token -> the task objects prepared for the job file (read by the job file through sys.modules)
MAX_COLLECT = 10     # tasks per collect event (NTasks of FactoryTrace.tla)

_JOB_SOURCE = '''"""Job file written by the C15 harness (conf_factory.py).

job() returns the tasks that the harness prepared under `token`, in the order and with the multiplicity given by `sel`
(comma-separated positions), the way a job returns a list of task objects."""
import sys


def job(token, sel, *, harness):
    tasks = sys.modules[harness].JOB_TASKS[token]
    return [tasks[int(i)] for i in sel.split(',') if i]
'''


class Collector:
    """Sends lists of real tasks through a real job file into valjean.cambronne.common."""

    def __init__(self, root=None):
        root = root or _scratch('c15job')
        self.dir = os.path.join(root, 'job%d' % os.getpid())
        os.makedirs(self.dir, exist_ok=True)
        self.stem = 'c15job_%d_%d' % (os.getpid(), id(self) % 100000)
        self.file = os.path.join(self.dir, self.stem + '.py')
        with open(self.file, 'w', encoding='utf-8') as f:
            f.write(_JOB_SOURCE)
        self._path = list(sys.path)
        self._dont = sys.dont_write_bytecode
        sys.dont_write_bytecode = True
        self.calls = 0

    def close(self):
        sys.modules.pop(self.stem, None)
        sys.path[:] = [x for x in sys.path if x in self._path]
        for k in [k for k in sys.path_importer_cache if k.startswith(self.dir)]:
            del sys.path_importer_cache[k]
        sys.dont_write_bytecode = self._dont

    def selfcheck(self):
        """The entry points can be driven the way this harness drives them: a job of one task without dependencies does not
        die of a TypeError / AttributeError / ... (a wrong answer is left to the normal comparison with TLC)."""
        for via in COLLECT_VIAS:
            obs = self.collect(graph_tasks(dict(ntasks=1, names=['a'], rel=[])), [1], via)
            if obs['exc']:
                raise tlc.MachineryError('cannot drive valjean.cambronne.common through %s with a job of one task: %s' % (via, obs['exc']))

    def collect(self, objs, job, via):
        """objs: {index: task}; job: list of indices (repetitions allowed); via: which entry of valjean is used.
        Observation: rejected (an exception instead of tasks), returned (a list of tasks came back) and its
        projection collected (indices; 0 = an object that is none of objs)."""
        import argparse
        from valjean.cambronne import common
        from valjean.cosette.task import close_dependency_graph
        self.calls += 1
        index = lambda g: next((i for i, t in objs.items() if t is g), 0)
        obs = dict(collected=[], rejected=False, returned=False, exc='')
        token = 'k%d' % self.calls
        JOB_TASKS[token] = objs
        job_args, job_kwargs = [token, ','.join(str(j) for j in job)], {'harness': __name__}
        try:
            if via == 'parts':
                try:
                    got = close_dependency_graph([objs[j] for j in job])
                    obs.update(returned=True, collected=sorted(index(g) for g in got))
                except Exception as ex:  # pylint: disable=broad-except
                    obs.update(returned=True, collected=[0], exc='close_dependency_graph raised %s' % type(ex).__name__)
                    return obs
                try:
                    common.check_unique_task_names(got)
                except Exception as ex:  # pylint: disable=broad-except
                    obs['rejected'] = True
                    if not isinstance(ex, ValueError):
                        obs['exc'] = 'check_unique_task_names raised %s' % type(ex).__name__
                return obs
            try:
                if via == 'collect_tasks':
                    got = common.collect_tasks(self.file, job_args, job_kwargs)
                    obs.update(returned=True, collected=sorted(index(g) for g in got))
                else:
                    hard, soft = common.build_graphs(argparse.Namespace(job_file=self.file, job_args=job_args, job_kwargs=job_kwargs))
                    nodes = sorted(index(g) for g in hard.nodes())
                    if sorted(index(g) for g in soft.nodes()) != nodes:
                        nodes.append(0)          # the two graphs must be built on the same collected tasks
                    obs.update(returned=True, collected=nodes)
            except SystemExit as ex:
                raise tlc.MachineryError('the job file of the harness was not found by valjean (%s)' % (ex,))
            except Exception as ex:  # pylint: disable=broad-except
                obs['rejected'] = True
                if not isinstance(ex, ValueError):
                    obs['exc'] = '%s raised %s' % (via, type(ex).__name__)
            return obs
        finally:
            del JOB_TASKS[token]


def graph_tasks(case):
    """Real tasks for the graph of a collect case: ntasks, names, rel=[{i, j, how}] (j < i)."""
    from valjean.cosette.pythontask import PythonTask
    from valjean.cosette.task import TaskStatus
    tasks = {}
    for i in range(1, case['ntasks'] + 1):
        hard = [tasks[x['j']] for x in case['rel'] if x['i'] == i and x['how'] in ('hard', 'both')]
        soft = [tasks[x['j']] for x in case['rel'] if x['i'] == i and x['how'] in ('soft', 'both')]
        tasks[i] = PythonTask(case['names'][i - 1], (lambda: ({}, TaskStatus.DONE)), deps=hard or None, soft_deps=soft or None)
    return tasks


def graph_of(objs):
    """Projection of real task objects: (order, names, rel) with every dependency numbered before its dependents;
    order contains objs and every task they reach.  The names and dependencies are read off the objects."""
    order, num, busy = [], {}, set()

    def deps(t):
        return list(t.depends_on or ()), list(t.soft_depends_on or ())

    def visit(t):
        if id(t) in num:
            return
        if id(t) in busy:
            raise tlc.MachineryError('cyclic dependencies among the generated tasks')
        busy.add(id(t))
        hard, soft = deps(t)
        for d in hard + soft:
            visit(d)
        busy.discard(id(t))
        order.append(t)
        num[id(t)] = len(order)

    for t in objs:
        visit(t)
    rel = []
    for i, t in enumerate(order, 1):
        hard, soft = deps(t)
        hs, ss = set(num[id(d)] for d in hard), set(num[id(d)] for d in soft)
        for j in sorted(hs | ss):
            rel.append(dict(i=i, j=j, how='both' if j in hs and j in ss else 'hard' if j in hs else 'soft'))
    return order, [str(t.name) for t in order], rel


def world_collect(world, case):
    """A job made of the tasks of a world: case['job'] lists base tasks ('t1'), generated tasks ('#k') and the job's own
    tasks ('T1', ..: case['tops'][n-1] = dict(hard=[refs], soft=[refs]), named top<n>).  Returns the graph case (numbers,
    names and dependencies as observed on the real objects), the objects and the job as numbers."""
    from valjean.cosette.pythontask import PythonTask
    from valjean.cosette.task import TaskStatus
    tops = {}

    def ref(r):
        return tops[r] if r in tops else world._obj(r)      # pylint: disable=protected-access

    for n, top in enumerate(case['tops'], 1):
        tops['T%d' % n] = PythonTask('top%d' % n, (lambda: ({}, TaskStatus.DONE)), deps=[ref(r) for r in top['hard']] or None,
                                     soft_deps=[ref(r) for r in top['soft']] or None)
    # the universe: the base tasks, whatever the job and its own tasks name, and (graph_of) everything those depend on
    universe = ([world.bases[b] for b in sorted(world.bases)] + [ref(r) for top in case['tops'] for r in top['hard'] + top['soft']]
                + [ref(r) for r in case['job']])
    order, names, rel = graph_of(universe)
    objs = dict(enumerate(order, 1))
    job = [next(i for i, t in objs.items() if t is ref(r)) for r in case['job']]
    return dict(op='collect', ntasks=len(order), names=names, rel=rel, job=job, via=case['via']), objs, job


def random_world_job(rng, world):
    """A job over the tasks the wrappers / factories of `world` produced: some listed directly, some reached only through a
    hard or soft dependency of a task of the job itself; biased towards different tasks with one name."""
    tags = sorted(world.bases) + ['#%d' % k for k in range(1, len(world.tasks) + 1)]
    groups = {}
    for tag in tags:
        groups.setdefault(world._obj(tag).name, []).append(tag)       # pylint: disable=protected-access
    clashes = [g for g in groups.values() if len(g) > 1]
    chosen = []
    if clashes and rng.random() < 0.6:
        chosen = rng.sample(rng.choice(clashes), 2)
    for tag in rng.sample(tags, rng.randint(0 if chosen else 1, min(3, len(tags)))):
        if tag not in chosen:
            chosen.append(tag)
    tops, job = [], []
    for tag in chosen:
        how = rng.choice(['direct', 'direct', 'hard', 'soft'])
        if how == 'direct':
            job.append(tag)
        else:
            if tops and rng.random() < 0.3:
                tops[-1][how].append(tag)
            else:
                tops.append(dict(hard=[], soft=[]))
                tops[-1][how].append(tag)
                job.append('T%d' % len(tops))
    if rng.random() < 0.35:
        job.insert(rng.randint(0, len(job)), rng.choice(job))
    return dict(tops=tops, job=job, via=rng.choice(['collect_tasks', 'collect_tasks', 'build_graphs', 'parts']))


def job_spellings(job):
    """The lists a job() can return for the set of tasks `job` (sorted): order and repetitions of the same object."""
    job = list(job)
    return [('', job), ('/reversed', job[::-1]), ('/listed-twice', job + job[:1]), ('/listed-three-times', job[-1:] + job + job[-1:])]


def _closure(case):
    todo, seen = list(case['job']), set(case['job'])
    while todo:
        i = todo.pop()
        for x in case['rel']:
            if x['i'] == i and x['j'] not in seen:
                seen.add(x['j'])
                todo.append(x['j'])
    return seen


def collect_key(clauses, case=None, obs=None):
    """Finding class: the failing clauses, the entry point and (a label only, the verdict is TLC's) the shape of the job."""
    key = 'C15/collect/%s' % '+'.join(sorted(clauses))
    if not case or obs is None:
        return key
    key += '/' + case.get('via', 'parts')
    closure, listed = _closure(case), set(case['job'])
    name = lambda i: case['names'][i - 1]
    clash = [(i, j) for i in sorted(closure) for j in sorted(closure) if i < j and name(i) == name(j)]
    if 'Unique' in clauses:
        if obs['rejected'] and not clash:
            return key + ('/same-task-listed-several-times-rejected' if len(case['job']) > len(listed) else '/rejected-without-name-clash')
        if clash:
            where = set(len(listed & {i, j}) for i, j in clash)
            soft_only = all(x['how'] == 'soft' for x in case['rel'] if x['i'] in closure)
            return key + '/name-clash-accepted/' + ('both-listed' if 2 in where else 'one-listed-one-dependency' if 1 in where
                                                    else 'both-only-dependencies') + ('-soft' if soft_only and 2 not in where else '')
    if 'Closure' in clauses:
        got = list(obs['collected'])
        if len(got) > len(set(got)):
            return key + '/task-returned-twice'
        if set(got) < closure:
            missing = closure - set(got)
            how = set(x['how'] for x in case['rel'] if x['j'] in missing and x['i'] in closure)
            return key + '/dependency-missing' + ('-soft' if how == {'soft'} else '')
        return key + '/other-tasks-returned'
    return key


def observe_collect(case, collector=None):
    """case: ntasks, names, rel=[{i, j, how}], job (a list: repetitions allowed), via (default: the parts called separately)."""
    own = collector is None
    collector = collector or Collector()
    try:
        return collector.collect(graph_tasks(case), case['job'], case.get('via', 'parts'))
    finally:
        if own:
            collector.close()


# ---------------------------------------------------------------------------------------------
# TLC as the oracle for recorded events

def _json_event(tid, step, ev):
    if ev['op'] == 'req':
        return dict(op='req', tid=tid, step=step, req=ev['req'], resp=ev['resp'], obs=ev['obs'])
    if ev['op'] == 'fill':
        return dict(op='fill', tid=tid, step=step, n=ev['n'], start=ev['start'], templates=ev['templates'], resps=ev['resps'])
    if ev['op'] == 'collect':
        c = ev['case']
        return dict(op='collect', tid=tid, step=step, names=c['names'], rel=c['rel'], job=c['job'],
                    collected=ev['obs']['collected'], rejected=ev['obs']['rejected'], returned=ev['obs']['returned'])
    return dict(op='reset', tid=tid, step=step)


def tlc_verdict(traces, wd, ctx=None, name='FactoryTrace'):
    """traces: list of (tid, [events]).  Returns {(tid, step): [clauses]} as judged by TLC."""
    events = []
    for tid, evs in traces:
        if not (evs and evs[0]['op'] == 'collect'):          # (a collect event starts from nothing by itself)
            events.append(_json_event(tid, 0, dict(op='reset')))
        for step, ev in enumerate(evs, 1):
            events.append(_json_event(tid, step, ev))
    tag = name.replace('/', '_')
    ntasks = max([6] + [len(e['names']) for e in events if e['op'] == 'collect'])
    cj = tlc.json_dump(os.path.join(wd, 'events_%s.json' % tag), dict(events=events, ntasks=ntasks))
    oj = os.path.join(wd, 'verdict_%s.json' % tag)
    cfg = tlc.write_cfg(os.path.join(wd, 'trace_%s.cfg' % tag), spec='TSpec', invariants=['C15_Collect'], deadlock=False, postcondition='Post')
    res = tlc.run(TRACE, cfg, workers=1, coverage=False, env=dict(VERIF_CASES=cj, VERIF_OUT=oj), timeout=3000)
    if ctx is not None:
        ctx.tlc(res, name)
    if not res.ok or not os.path.exists(oj):
        raise tlc.MachineryError('FactoryTrace: %s\n%s' % (res.violation, res.out[-2500:]))
    with open(oj) as f:
        bad = json.load(f)['bad']
    verdict = {}
    for tid, step, clause in bad:
        verdict.setdefault((tid, step), []).append(clause)
    return verdict, len(events)


def replay_case(case):
    import core
    core.use_repo()
    wd = tlc.workdir('c15r')
    check_isolation()
    if case['op'] == 'collect':
        obs = observe_collect(case)
        verdict, _n = tlc_verdict([(1, [dict(op='collect', case=case, obs=obs)])], wd)
        if not verdict:
            return True, 'closure and name check (%s) as Factory.tla says: %s' % (case.get('via', 'parts'), obs)
        return False, 'clauses %s false: job %s of the tasks named %s with dependencies %s: observed %s' % (
            sorted(verdict[(1, 1)]), case['job'], case['names'], case['rel'], obs)
    world = World()
    run_case_requests(world, case)
    if case['op'] == 'collect-world':
        gcase, objs, job = world_collect(world, case)
        collector = Collector()
        try:
            obs = collector.collect(objs, job, case['via'])
        finally:
            collector.close()
        verdict, _n = tlc_verdict([(1, [dict(op='collect', case=gcase, obs=obs)])], wd)
        if not verdict:
            return True, 'closure and name check (%s) as Factory.tla says: %s' % (case['via'], obs)
        return False, 'clauses %s false: job %s (tops %s) after the requests; tasks named %s with dependencies %s, job %s: observed %s' % (
            sorted(verdict[(1, 1)]), case['job'], case['tops'], gcase['names'], gcase['rel'], job, obs)
    if case.get('reobserve'):
        first = dict(world.obs_cache)
        world.obs_cache = {}
        for k, obs in sorted(first.items()):
            if world.observe(k) != obs:
                return False, 'task of request %s did %s when created, does %s after the later requests' % (world.creator[k], obs, world.observe(k))
        return True, 'every task still does what it did when it was created'
    verdict, _n = tlc_verdict([(1, world.events)], wd)
    if not verdict:
        return True, 'all clauses of Factory.tla hold on the %d answers' % len(world.events)
    (tid, step), clauses = sorted(verdict.items())[0]
    if 'BlockMismatch' in clauses:
        raise tlc.MachineryError('FactoryTrace.tla: the block clauses and the step clauses disagree on the fillers of event %d' % step)
    key, what = classify(world, step - 1, clauses)
    return False, 'request %d: clauses %s false (%s): %s' % (step, sorted(clauses), key, what)


# ---------------------------------------------------------------------------------------------
# spec -> code

def _consts(*, funcs, bases, keys=('result', 'other'), kwnames=('x',), facs, usernames=('n1',), arglists='AL_Two',
            depsets=((), ('t1',), ('t2',)), sdepsets=((),), maxpos=1, mix=False, maxlen=2, allowmap=True, allowerror=False,
            ops=('hist',), ntasks=0, tasknames=(), relkinds=('none', 'hard', 'soft', 'both')):
    fs = lambda xs: frozenset(frozenset(x) for x in xs)
    return {'Funcs': frozenset(funcs), 'Bases': frozenset(bases), 'Keys': frozenset(keys), 'KwNames': frozenset(kwnames),
            'Facs': frozenset(facs), 'UserNames': frozenset(usernames), 'ArgLists': Raw('<- ' + arglists),
            'DepSets': fs(depsets), 'SDepSets': fs(sdepsets), 'MaxPos': maxpos, 'MixPosKw': mix, 'MaxLen': maxlen,
            'AllowMap': allowmap, 'AllowError': allowerror, 'Ops': frozenset(ops), 'NTasks': ntasks,
            'TaskNames': frozenset(tasknames), 'RelKinds': frozenset(relkinds)}


def plain_history(hist, behav):
    """TLC values -> plain (picklable) data."""
    return ([dict(req=req_of_tla(it['req']), resp=it['resp']) for it in hist], [meaning_of_tla(m) for m in behav])


def replay_history(arg):
    """Execute a TLC history [(req, resp)] from an emptied cache; compare with TLC's answers and behaviours.
    Returns dict(outcome='ok'|'cut'|'bad', requests=n, [key, what, case])."""
    hist, behav = arg
    world = World()
    style = 'branch' if zlib.crc32(repr(hist).encode()) % 2 else 'stack'
    real_of = {}       # spec identity -> real class

    def tr(tag):
        return '#%d' % real_of[int(tag[1:])] if tag.startswith('#') else tag

    for n, item in enumerate(hist):
        req = item['req']
        spec_resp = item['resp']
        # the injected generated tasks are named by their spec identity: translate to the real classes
        try:
            real_req = dict(req, pos=[dict(p, task=tr(p['task'])) for p in req['pos']], kw=[dict(x, task=tr(x['task'])) for x in req['kw']])
        except KeyError:
            return dict(outcome='cut', requests=n)      # refers to a task the real code never produced (an explicit error earlier)
        ev = world.step(real_req, style)
        resp = ev['resp']
        problems = []
        earlier_same = [j for j in range(n) if same_request(world.events[j]['req'], real_req) and world.events[j]['resp']]
        if resp and not same_request(world.creator[resp], real_req):
            problems = ['Inj', 'Acts']
        elif earlier_same and resp != world.events[earlier_same[0]]['resp']:
            problems = ['Same']
        elif resp == 0 and not any(not same_request(world.events[j]['req'], real_req) for j in range(n)):
            problems = ['ErrorOK']
        exp = None
        if not problems and resp and spec_resp:
            # TLC's behaviour of the task it answered with (identities translated)
            exp = behav[spec_resp - 1]
            exp = dict(exp, pos=[dict(p, task=tr(p['task'])) for p in exp['pos']], kw=[dict(x, task=tr(x['task'])) for x in exp['kw']],
                       hard=sorted(tr(t) for t in exp['hard']), soft=sorted(tr(t) for t in exp['soft']))
            if {k: ev['obs'][k] for k in exp} != exp:
                problems = ['Acts']
        if problems:
            key, what = classify(world, n, problems, exp)
            return dict(outcome='bad', requests=n + 1, key=key,
                        what='%s; Factory.tla: answer %s%s' % (what, spec_resp, ', doing %s' % exp if exp else ''),
                        case=dict(op='hist', requests=[e['req'] for e in world.events], styles=[e['style'] for e in world.events]))
        if spec_resp and resp:
            if spec_resp in real_of and real_of[spec_resp] != resp:
                return dict(outcome='machinery', requests=n + 1, what='identity bookkeeping broke on %s' % (hist,))
            real_of[spec_resp] = resp
        elif spec_resp and not resp:
            return dict(outcome='cut', requests=n + 1)   # a permitted explicit error where TLC chose a new task: identities diverge from here
    return dict(outcome='ok', requests=len(hist))


def replay_all(ctx, pool, items, stats, source):
    """items: iterable of (hist, behav) plain data."""
    for res in pool.imap(replay_history, items, chunksize=32):
        stats['requests'] += res['requests']
        if res['outcome'] == 'machinery':
            raise tlc.MachineryError(res['what'])
        if res['outcome'] == 'bad':
            ctx.violation(res['key'], '%s (history from %s)' % (res['what'], source), res['case'], module='conf_factory')
            stats['bad'] += 1
        elif res['outcome'] == 'cut':
            stats['cut'] += 1
        else:
            stats['histories'] += 1


def _impl_counterexample(ctx, wd, name, invariants, properties, stats):
    consts = _consts(funcs=['f1', 'f2', 'lam1', 'lam2'], bases=['t1', 't2'], facs=['F1', 'F2'], maxlen=2, allowerror=True)
    consts['ErrorOnConflict'] = False
    cfg = tlc.write_cfg(os.path.join(wd, name + '.cfg'), spec='ISpec', constants=consts, invariants=invariants, properties=properties, deadlock=False)
    res = tlc.run(IMPL, cfg, coverage=False, workers=4)
    ctx.tlc(res, 'FactoryImpl/as-coded/' + name)
    if res.violation is None or res.violation[0] not in ('invariant', 'property') or not res.trace:
        raise tlc.MachineryError('FactoryImpl.tla (caches keyed by name, as coded) does not violate %s: the negative self-test is void (%s)'
                                 % (invariants or properties, res.violation))
    last = [st for _lab, st in res.trace if st][-1]
    out = replay_history(plain_history(last['hist'], last['behav']))
    stats['requests'] += out['requests']
    if out['outcome'] == 'bad':
        stats['bad'] += 1
        ctx.violation(out['key'], '%s (TLC counterexample for FactoryImpl.tla / %s)' % (out['what'], name), out['case'], module='conf_factory')
    return out['outcome'] == 'bad'


def run_c15(ctx):
    os.environ['VERIF_C15_ROOT'] = _scratch('c15')
    ctx.rule('spec->code: every complete history of Factory.tla that TLC dumps (all pairs of requests over the universe of the '
             'configuration, the second possibly injecting / mapping over the task of the first), simulated longer histories over a '
             'larger universe, and the counterexamples of FactoryImpl.tla are executed on real Use / using / Use.map / '
             'RunTaskFactory.make objects from an emptied cache; answers are compared by identity class and by what the returned '
             'task does on a prepared environment; every closure case TLC dumps (graph x names x job set) is spelled as job lists '
             '(sorted, reversed, a task object listed twice / three times) that a real job file returns from its arguments, and goes '
             'through valjean.cambronne.common.collect_tasks, build_graphs and close_dependency_graph + check_unique_task_names. '
             'code->spec: seeded random long histories, random graphs with random job lists, and jobs over the tasks the wrappers / '
             'factories of each history produced (listed or reached through hard / soft dependencies of the job\'s own tasks), '
             'judged by TLC (FactoryTrace.tla); long histories in which every kind of request is repeated (and gets later dependents) '
             'after 1100 / 2100 / (thorough) 5000 distinct filler requests of each kind, and short filler blocks inside random histories. distinct_nontrivial counts distinct histories with at least two different requests, and '
             'collections (graph, names, job list) with a dependency reached only transitively or a duplicated name.')
    ctx.assume('separately created wrappers with identical parameters are identical requests; different factory objects are '
               'different requests; serialize is not varied; positional arguments are compared in call order (the documented '
               'outside-in order of stacked decorators)')
    ctx.assume('a fresh process state is obtained by executing the module valjean.cosette.use again (new classes, new '
               'class-level caches) and creating new factories; checked: two worlds never share a generated task')
    import time
    t0 = time.time()
    dbg = (lambda m: print('  [c15 %.1fs] %s' % (time.time() - t0, m))) if os.environ.get('VERIF_DEBUG') else (lambda m: None)
    wd = tlc.workdir('c15')
    stats = dict(histories=0, requests=0, bad=0, cut=0)
    import core
    core.use_repo()
    check_isolation()             # (also prepares the code object of valjean.cosette.use before the fork)

    # 1. all pairs
    small = dict(funcs=['f1', 'f2', 'lam1', 'lam2', 'g'], bases=['t1', 't2'], facs=['F1', 'F2', 'G1'])
    pairs = _consts(maxlen=2, mix=not ctx.quick, **small)
    cfg = tlc.write_cfg(os.path.join(wd, 'pairs.cfg'), constants=pairs, invariants=HIST_INVS, deadlock=False)
    dump = os.path.join(wd, 'pairs')
    res = tlc.run(SPEC, cfg, dump=dump, timeout=1500)
    ctx.tlc(res, 'Factory/pairs')
    if not res.ok:
        raise tlc.MachineryError('Factory.tla pairs: %s' % (res.violation,))
    tlc.check_coverage(res, ['AnyRequest'], 'Factory/pairs')
    dbg('pairs checked (%d states)' % res.distinct)
    import multiprocessing
    import valjean.cosette.use, valjean.cosette.run, valjean.cosette.env, valjean.config   # noqa: E401,F401  (before the fork)
    pool = multiprocessing.get_context('fork').Pool(8)       # the replays are independent and GIL-bound

    def complete_pairs():
        for st in tlc.read_dump(dump):
            if len(st['hist']) != 2:
                continue
            if st['hist'][0]['req'] != st['hist'][1]['req']:
                ctx.distinct(('pair', st['hist']))
            yield plain_history(st['hist'], st['behav'])

    replay_all(ctx, pool, complete_pairs(), stats, 'Factory.tla/pairs')
    os.remove(dump + '.dump')
    dbg('pairs replayed: %s' % stats)

    # 2. all triples over a tiny universe (map chains of depth two)
    tiny = _consts(funcs=['f1', 'f2'], bases=['t1'], keys=ctx.pick(('result',), ('result', 'other')), facs=['F1'], depsets=((), ('t1',)), maxlen=3)
    cfg = tlc.write_cfg(os.path.join(wd, 'triples.cfg'), constants=tiny, invariants=HIST_INVS, deadlock=False)
    dump = os.path.join(wd, 'triples')
    res = tlc.run(SPEC, cfg, dump=dump, timeout=1500)
    ctx.tlc(res, 'Factory/triples')
    if not res.ok:
        raise tlc.MachineryError('Factory.tla triples: %s' % (res.violation,))

    def complete_triples():
        for st in tlc.read_dump(dump):
            if len(st['hist']) == 3:
                if len(set(it['req'] for it in st['hist'])) > 1:
                    ctx.distinct(('triple', st['hist']))
                yield plain_history(st['hist'], st['behav'])

    replay_all(ctx, pool, complete_triples(), stats, 'Factory.tla/triples')
    os.remove(dump + '.dump')
    dbg('triples replayed: %s' % stats)

    # 3. (thorough) longer simulated histories, larger universe, explicit errors allowed in the specification
    behs = []
    if not ctx.quick:
        big = _consts(funcs=['f1', 'f2', 'lam1', 'lam2'], bases=['t1', 't2', 't3'], facs=['F1', 'F2'], arglists='AL_Three',
                      depsets=((), ('t1',), ('t1', 't2')), sdepsets=((), ('t3',)), maxpos=2, mix=False, maxlen=6, allowerror=True)
        cfg = tlc.write_cfg(os.path.join(wd, 'sim.cfg'), constants=big, invariants=HIST_INVS, deadlock=False)
        prefix = os.path.join(wd, 'sim', 'h')
        os.makedirs(os.path.dirname(prefix))
        nsim = 300
        res = tlc.run(SPEC, cfg, simulate=dict(num=nsim, file=prefix), depth=7, seed=ctx.seed + 1, workers=1, coverage=False, timeout=2400)
        ctx.tlc(res, 'Factory/simulate')
        if res.violation:
            raise tlc.MachineryError('Factory.tla simulation: %s' % (res.violation,))
        behs = tlc.read_sim_files(prefix)
        if len(behs) < nsim // 2:
            raise tlc.MachineryError('only %d simulated behaviours read back' % len(behs))
        finals = [beh[-1][1] for beh in behs]
        for st in finals:
            ctx.distinct(('sim', st['hist']))
        replay_all(ctx, pool, (plain_history(st['hist'], st['behav']) for st in finals), stats, 'Factory.tla/simulate')
        shutil.rmtree(os.path.dirname(prefix), ignore_errors=True)
    pool.close()
    ctx.count(evaluations=stats['requests'], traces=stats['histories'] + stats['bad'] + stats['cut'])

    # 3. the caches as coded: TLC must refute them, and the real code must reproduce the counterexamples
    from concurrent.futures import ThreadPoolExecutor
    with ThreadPoolExecutor(max_workers=3) as tp:
        reproduced = list(tp.map(lambda a: _impl_counterexample(ctx, wd, a[0], a[1], a[2], stats),
                                 [('inj', ['C15_Inj'], []), ('acts', ['C15_Acts'], []), ('refines', [], ['Refines'])]))
    if not all(reproduced):
        ctx.drift('FactoryImpl.tla (caches keyed by the generated name) is refuted by TLC but the implementation does not reproduce '
                  'the counterexamples any more (%s): the implementation-level model is out of date' % reproduced)
    # the repaired cache (explicit error on a conflicting hit) refines Factory
    consts = _consts(funcs=ctx.pick(['f1', 'f2', 'lam1'], ['f1', 'f2', 'lam1', 'lam2', 'g']), bases=['t1', 't2'], facs=['F1', 'F2'], depsets=((), ('t1',)),
                     maxlen=2, allowerror=True)
    consts['ErrorOnConflict'] = True
    cfg = tlc.write_cfg(os.path.join(wd, 'implfix.cfg'), spec='ISpec', constants=consts, invariants=HIST_INVS, properties=['Refines'], deadlock=False)
    res = tlc.run(IMPL, cfg, timeout=1500)
    ctx.tlc(res, 'FactoryImpl/error-on-conflict')
    if not res.ok:
        raise tlc.MachineryError('FactoryImpl.tla with ErrorOnConflict does not refine Factory.tla: %s' % (res.violation,))
    tlc.check_coverage(res, ['IAnyRequest'], 'FactoryImpl/error-on-conflict')
    dbg('FactoryImpl checked')

    # 4. closure
    ccfgs = [('collect3', _consts(funcs=[], bases=[], facs=[], ops=['collect'], ntasks=3, tasknames=['a', 'b'], maxlen=0))]
    if not ctx.quick:
        ccfgs.append(('collect4', _consts(funcs=[], bases=[], facs=[], ops=['collect'], ntasks=4, tasknames=['a', 'b'], maxlen=0,
                                          relkinds=['none', 'hard', 'soft'])))
    n_collect = n_graphs = 0
    collector = Collector(os.environ['VERIF_C15_ROOT'])
    collector.selfcheck()
    for name, consts in ccfgs:
        cfg = tlc.write_cfg(os.path.join(wd, name + '.cfg'), constants=consts, invariants=['C15_Collect'], deadlock=False)
        dump = os.path.join(wd, name)
        res = tlc.run(SPEC, cfg, dump=dump, timeout=1500)
        ctx.tlc(res, 'Factory/' + name)
        if not res.ok:
            raise tlc.MachineryError('Factory.tla %s: %s' % (name, res.violation))
        tlc.check_coverage(res, ['CStep', 'CFinish'], 'Factory/' + name)
        for st in tlc.read_dump(dump):
            if not st['cdone']:
                continue
            n = consts['NTasks']
            names = list(st['tname']) if isinstance(st['tname'], tuple) else [st['tname'][i] for i in range(1, n + 1)]
            graph = dict(op='collect', ntasks=n, names=names,
                         rel=[dict(i=p[0], j=p[1], how=h) for p, h in sorted(st['rel'].items()) if h != 'none'])
            closure, rejected = sorted(st['visited']), bool(st['rejected'])
            nontrivial = len(st['visited']) > len(st['job']) + sum(1 for x in graph['rel'] if x['i'] in st['job']) or rejected
            n_graphs += 1
            failed = set()
            spellings = job_spellings(sorted(st['job']))
            if n <= 3:
                # every spelling of the job set through the real entry point; the plain one and one with a repetition
                # through build_graphs and through the two parts called separately
                plan = [(via, sp) for via in COLLECT_VIAS for sp in spellings if via == 'collect_tasks' or sp[0] in ('', '/listed-twice')]
            else:
                # (the large configuration: one spelling, in rotation, through the real entry point and through the parts,
                # every fourth case through build_graphs too)
                plan = [('collect_tasks', spellings[n_graphs % 4])] + ([('build_graphs', spellings[n_graphs % 4])] if n_graphs % 4 == 1 else [])
                plan.append(('parts', spellings[(n_graphs // 4) % 4]))
            for via, (spelling, job) in plan:
                case = dict(graph, job=job, via=via)
                obs = collector.collect(graph_tasks(graph), job, via)
                n_collect += 1
                problems = []
                if obs['returned'] and obs['collected'] != closure:
                    problems.append('Closure')
                if obs['rejected'] != rejected:
                    problems.append('Unique')
                if problems and not (via == 'build_graphs' and spelling in failed):      # (build_graphs calls collect_tasks)
                    if via == 'collect_tasks':
                        failed.add(spelling)
                    ctx.violation(collect_key(problems, case, obs), 'job %s of the tasks named %s with dependencies %s through %s: observed %s; '
                                  'Factory.tla: closure %s rejected %s' % (job, names, graph['rel'], via, obs, closure, rejected),
                                  case, module='conf_factory')
                if nontrivial and via == 'collect_tasks':
                    ctx.distinct(('collect', st['rel'], st['tname'], tuple(job)))
                if n_collect % 9973 == 1:
                    ctx.sample(dict(case=case, observed=obs, closure=closure, rejected=rejected))
        os.remove(dump + '.dump')
    ctx.count(evaluations=n_collect, traces=n_collect)
    dbg('closure cases replayed: %d graphs x jobs, %d collections' % (n_graphs, n_collect))
    def _witness(arg):
        wit, consts = arg
        wcfg = tlc.write_cfg(os.path.join(wd, wit + '.cfg'), constants=consts, invariants=[wit], deadlock=False)
        wres = tlc.run(SPEC, wcfg, coverage=False, workers=2)
        if wres.violation != ('invariant', wit):
            raise tlc.MachineryError('witness %s not reachable in Factory.tla' % wit)

    with ThreadPoolExecutor(max_workers=7) as tp:
        list(tp.map(_witness, (('W_Repeat', pairs), ('W_Mapped', pairs), ('W_Mixed', pairs), ('W_Error', dict(pairs, AllowError=True)),
                               ('W_Rejected', ccfgs[0][1]), ('W_Deep', ccfgs[0][1]), ('W_DeepSoftClash', ccfgs[0][1]))))
    dbg('witnesses')

    # 5. code -> spec
    rng = ctx.rng
    worlds = []
    nhist = ctx.pick(300, 4000)
    for _h in range(nhist):
        world = World()
        for _n in range(rng.randint(4, ctx.pick(10, 14))):
            if rng.random() < 0.02:
                fill_all(world, rng.randint(1, 5))        # (a short block of fillers: FactoryTrace compares block and step clauses)
            world.step(*random_request(rng, world))
        worlds.append(world)
    # histories in which two factories with one name are asked for the same thing (two different tasks with one name)
    for _h in range(nhist // 4):
        world = World()
        n = rng.randint(3, 7)
        at = sorted(rng.sample(range(n), 2))
        twin = None
        for k in range(n):
            req, style = random_request(rng, world)
            if k == at[0]:
                req = dict(kind='make', func='-', pos=[], kw=[], soft=False, fac=rng.choice(['F1', 'F2']), name=rng.choice(['-', '-', 'n1']),
                           args=rng.choice([[], ['a'], ['a', 'b']]), deps=sorted(rng.sample(['t1', 't2', 't3'], rng.choice([0, 0, 1]))), sdeps=[])
                twin = dict(json.loads(json.dumps(req)), fac='F2' if req['fac'] == 'F1' else 'F1')
            elif k == at[1]:
                req = twin
            world.step(req, style)
        worlds.append(world)
    # one wrapper object specialised several times (a base and its branches), every order, both injection ways
    for world in branch_scenarios():
        worlds.append(world)
    # size boundaries: a large number of distinct cheap requests of every kind between two identical requests of every kind
    nlong = 0
    for n in ctx.pick((1100, 2100), (1100, 2100, 5000)):
        worlds.append(boundary_world(rng, n, extra=nlong % 2 * 3))
        nlong += 1
    # the same histories without their fillers: what fails there as well is not a matter of the fillers
    for world in list(worlds):
        if any(e['op'] == 'fill' for e in world.events):
            world.control = len(worlds) + 1         # (trace id)
            worlds.append(control_world(world))
    dbg('histories executed (%d with fillers)' % sum(1 for w in worlds if w.control))
    nhist = len(worlds)
    # whatever is created later, a task keeps doing what it was asked for: execute every task again at the end
    for world in worlds:
        first = dict(world.obs_cache)
        world.obs_cache = {}
        for k, obs in sorted(first.items()):
            again = world.observe(k)
            if again != obs:
                idx = next(i for i, e in enumerate(world.events) if e.get('resp') == k)
                ctx.violation('C15/%s/task-changed-by-later-requests' % world.creator[k]['kind'],
                              'the task answering request %s did %s when it was created and does %s after the later requests %s'
                              % (world.creator[k], obs, again, case_requests(world.events[idx + 1:])),
                              dict(op='hist', requests=case_requests(world.events), styles=case_styles(world.events),
                                   reobserve=True), module='conf_factory')
                break
    traces = [(tid, w.events) for tid, w in enumerate(worlds, 1)]
    ngraphs = ctx.pick(1500, 20000)
    ctraces = []          # (trace id, [collect event]); crec[trace id] = (group, case to replay)

    crec = {}

    def collect_event(group, case, gcase, obs):
        tid = nhist + len(ctraces) + 1
        ctraces.append((tid, [dict(op='collect', case=gcase, obs=obs)]))
        crec[tid] = (group, case)

    for g in range(ngraphs):
        n = rng.randint(1, 6)
        job = sorted(rng.sample(range(1, n + 1), rng.randint(1, n)))
        while rng.random() < 0.3 and len(job) < 8:
            job.append(rng.choice(job))         # the same task object listed again
        rng.shuffle(job)
        graph = dict(op='collect', ntasks=n, names=[rng.choice(['a', 'b', 'c', 'd', 'e', 'f', 'g']) for _ in range(n)],
                     rel=[dict(i=i, j=j, how=rng.choice(['hard', 'soft', 'both'])) for i in range(2, n + 1) for j in range(1, i) if rng.random() < 0.35],
                     job=job)
        for via in ['collect_tasks'] + rng.sample(['build_graphs', 'parts', None, None, None, None], 1):
            if via:
                case = dict(graph, via=via)
                collect_event(('graph', g), case, case, observe_collect(case, collector))
    # jobs made of the tasks that the wrappers and factories of a history produced
    nwjobs = nclash = 0
    wjobs = []
    for w, world in enumerate(worlds):
        wjobs.append((w, random_world_job(rng, world)))
        # the earlier and the later dependent of one generated task in one job
        for n, (early, late) in enumerate(world.pairs[:4]):
            wjobs.append((w, dict(tops=[], job=[early, late], via=COLLECT_VIAS[n % 3])))
    for w, spec in wjobs:
        world = worlds[w]
        case = dict(spec, op='collect-world', requests=case_requests(world.events), styles=case_styles(world.events))
        gcase, objs, job = world_collect(world, case)
        if gcase['ntasks'] > MAX_COLLECT:
            continue
        nwjobs += 1
        for via in [spec['via']] + (['collect_tasks'] if spec['via'] == 'build_graphs' else []):
            collect_event(('world', w, nwjobs), dict(case, via=via), dict(gcase, via=via), collector.collect(objs, job, via))
        if len(set(gcase['names'])) < len(gcase['names']):
            nclash += 1
            ctx.distinct(('world-collect', tuple(gcase['names']), json.dumps(gcase['rel']), tuple(job)))
    collector.close()
    dbg('random histories and graphs executed (%d collections, %d jobs of generated tasks, %d of them with a repeated name)'
        % (len(ctraces), nwjobs, nclash))
    # negative self-test of the filler blocks in FactoryTrace.tla: recorded histories with one answer falsified
    selftest = filler_selftest()
    stid = nhist + len(ctraces)
    verdict, nev = tlc_verdict(traces + ctraces + [(stid + n, evs) for n, (evs, _exp) in enumerate(selftest, 1)], wd, ctx, 'FactoryTrace/random')
    for n, (evs, expected) in enumerate(selftest, 1):
        got = dict((step, sorted(verdict.pop((stid + n, step)))) for step in range(1, len(evs) + 1) if (stid + n, step) in verdict)
        if got != expected:
            raise tlc.MachineryError('FactoryTrace.tla judges the falsified filler history %d as %s, expected %s' % (n, got, expected))
    dbg('judged by TLC: %d events, %d failing' % (nev, len(verdict)))
    failed_ct = set(crec[tid][0] for (tid, _step) in verdict if tid > nhist and crec[tid][1]['via'] == 'collect_tasks')
    for (tid, step), clauses in sorted(verdict.items()):
        if tid <= nhist:
            world = worlds[tid - 1]
            if 'BlockMismatch' in clauses:
                raise tlc.MachineryError('FactoryTrace.tla: the block clauses and the step clauses disagree on the fillers %s'
                                         % (case_requests(world.events[step - 1:step]),))
            nfill = sum(e['n'] for e in world.events[:step - 1] if e['op'] == 'fill')
            suffix = ''
            if world.events[step - 1]['op'] == 'fill':
                suffix = '/filler-requests'
            elif nfill:
                # a class of its own only for what does not fail in the same history made without the fillers
                cidx = world.cstep.get(step - 1)
                if cidx is not None:
                    clauses = sorted(set(clauses) - set(verdict.get((world.control, cidx + 1), ())))
                if not clauses:
                    continue
                suffix = '/after-many-other-requests' if nfill >= 1000 else '/after-other-requests'
            key, what = classify(world, step - 1, clauses)
            evs = world.events[:step]
            ctx.violation(key + suffix, '%s; clauses %s false (%s)' % (what, sorted(clauses), 'after %d distinct filler requests' % nfill if nfill
                                                                      else 'random history'),
                          dict(op='hist', requests=case_requests(evs), styles=case_styles(evs)), module='conf_factory')
        else:
            ev = ctraces[tid - nhist - 1][1][0]
            group, case = crec[tid]
            if case['via'] == 'build_graphs' and group in failed_ct:
                continue                       # build_graphs calls collect_tasks: the same finding
            gcase = ev['case']
            key = collect_key(clauses, gcase, ev['obs'])
            if group[0] == 'world' and key not in getattr(ctx, 'violations', {}):
                key += '/generated-tasks'      # (a class of its own only if plain tasks with these names and dependencies are handled well)
            ctx.violation(key,
                          'job %s of the tasks named %s with dependencies %s through %s: observed %s%s' % (
                              gcase['job'], gcase['names'], gcase['rel'], case['via'], ev['obs'],
                              ' (job %s, its own tasks %s, after the requests of a random history)' % (case['job'], case['tops']) if group[0] == 'world' else ''),
                          case, module='conf_factory')
    for w in worlds:
        reqs = [json.dumps(r, sort_keys=True) for r in case_requests(w.events)]
        if len(set(reqs)) > 1:
            ctx.distinct(('rand', tuple(reqs)))
    ctx.count(evaluations=sum(len(w.events) for w in worlds) + len(ctraces), traces=nhist + len(ctraces))
    ctx.sample(dict(source='random history', events=[dict(req=e['req'], resp=e['resp'], obs=e['obs'], style=e['style']) for e in worlds[0].events[:4]]))
    ctx.sample(dict(source='random graph', case=ctraces[0][1][0]['case'], observed=ctraces[0][1][0]['obs']))
    ctx.cov['exhaustive'] = True
    ctx.cov['explanation'] = ('all pairs of requests of the configuration Factory/pairs replayed (%d complete histories, %d cut at a '
                              'permitted explicit error, %d with a violation), %d simulated longer histories, %d closure cases; %d random '
                              'histories (%d of them long: identical requests repeated after thousands of distinct filler requests of '
                              'each kind), %d random graphs with random job lists and %d jobs made of the generated tasks of the histories, '
                              'sent through collect_tasks / build_graphs / the parts, judged by TLC (%d events)' % (
                                  stats['histories'], stats['cut'], stats['bad'], len(behs), n_collect, nhist, nlong, ngraphs, nwjobs, nev))


def branch_scenarios():
    """Histories in which one wrapper object is decorated several times: a base (one injection) and its branches."""
    import itertools
    out = []

    def use(func, pos, kw, soft=False):
        return dict(kind='use', func=func, pos=[dict(task=t, key=k) for t, k in pos],
                    kw=sorted((dict(kw=n, task=t, key=k) for n, t, k in kw), key=lambda x: x['kw']),
                    soft=soft, fac='-', name='-', args=[], deps=[], sdeps=[])
    for soft in (False, True):
        base = use('f1', [('t1', 'result')], [], soft)
        branches = [use('f1', [('t1', 'result')], [('x', 't2', 'result')], soft),
                    use('f1', [('t1', 'result')], [('y', 't3', 'other')], soft),
                    use('f1', [('t1', 'result')], [('x', 't3', 'result')], soft),
                    use('f1', [('t2', 'result'), ('t1', 'result')], [], soft),
                    use('f1', [('t1', 'result')], [('x', 't2', 'result'), ('y', 't3', 'result')], soft)]
        for first_base in (True, False):
            for combo in itertools.permutations(branches, 2):
                world = World()
                seq = ([base] if first_base else []) + list(combo) + ([] if first_base else [base])
                for req in seq:
                    world.step(json.loads(json.dumps(req)), 'branch')
                out.append(world)
    return out


def _use(func, pos, kw=(), soft=False):
    return dict(kind='use', func=func, pos=[dict(task=t, key=k) for t, k in pos],
                kw=sorted((dict(kw=n, task=t, key=k) for n, t, k in kw), key=lambda x: x['kw']),
                soft=soft, fac='-', name='-', args=[], deps=[], sdeps=[])


def _make(fac, name, args, deps=(), sdeps=()):
    own_h, own_s = FAC_OWN.get(fac, ([], []))
    return dict(kind='make', func='-', pos=[], kw=[], soft=False, fac=fac, name=name, args=list(args),
                deps=sorted(set(deps) | set(own_h)), sdeps=sorted(set(sdeps) | set(own_s)))


def fill_all(world, n):
    """n distinct cheap requests of EACH kind, made one after the other and not executed: n wrappers over n new functions
    (positional / keyword / soft / two injections / mapped over and injecting tasks generated earlier, in the construction
    styles of the harness) and n make calls with n new argument lists on every factory."""
    start = sum(e['n'] for e in world.events if e['op'] == 'fill')
    gen = ['#%d' % k for k, r in world.creator.items() if r['kind'] == 'use' and r['func'] in FUNC_NAMES][:2]
    uses = [(_use('-', [('t1', 'result')]), 'stack'), (_use('-', [], [('x', 't2', 'other')]), 'using'),
            (_use('-', [('t3', 'result')], soft=True), 'ctor'), (_use('-', [('t2', 'other'), ('t1', 'result')], [('y', 't3', 'result')]), 'kwlast'),
            (_use('-', [('t2', 'result')]), 'branch')]
    for g in gen:
        uses += [(_use('-', [(g, 'result')]), 'map'), (_use('-', [('t1', 'other')], [('x', g, 'other')]), 'stack')]
    world.fill(n, [t for t, _s in uses], [s for _t, s in uses], start)
    for fac in sorted(FAC_NAMES):
        start += n
        world.fill(n, [_make(fac, '-', []), _make(fac, '-', ['a'], ['t1'], ['t2'])], ['stack', 'stack'], start)


def boundary_probes():
    """One request of every kind the harness has (no two of them with one generated name)."""
    return [(_use('f1', [('t1', 'result')]), 'stack'),
            (_use('g', [], [('x', 't2', 'other')]), 'using'),
            (_use('h', [('t3', 'result')], soft=True), 'ctor'),
            (_use('lam1', [('t1', 'result'), ('t2', 'other')], [('y', 't3', 'other')]), 'kwlast'),
            (_use('lam2', [('t3', 'other')], [('x', 't2', 'result')]), 'branch'),
            (_use('g', [('#1', 'result')]), 'map'),                          # an early dependent of the first task
            (_use('f2', [('t3', 'result')], [('x', '#2', 'other')]), 'stack'),
            (_make('F1', '-', ['a']), 'stack'), (_make('F1', 'n1', ['b']), 'stack'), (_make('F2', '-', ['a', 'b'], [], ['t3']), 'stack'),
            (_make('G1', '-', [], ['t1'], ['t2']), 'stack'), (_make('G1', 'n2', [], ['t1', 't2']), 'stack'), (_make('H1', '-', ['a']), 'stack')]


def boundary_world(rng, n, extra=0):
    """A long history: requests of every kind, n filler requests of each kind (fill_all), the identical requests again (in
    the construction style of the first time, then in another one), and later dependents of the tasks generated first."""
    styles = ['stack', 'ctor', 'using', 'kwlast', 'map', 'branch']
    world = World()
    for req, style in boundary_probes():
        world.step(req, style)
    for _n in range(extra):
        world.step(*random_request(rng, world))
    first = [(e['req'], e['style']) for e in world.events]
    early = dict((k, r) for k, r in world.creator.items() if r['kind'] == 'use')
    fill_all(world, n)
    for req, style in first:
        world.step(json.loads(json.dumps(req)), style)
    for req, style in first:
        world.step(json.loads(json.dumps(req)), rng.choice(styles))
    # an earlier and a later dependent of the tasks generated first
    for k, creator in sorted(early.items()):
        deps = [c for c, r in world.creator.items() if r['kind'] == 'use' and r['pos'] == [dict(task='#%d' % k, key='result')]
                and not r['kw'] and not r['soft']]
        func = 'h' if FUNC_NAMES.get(creator['func']) != 'h' else 'g'
        ev = world.step(_use(func, [('#%d' % k, 'result')]), 'map')
        if deps and ev['resp'] and ev['resp'] not in deps:
            world.pairs.append(('#%d' % deps[0], '#%d' % ev['resp']))
    return world


def filler_selftest():
    """[(events, {step: clauses TLC must find false})]: a recorded history request / fillers / the request again, as recorded
    and with one answer falsified (two fillers answered with one task; a filler answered with the task of the first request;
    the repeated request answered with a new task)."""
    world = World()
    world.step(_use('f1', [('t1', 'result')]), 'stack')
    world.fill(3, [_use('-', [('t1', 'result')]), _make('F1', '-', [])], ['stack', 'stack'], 0)
    world.fill(40, [_use('-', [('t2', 'result')])], ['stack'], 3)
    world.step(_use('f1', [('t1', 'result')]), 'stack')
    if [e.get('resp', 0) for e in world.events] != [1, 0, 0, 1] or world.events[1]['resps'] != [2, 3, 4] or world.events[2]['resps'] != list(range(5, 45)):
        return []          # (the implementation under test does not answer this history as it should: judged elsewhere)
    copy = lambda: json.loads(json.dumps(world.events))
    out = [(copy(), {})]
    evs = copy()
    evs[1]['resps'] = [2, 3, 2]
    evs[2]['resps'] = [r - 1 for r in evs[2]['resps']]
    out.append((evs, {2: ['Inj']}))
    evs = copy()
    evs[2]['resps'][17] = 1
    evs[2]['resps'][18:] = [r - 1 for r in evs[2]['resps'][18:]]
    out.append((evs, {3: ['Inj'], 4: ['Inj']}))       # (the task of the first request has then answered two different requests)
    evs = copy()
    evs[3]['resp'] = 45
    out.append((evs, {4: ['Same']}))
    return out


def control_world(world):
    """The history of `world` without its filler requests (generated tasks are renumbered accordingly); world.cstep maps the
    events of world to the events of the result."""
    control = World()
    cls = {}        # class in world -> class in control

    def tr(item):
        return dict(item, task='#%d' % cls[int(item['task'][1:])]) if item['task'].startswith('#') else item

    for i, ev in enumerate(world.events):
        if ev['op'] != 'req':
            continue
        try:
            req = dict(ev['req'], pos=[tr(p) for p in ev['req']['pos']], kw=[tr(x) for x in ev['req']['kw']])
        except KeyError:
            break         # (injects a task that the control history does not have)
        world.cstep[i] = len(control.events)
        cev = control.step(req, ev['style'])
        if ev['resp'] and cev['resp']:
            cls.setdefault(ev['resp'], cev['resp'])
    return control


def random_request(rng, world):
    """A request over the large universe, biased towards re-asking and towards near-misses of earlier requests."""
    earlier = [e['req'] for e in world.events if e['op'] == 'req']
    use_classes = ['#%d' % k for k, r in world.creator.items() if r['kind'] == 'use' and r['func'] in FUNC_NAMES]
    targets = ['t1', 't2', 't3'] + use_classes[:4]
    r = rng.random()
    if earlier and r < 0.15:
        req = json.loads(json.dumps(rng.choice(earlier)))
    elif earlier and r < 0.45:
        req = json.loads(json.dumps(rng.choice(earlier)))       # mutate one parameter of an earlier request
        if req['kind'] == 'use':
            what = rng.choice(['func', 'task', 'key', 'how', 'soft', 'order'])
            if what == 'func':
                req['func'] = rng.choice(list(FUNC_NAMES))
            elif what == 'soft':
                req['soft'] = not req['soft']
            elif what == 'order' and len(req['pos']) > 1:
                req['pos'].reverse()
            elif what == 'how' and req['pos']:
                p = req['pos'].pop(0)
                req['kw'] = [x for x in req['kw'] if x['kw'] != 'x'] + [dict(kw='x', task=p['task'], key=p['key'])]
            else:
                items = req['pos'] + req['kw']
                it = rng.choice(items)
                if what == 'task':
                    it['task'] = rng.choice(targets)
                else:
                    it['key'] = rng.choice(KEYS)
        else:
            what = rng.choice(['args', 'deps', 'sdeps', 'name', 'fac'])
            if what == 'args':
                req['args'] = rng.choice([[], ['a'], ['b'], ['a', 'b']])
            elif what == 'deps':
                req['deps'] = sorted(rng.sample(['t1', 't2', 't3'], rng.randint(0, 2)))
            elif what == 'sdeps':
                req['sdeps'] = sorted(rng.sample(['t1', 't2', 't3'], rng.randint(0, 1)))
            elif what == 'name':
                req['name'] = rng.choice(['-', 'n1', 'n2'])
            else:
                req['fac'] = rng.choice(list(FAC_NAMES))
    elif r < 0.8:
        npos = rng.choice([0, 1, 1, 2])
        kws = rng.sample(['x', 'y'], rng.choice([0, 0, 1, 2]))
        if npos == 0 and not kws:
            npos = 1
        req = dict(kind='use', func=rng.choice(list(FUNC_NAMES)),
                   pos=[dict(task=rng.choice(targets), key=rng.choice(KEYS)) for _ in range(npos)],
                   kw=sorted((dict(kw=k, task=rng.choice(targets), key=rng.choice(KEYS)) for k in kws), key=lambda x: x['kw']),
                   soft=rng.random() < 0.3, fac='-', name='-', args=[], deps=[], sdeps=[])
    else:
        req = dict(kind='make', func='-', pos=[], kw=[], soft=False, fac=rng.choice(list(FAC_NAMES)), name=rng.choice(['-', '-', 'n1', 'n2']),
                   args=rng.choice([[], ['a'], ['b'], ['a', 'b']]), deps=sorted(rng.sample(['t1', 't2', 't3'], rng.choice([0, 0, 1, 2]))),
                   sdeps=sorted(rng.sample(['t1', 't2', 't3'], rng.choice([0, 0, 1]))))
    if req['kind'] == 'make' and req['fac'] in FAC_OWN:
        req['deps'] = sorted(set(req['deps']) | set(FAC_OWN[req['fac']][0]))
        req['sdeps'] = sorted(set(req['sdeps']) | set(FAC_OWN[req['fac']][1]))
    req['kw'] = sorted(req['kw'], key=lambda x: x['kw'])
    style = rng.choice(['stack', 'stack', 'ctor', 'using', 'kwlast', 'map', 'branch', 'branch'])
    return req, style
