"""C10 -- numbers read from Tripoli-4 and Apollo3 outputs are the numbers written there (exploration level).

Tripoli-4 (specs/T4Doc.tla, T4DocTrace.tla)
  spec -> code : every document structure TLC enumerates comes with the listing AS PRINTED (`printed`) and the
                 reading C10 demands for the requested edition (`expected`); the printed structure is rendered with
                 the response / scoring-zone / time-step / spectrum / mesh / integrated-result layouts of the example
                 listings (spectra: gauss_E_time_mu_phi, meshes: box_dyn, tungstene, not converged: entropy,
                 ttsSimplePacket20) and exactly representable numbers, parsed by parse.Parser(...).parse_from_number /
                 parse_from_index(...).to_browser(), and compared with `expected`.
  code -> spec : seeded random printed listings beyond TLC's bounds are rendered and parsed; printed structure and
                 observation go to TLC, which computes T4Doc!ReadOf(printed, batch) and returns the mismatches.
Apollo3 (specs/Ap3File.tla)
  spec -> code : every abstract HDF5 tree TLC enumerates (outputs -> totaloutput | zones -> macro | isotopes ->
                 results) is written with h5py; hdf5_reader.Reader(...).to_browser() and hdf5_picker.Picker.pick_*
                 must both give, for every stored result, the array TLC attached to its (output, zone, isotope, name).
"""
import json
import multiprocessing
import os

import numpy as np

import core
import tlc
from tlaval import MV, parse_state

SPEC = os.path.join(tlc.SPECS, 'T4Doc.tla')
TRACE = os.path.join(tlc.SPECS, 'T4DocTrace.tla')
AP3 = os.path.join(tlc.SPECS, 'Ap3File.tla')
INVS = ['ReadIsExpected', 'EveryRowRead', 'BinsIncreasing', 'Injective']
WITNESSES = ['W_DecreasingBoth', 'W_SecondEdition', 'W_NotConverged', 'W_MeshTimedNotConverged']
SHAPES = [(1, 1, 1), (1, 1, 2), (1, 2, 1), (2, 1, 1), (1, 2, 2), (2, 1, 2), (2, 2, 1), (2, 2, 2)]    # T4Doc!ShapeTable
EXAMPLE = 'tests/eponine/tripoli4/data/gauss_E_time_mu_phi.res.ceav5'
NPROC = max(2, min(14, (os.cpu_count() or 4) - 2))

# increasing tables of exactly representable bounds (index = the integer TLC works with)
EB = [0.125 * 2 ** k for k in range(12)]          # MeV
TB = [1.5 * k for k in range(12)]                 # s
FN = {1: 'FLUX', 2: 'REACTION'}
GARBAGE = -999999


# ----------------------------------------------------------------------------------------------
# rendering a printed structure with the layouts of the example listings

_PRE = []


def _preamble():
    """head of a real listing (data echo ... initialisation time)."""
    if not _PRE:
        with open(os.path.join(core.REPO, EXAMPLE), encoding='utf-8', errors='ignore') as f:
            lines = f.readlines()
        stop = next(i for i, x in enumerate(lines) if 'initialization time' in x)
        _PRE.append(''.join(lines[:stop + 1]))
    return _PRE[0]


def _e(x):
    return '%.6e' % x


def _val(vn):
    return vn / 2.0


def normalize(printed):
    """printed structure of a replay file written before meshes were modelled (rows [a, b, vn, sn], zones without
    kind, sections without emesh) -> the current WRITTEN structure; the identity on a current one."""
    for ed in printed:
        for resp in ed['resps']:
            for zone in resp['zones']:
                zone.setdefault('kind', 'vol')
                for sec in zone['secs']:
                    sec.setdefault('emesh', dict(kind='no', cells=[]))
                    for row in sec['rows']:
                        if 'cells' not in row:
                            row['cells'] = [dict(u=0, v=0, w=0, vn=row.pop('vn'), sn=row.pop('sn'))]
    return printed


def _cell_lines(cells):
    """the lines of a mesh block (box_dyn.res.ceav5, tungstene.d.res.ceav5): cell indices, tally, sigma (percent)."""
    return ''.join('\t (%d,%d,%d)\t %s\t%s\n' % (c['u'], c['v'], c['w'], _e(_val(c['vn'])), _e(_val(c['sn']))) for c in cells)


def _render_integ(out, integ, batch, mesh):
    """the result integrated over energy (and space for a mesh): 'number of batches used' line, under its ENERGY
    INTEGRATED RESULTS heading for a spectrum and bare after a mesh (box_dyn, tungstene); the not-converged form is
    the one of entropy.d / ttsSimplePacket20.d."""
    if integ['kind'] == 'no':
        return
    if integ['kind'] == 'notconv':
        out.append('\t ENERGY INTEGRATED RESULTS\n\n\t number of first discarded batches : 0\n\n\t NOT YET CONVERGED \n')
    else:
        if not mesh:
            out.append('\t ENERGY INTEGRATED RESULTS\n\n\t number of first discarded batches : 0\n\n')
        out.append('number of batches used: %d\t%s\t%s\n' % (batch, _e(_val(integ['vn'])), _e(_val(integ['sn']))))
    out.append('\n' if mesh and integ['kind'] == 'yes' else '\n\n')


def _render_mesh(out, zone, batch):
    """a score on a mesh, layout of box_dyn.res.ceav5 (time steps, unit line) and tungstene.d.res.ceav5 (no time step)."""
    out.append('\t scoring mode : SCORE_TRACK\n\t scoring zone : \t Results on a mesh: \n'
               '\t Cell   \t  tally   \t  sigma (percent)\n\n\n')
    for k, sec in enumerate(zone['secs']):
        if sec['timed']:
            out.append('\t TIME STEP NUMBER: %d\n\t ------------------------------------\n'
                       '\t\t time min. = %s\n\t\t time max. = %s\n\t\t\t (in neut.cm.s^-1)\n\n'
                       % (k, _e(TB[sec['tmin']]), _e(TB[sec['tmax']])))
        for row in sec['rows']:
            out.append('Energy range (in MeV): %s - %s\n' % (_e(EB[row['a']]), _e(EB[row['b']])))
            out.append(_cell_lines(row['cells']) + '\n')
        if sec['emesh']['kind'] == 'yes':
            out.append('\nENERGY INTEGRATED RESULTS :\n' + _cell_lines(sec['emesh']['cells']) + '\n')
        _render_integ(out, sec['integ'], batch, True)
    out.append('\n')


def render(printed):
    """printed (T4Doc WRITTEN structure, plain Python) -> listing text.  The structure from before meshes were modelled
    (volume zones without `kind`, rows [a, b, vn, sn]: see normalize) is rendered too (conf_parselock builds such ones)."""
    out = [_preamble(), '\n']
    for ed in printed:
        out.append('\n batch number : %d\n\n' % ed['batch'])
        out.append('*' * 57 + '\n\n RESULTS ARE GIVEN FOR SOURCE INTENSITY : 1.000000e+00\n' + '*' * 57 + '\n\n\n')
        out.append(' Edition after batch number : %d\n\n\n\n' % ed['batch'])
        for resp in ed['resps']:
            out.append('*' * 78 + '\nRESPONSE FUNCTION : %s\nRESPONSE NAME : resp_%d\nSCORE NAME : score_%d\n'
                       'ENERGY DECOUPAGE NAME : DEC_SPECTRE\n\n\n PARTICULE : NEUTRON \n' % (FN[resp['fn']], resp['name'], resp['name'])
                       + '*' * 78 + '\n\n')
            for zone in resp['zones']:
                if zone.get('kind') == 'mesh':
                    _render_mesh(out, zone, ed['batch'])
                    continue
                out.append('\t scoring mode : SCORE_TRACK\n\t scoring zone : \t Volume \t num of volume : %d\n'
                           '\t Volume in cm3: 1.000000e+00\n\n\n' % zone['zid'])
                for k, sec in enumerate(zone['secs']):
                    if sec['timed']:
                        out.append('\t TIME STEP NUMBER : %d\n\t ------------------------------------\n'
                                   '\t\t time min. = %s\n\t\t time max. = %s\n\n' % (k, _e(TB[sec['tmin']]), _e(TB[sec['tmax']])))
                    out.append('\t SPECTRUM RESULTS\n\t number of first discarded batches : 0\n\n'
                               '\t group (MeV) \t\t score   \t sigma_% \t score/lethargy\n\n')
                    for row in sec['rows']:
                        cell = row['cells'][0] if 'cells' in row else row
                        out.append('%s - %s\t%s\t%s\t%s\n' % (_e(EB[row['a']]), _e(EB[row['b']]), _e(_val(cell['vn'])),
                                                            _e(_val(cell['sn'])), _e(_val(cell['vn']) / 4.0)))
                    out.append('\n')
                    _render_integ(out, sec['integ'], ed['batch'], False)
                out.append('\n')
            out.append('\n')
        out.append('\n simulation time (s) : %d\n\n' % ed['time'])
    out.append('\n' + '=' * 69 + '\n\tNORMAL COMPLETION\n' + '=' * 69 + '\n')
    return ''.join(out)


# ----------------------------------------------------------------------------------------------
# observing the parser

def _num(x):
    """numerator of halves of an exactly representable number, GARBAGE otherwise."""
    y = float(x) * 2.0
    return int(y) if abs(y) < 10 ** 8 and y == int(y) else GARBAGE      # (NaN and infinities are GARBAGE)


def _sig(value, error):
    """numerator (halves) of the sigma% such that error = value * sigma / 100, GARBAGE if there is none."""
    value, error = float(value), float(error)
    if not (abs(value) < float('inf') and abs(error) < float('inf')):
        return GARBAGE
    if value == 0.0:
        return 0 if error == 0.0 else GARBAGE
    sn = round(error / value * 200.0)
    want = value * (sn / 2.0) / 100.0
    return int(sn) if abs(error - want) <= 1e-12 * abs(want) else GARBAGE


def _idx(table, x):
    x = float(x)
    return table.index(x) if x in table else GARBAGE


def _cells(arr, err, ie, it):
    """(scores, sigmas) of the cells of group ie, step it of a 7-d (u, v, w, e, t, mu, phi) result, in the order of their
    rank (u, v, w with w running fastest); GARBAGE when the result is split in mu or phi as well."""
    if arr.ndim != 7 or arr.shape[5:] != (1, 1):
        return [GARBAGE], [GARBAGE]
    vals, errs = arr[:, :, :, ie, it, 0, 0].ravel(), err[:, :, :, ie, it, 0, 0].ravel()
    return [_num(v) for v in vals], [_sig(v, e) for v, e in zip(vals, errs)]


def project(browser_item):
    """one Browser item -> observed record in T4Doc terms."""
    res = browser_item['results']
    fn = [k for k, v in FN.items() if v == browser_item.get('response_function')]
    name = str(browser_item.get('response_name', ''))
    score = res['score']
    val, err = np.asarray(score.value), np.asarray(score.error)
    ebins = [_idx(EB, x) for x in score.bins.get('e', [])]
    tb = score.bins.get('t', np.array([]))
    tbins = [_idx(TB, x) for x in tb] if np.size(tb) else []
    ne, nts = val.shape[3], val.shape[4]
    mesh = browser_item.get('scoring_zone_type') == 'Mesh'
    shape = [int(n) for n in val.shape[:3]]
    if mesh:
        # the cells of a mesh are known by their indices: the space bins must be these indices
        for axis, dim in enumerate('uvw'):
            if list(np.asarray(score.bins.get(dim, [])).ravel()) != list(range(shape[axis])):
                shape[axis] = GARBAGE
        zid = 0 if 'scoring_zone_id' not in browser_item else GARBAGE
    else:
        zid = (int(browser_item['scoring_zone_id']) if isinstance(browser_item.get('scoring_zone_id'), (int, np.integer))
               else GARBAGE)
    cells = [[_cells(val, err, ie, it) for it in range(nts)] for ie in range(ne)]
    item = dict(fn=fn[0] if fn else GARBAGE, name=int(name.split('_')[1]) if name.startswith('resp_') else GARBAGE,
                zid=zid, shape=shape, ebins=ebins, tbins=tbins,
                val=[[c[0] for c in row] for row in cells], sig=[[c[1] for c in row] for row in cells],
                emesh=[], integ=[])
    # per-cell energy-integrated mesh
    for it in range(nts):
        if not mesh or 'score_eintegrated' not in res:
            item['emesh'].append(dict(kind='no', val=[], sig=[]))
            continue
        eval_, eerr = np.asarray(res['score_eintegrated'].value), np.asarray(res['score_eintegrated'].error)
        if eval_.ndim == 7 and eval_.shape[:3] == val.shape[:3] and eval_.shape[3:5] == (1, nts):
            vals, sigs = _cells(eval_, eerr, 0, it)
        else:
            vals, sigs = [GARBAGE], [GARBAGE]
        item['emesh'].append(dict(kind='yes', val=vals, sig=sigs))
    # result integrated over energy (and space for a mesh), one per time step
    if mesh:
        names = ['score_seintegrated', 'score_integrated']
    else:
        names = ['score_eintegrated', 'score_integrated'] if tbins else ['score_integrated', 'score_eintegrated']
    key = next((k for k in names if k in res), None)
    for it in range(nts):
        if key is None:
            item['integ'].append(dict(kind='no', vn=0, sn=0))
            continue
        ival, ierr = np.asarray(res[key].value), np.asarray(res[key].error)
        if ival.ndim == 0:
            v, e = float(ival), float(ierr)
        elif ival.ndim == 7 and ival.shape[4] == nts and ival.size == nts:
            v, e = float(ival[0, 0, 0, 0, it, 0, 0]), float(ierr[0, 0, 0, 0, it, 0, 0])
        else:
            v, e = float('inf'), 0.0
        if v != v:
            item['integ'].append(dict(kind='notconv', vn=0, sn=0))
        else:
            item['integ'].append(dict(kind='yes', vn=_num(v) if v != float('inf') else GARBAGE, sn=_sig(v, e)))
    return item


def observe(path, batch, index):
    """(time, items sorted by (response name, zone)) read by the parser for the edition `batch`; also checks that
    parse_from_index(index) gives the same edition."""
    from valjean.eponine.tripoli4.parse import Parser
    parser = Parser(path)
    browser = parser.parse_from_number(batch).to_browser()
    items = sorted((project(x) for x in browser.content), key=lambda i: (i['name'], i['zid']))
    time = browser.globals.get('simulation_time', GARBAGE)
    by_index = parser.parse_from_index(index).to_browser()
    items2 = sorted((project(x) for x in by_index.content), key=lambda i: (i['name'], i['zid']))
    same_edition = (items2 == items and by_index.globals.get('batch_number') == batch
                    and browser.globals.get('batch_number') == batch)
    return int(time) if isinstance(time, (int, np.integer)) else GARBAGE, items, same_edition


def plain(v):
    if isinstance(v, dict):
        return {str(k): plain(x) for k, x in v.items()}
    if isinstance(v, (tuple, list)):
        return [plain(x) for x in v]
    if isinstance(v, MV):
        return str(v)
    return v


def _lists(v):
    if isinstance(v, dict):
        return {k: _lists(x) for k, x in v.items()}
    return [_lists(x) for x in v] if isinstance(v, (tuple, list)) else v


def first_difference(exp_items, obs_items, exp_time, obs_time):
    """(what, detail) naming the first clause of C10 broken, or None."""
    if exp_time != obs_time:
        return 'edition-time', 'simulation time %s, %s printed' % (obs_time, exp_time)
    if len(exp_items) != len(obs_items):
        return 'missing-score', '%d (response, zone) results read, %d printed' % (len(obs_items), len(exp_items))
    for e, o in zip(exp_items, obs_items):
        where = 'response resp_%d %s' % (e['name'], 'zone %d' % e['zid'] if e['zid'] else 'mesh')
        if (e['fn'], e['name'], e['zid']) != (o['fn'], o['name'], o['zid']):
            return 'attribution', '%s read as function %s resp_%s zone %s' % (where, o['fn'], o['name'], o['zid'])
        if list(e['shape']) != list(o['shape']):
            return 'mesh-grid', '%s: cells per direction (space bins = cell indices) %s, printed %s' % (where, o['shape'], list(e['shape']))
        if list(e['ebins']) != list(o['ebins']):
            return 'energy-bins', '%s: energy bounds (indices) %s, printed %s' % (where, o['ebins'], list(e['ebins']))
        if list(e['tbins']) != list(o['tbins']):
            return 'time-bins', '%s: time bounds (indices) %s, printed %s' % (where, o['tbins'], list(e['tbins']))
        if _lists(e['val']) != o['val']:
            return 'value', '%s: scores (x2) [group][step][cell] %s, printed %s' % (where, o['val'], _lists(e['val']))
        if _lists(e['sig']) != o['sig']:
            return 'error', '%s: error is not value*sigma/100 with the printed sigma: sigma%% (x2) %s, printed %s' % (
                where, o['sig'], _lists(e['sig']))
        for k, (em, om) in enumerate(zip(e['emesh'], o['emesh'])):
            if em['kind'] != om['kind'] or (em['kind'] == 'yes' and (_lists(em['val']), _lists(em['sig'])) != (om['val'], om['sig'])):
                return 'mesh-eintegrated', '%s step %d: energy-integrated mesh %s, printed %s' % (where, k, om, _lists(dict(em)))
        if len(e['emesh']) != len(o['emesh']):
            return 'mesh-eintegrated', '%s: %d energy-integrated meshes, %d printed' % (where, len(o['emesh']), len(e['emesh']))
        for k, (ei, oi) in enumerate(zip(e['integ'], o['integ'])):
            if ei['kind'] == 'yes' and (oi['kind'], oi['vn'], oi['sn']) != ('yes', ei['vn'], ei['sn']):
                return 'integrated', '%s step %d: integrated result %s, printed %s' % (where, k, oi, dict(ei))
            if ei['kind'] != 'yes' and oi['kind'] == 'yes':
                return 'integrated', '%s step %d: integrated result %s read although none was printed' % (where, k, oi)
        if len(e['integ']) != len(o['integ']):
            return 'integrated', '%s: %d integrated results, %d printed' % (where, len(o['integ']), len(e['integ']))
    return None


def structure_class(printed):
    """class of a printed listing for finding keys: print orders / sign / time grid of its responses."""
    tags = set()
    for ed in printed[:1]:
        for resp in ed['resps']:
            for zone in resp['zones']:
                secs = zone['secs']
                rows = secs[0]['rows']
                if len(rows) > 1:
                    tags.add('e-dec' if rows[0]['a'] > rows[0]['b'] else 'e-inc')
                if secs[0]['timed'] and len(secs) > 1:
                    tags.add('t-dec' if secs[0]['tmin'] > secs[1]['tmin'] else 't-inc')
                vals = [c['vn'] for s in secs for r in s['rows'] for c in r['cells']]
                if zone['kind'] == 'mesh':
                    tags.add('mesh')
                if any(v < 0 for v in vals):
                    tags.add('negative')
                if any(v == 0 for v in vals):
                    tags.add('zero')
                tags.add('integ-' + secs[0]['integ']['kind'])
    return '+'.join(sorted(tags)) or 'plain'


def key_class(what, printed):
    """the part of the structure class that matters for the clause `what` (one finding class per defect)."""
    tags = structure_class(printed).split('+')
    keep = {'value': ('e-', 't-'), 'energy-bins': ('e-',), 'time-bins': ('t-',), 'error': ('negative', 'zero'),
            'integrated': ('t-', 'integ-'), 'attribution': (), 'missing-score': ('integ-',), 'edition-time': (),
            'edition-selection': (), 'parse-error': ('t-', 'integ-notconv'), 'read-differs': ('e-dec', 't-dec'),
            'mesh-grid': (), 'mesh-eintegrated': ('e-', 't-')}.get(what, ())
    keep = tuple(keep) + (('mesh',) if what not in ('edition-time', 'edition-selection') else ())
    sel = [t for t in tags if any(t.startswith(k) for k in keep)]
    if what == 'parse-error':
        timed = any(z['secs'][0]['timed'] for ed in printed[:1] for r in ed['resps'] for z in r['zones'])
        sel = ([t for t in sel if t == 'mesh'] + (['timed'] if timed else ['untimed'])
               + [t for t in sel if t.startswith('integ-')])
    return '+'.join(sel) or 'any'


_TMP = {}
_SCRATCH = []          # scratch root of the running check (under tlc.workdir()), inherited by the forked workers


def _tmp_path(name='doc.res'):
    pid = os.getpid()
    if pid not in _TMP:
        if not _SCRATCH:
            _SCRATCH.append(tlc.workdir('c10w'))
        _TMP[pid] = os.path.join(_SCRATCH[0], 'w%d' % pid)
        os.makedirs(_TMP[pid], exist_ok=True)
    return os.path.join(_TMP[pid], name)


def run_printed(printed, batch):
    """render, parse -> (time, items, same_edition) or ('raised', text)."""
    path = _tmp_path()
    with open(path, 'w', encoding='utf-8') as f:
        f.write(render(printed))
    # every listing of a worker process is written to the same path; with one fixed modification time this is a job
    # re-run within the time-stamp granularity of the file system (listings of one structure have one size: numbers are
    # printed at fixed width), so what is read must come from the file as it is now
    os.utime(path, (1_000_000_000, 1_000_000_000))
    index = [ed['batch'] for ed in printed].index(batch)
    try:
        return observe(path, batch, index)
    except Exception as ex:  # pylint: disable=broad-except
        return 'raised', '%s: %s' % (type(ex).__name__, ex), False


def _done_blocks(dump):
    """the text blocks of the evaluated states of a TLC -dump file (parsed by the workers: tlc.read_dump, split)."""
    import re
    path = dump if os.path.exists(dump) else dump + '.dump'
    with open(path) as f:
        txt = f.read()
    return [b for b in re.split(r'^State \d+:\n', txt, flags=re.M)[1:] if re.search(r'^/\\ pc = "done"$', b, flags=re.M)]


def _work_docs(task):
    """task = [text block of an evaluated T4Doc state] -> list of (finding|None, structure class, key of the document
    structure when it is non-trivial)."""
    core.use_repo()
    out = []
    for block in task:
        st = parse_state(block)
        printed, batch, expected = plain(st['printed']), 10 * int(st['req']), plain(st['expected'])
        doc = st['doc']
        dkey = None
        if any(int(r['ne']) > 1 or int(r['nt']) > 1 or int(r['shape']) > 1 for r in doc['resps']):
            dkey = ('t4', json.dumps(plain(doc), sort_keys=True), int(st['req']))
        out.append(_judge_doc(printed, batch, expected) + (dkey,))
    return out


def _judge_doc(printed, batch, expected):
    """render, parse, compare with what TLC expects -> (finding|None, structure class)."""
    got = run_printed(printed, batch)
    cls = structure_class(printed)
    case = dict(kind='t4', printed=printed, batch=batch)
    if got[0] == 'raised':
        return (('C10/t4/parse-error/%s/%s' % (got[1].split(':')[0], key_class('parse-error', printed)),
                 'rendered listing does not parse: ' + got[1], case), cls)
    time, items, same_edition = got
    diff = first_difference(expected['items'], items, expected['time'], time)
    if diff is None and not same_edition:
        diff = ('edition-selection', 'parse_from_index and parse_from_number give different editions')
    return ((('C10/t4/%s/%s' % (diff[0], key_class(diff[0], printed))), diff[1], case) if diff else None, cls)


def _work_random(task):
    """task = [(id, printed, batch)] -> [(id, printed, batch, time, items, same_edition) | (id, ..., 'raised', text)]."""
    core.use_repo()
    out = []
    for cid, printed, batch in task:
        got = run_printed(printed, batch)
        out.append((cid, printed, batch) + tuple(got))
    return out


# ----------------------------------------------------------------------------------------------
# random printed listings (beyond TLC's bounds)

def random_printed(rng):
    ned = rng.randint(1, 4)
    nresp = rng.randint(1, 3)
    specs = []
    for r in range(1, nresp + 1):
        specs.append(dict(ne=rng.randint(1, 6), nt=rng.choice([0, 0, 1, 2, 3, 4]), eorder=rng.choice(['inc', 'dec']),
                          torder=rng.choice(['inc', 'dec']), integ=rng.choice(['yes', 'yes', 'no', 'notconv']),
                          nz=rng.randint(1, 3), e0=rng.randint(0, 3), t0=rng.randint(0, 3)))
        if rng.random() < 0.35:      # a score on a mesh: a response of its own, grids beyond T4Doc!ShapeTable
            specs[-1].update(kind='mesh', nz=1, ne=rng.randint(1, 3), shape=[rng.randint(1, 3) for _ in range(3)],
                             emesh=rng.random() < 0.5)
        else:
            specs[-1].update(kind='vol', shape=[1, 1, 1], emesh=False)
    used = set()

    def fresh(signed=True):
        while True:
            v = rng.randint(1, 400000) * 2 + 1
            if v not in used:
                used.add(v)
                return -v if signed and rng.random() < 0.3 else v
    printed = []
    batches = sorted(rng.sample(range(1, 60), ned))
    for k, batch in enumerate(batches):
        resps = []
        for r, sp in enumerate(specs, 1):
            zones = []
            zids = sorted(rng.sample(range(1, 30), sp['nz'])) if sp['kind'] == 'vol' else [0]
            labels = [(u, v, w) for u in range(sp['shape'][0]) for v in range(sp['shape'][1]) for w in range(sp['shape'][2])]

            def cells():
                out = []
                for u, v, w in labels:
                    zero = rng.random() < 0.15
                    out.append(dict(u=u, v=v, w=w, vn=0 if zero else fresh(), sn=0 if zero else rng.randint(1, 60)))
                return out
            for zid in zids:
                steps = list(range(sp['nt'])) if sp['nt'] else [0]
                if sp['torder'] == 'dec':
                    steps.reverse()
                secs = []
                for it in steps:
                    groups = list(range(sp['ne']))
                    if sp['eorder'] == 'dec':
                        groups.reverse()
                    rows = []
                    for ie in groups:
                        lo, hi = sp['e0'] + ie, sp['e0'] + ie + 1
                        rows.append(dict(a=hi if sp['eorder'] == 'dec' else lo, b=lo if sp['eorder'] == 'dec' else hi,
                                         cells=cells()))
                    integ = dict(kind=sp['integ'], vn=fresh() if sp['integ'] == 'yes' else 0,
                                 sn=rng.randint(1, 60) if sp['integ'] == 'yes' else 0)
                    emesh = dict(kind='yes', cells=cells()) if sp['emesh'] else dict(kind='no', cells=[])
                    secs.append(dict(timed=sp['nt'] > 0, tmin=sp['t0'] + it if sp['nt'] else 0,
                                     tmax=sp['t0'] + it + 1 if sp['nt'] else 0, rows=rows, emesh=emesh, integ=integ))
                zones.append(dict(zid=zid, kind=sp['kind'], secs=secs))
            resps.append(dict(fn=1 + (r % 2), name=r, zones=zones))
        printed.append(dict(batch=batch, time=3 * k + rng.randint(1, 3) + (printed[-1]['time'] if printed else 0), resps=resps))
    return printed, rng.choice(batches)


def _to_json_case(cid, printed, batch, time, items):
    return dict(id=cid, printed=printed, batch=batch, time=time, obs=items)


def tlc_validate(wd, cases, name='cases'):
    """cases [(id, printed, batch, time, items)] -> {id: index of first differing item (0 = count, -2 = time)}."""
    cj = tlc.json_dump(os.path.join(wd, name + '.json'), [_to_json_case(*c) for c in cases])
    oj = os.path.join(wd, name + '_out.json')
    cfg = tlc.write_cfg(os.path.join(wd, name + '.cfg'), spec='TSpec', invariants=['BinsIncreasing'], deadlock=False,
                        postcondition='Post')
    res = tlc.run(TRACE, cfg, workers=1, env=dict(VERIF_CASES=cj, VERIF_OUT=oj), timeout=1800)
    if not res.ok:
        raise tlc.MachineryError('T4DocTrace: %s\n%s' % (res.violation, res.out[-2000:]))
    with open(oj) as f:
        bad = json.load(f)['bad']
    return res, {cid: k for cid, k in bad}



# ----------------------------------------------------------------------------------------------
# Apollo3: abstract tree of Ap3File.tla <-> HDF5 file <-> Reader / Picker

AP3_INVS = ['ReaderAndPickerAgree', 'EveryStoredResultListed', 'LabelsAreKeys']
AP3_ZONES = ['zA', 'zB', 'zC']
AP3_ISOTOPES = ['U235', 'U238', 'Pu239']
AP3_MACRO = 9
AP3_POOL = AP3_ISOTOPES + ['Am241']


def _iso_name(o, z, k, variant):
    """Name of the k-th isotope (1-based) of zone z of output o.  variant 0: the same list everywhere; variant 1: a
    list that depends on the output and the zone (as after depletion steps), in files whose outputs share one geometry."""
    if not variant:
        return AP3_ISOTOPES[k - 1]
    return AP3_POOL[(k - 1 + o + z) % len(AP3_POOL)]


def ap3_write(path, file_spec, picks, ngroups, variant=0):
    """Write the HDF5 file of an abstract tree: `picks` = [(o, z, iso, name, arr)] with the file's own names."""
    import h5py
    nout = len(file_spec)
    shared = bool(variant) and len(set(len(out['zones']) for out in file_spec)) == 1
    with h5py.File(path, 'w') as h:
        info = h.create_group('info')
        info['NOUT'] = np.array([nout], dtype=np.int32)
        geom = h.create_group('geometry')
        geom['NGEO'] = np.array([1 if shared else nout], dtype=np.int32)
        for o, out in enumerate(file_spec, 1):
            oname = 'output_%d' % (o - 1)
            gname = 'geometry_%d' % (0 if shared else o - 1)
            gi = info.create_group(oname)
            gi['GEOMID'] = np.array([gname.encode()], dtype='S10')
            gi['NG'] = np.array([ngroups], dtype=np.int32)
            nz = len(out['zones'])
            if gname not in geom:
                gg = geom.create_group(gname)
                gg['NZONE'] = np.array([nz], dtype=np.int32)
                gg['VOLUME'] = np.arange(1, nz + 1, dtype=np.float32)
                gg['ZONENAME'] = np.array([AP3_ZONES[z].encode() for z in range(nz)], dtype='S2')
            go = h.create_group(oname)
            go.create_group('totaloutput')
            for z, zs in enumerate(out['zones'], 1):
                gz = go.create_group(AP3_ZONES[z - 1])
                ni = int(zs['ni'])
                gz['NISOT'] = np.array([ni], dtype=np.int32)
                if ni:
                    gz['ISOTOPE'] = np.array([_iso_name(o, z, i + 1, variant).ljust(27).encode() for i in range(ni)], dtype='S27')
                    gz['CONCEN'] = np.zeros(ni, dtype=np.float64)
        for o, z, iso, name, arr in picks:
            grp = h['output_%d' % (o - 1)]['totaloutput' if z == 0 else AP3_ZONES[z - 1]]
            if name == 'CONCEN':
                grp['CONCEN'][iso - 1] = float(arr[0])
                continue
            if iso == AP3_MACRO:
                grp = grp.require_group('macro')
            elif iso:
                grp = grp.require_group(_iso_name(o, z, iso, variant))
            grp[name] = np.array(arr, dtype=np.float32)


def _ap3_label(item, variant=0):
    out = item.get('output', '')
    zone = item.get('zone', '')
    iso = item.get('isotope')
    o = int(out.split('_')[1]) + 1 if out.startswith('output_') else GARBAGE
    z = 0 if zone == 'totaloutput' else (AP3_ZONES.index(zone) + 1 if zone in AP3_ZONES else GARBAGE)
    if iso is None:
        i = 0
    elif iso == 'macro':
        i = AP3_MACRO
    else:
        i = next((k for k in range(1, len(AP3_ISOTOPES) + 1)
                  if isinstance(o, int) and isinstance(z, int) and _iso_name(o, z, k, variant) == iso), GARBAGE)
    return o, z, i, item.get('result_name')


def _ap3_ints(ds):
    v = np.asarray(ds.value, dtype=float).ravel()
    return tuple(int(x) if x == int(x) else GARBAGE for x in v)


def _ap3_same_dataset(a, b):
    va, vb = np.asarray(a.value), np.asarray(b.value)
    ea, eb = np.asarray(a.error, dtype=float), np.asarray(b.error, dtype=float)
    return (va.shape == vb.shape and np.array_equal(va, vb) and ea.shape == eb.shape
            and np.array_equal(ea, eb, equal_nan=True) and a.what == b.what and list(a.bins) == list(b.bins)
            and all(np.array_equal(a.bins[k], b.bins[k]) for k in a.bins))


def ap3_check(file_spec, items, picks, ngroups, variant=0):
    """Write the tree, load it with Reader and pick every result with Picker -> (what, detail) or None.
    items = {(o, z, iso, lower name): arr}, picks = [(o, z, iso, name, arr)] as computed by TLC."""
    from valjean.eponine.apollo3.hdf5_reader import Reader
    from valjean.eponine.apollo3.hdf5_picker import Picker
    path = _tmp_path('tree.hdf')
    ap3_write(path, file_spec, picks, ngroups, variant)
    os.utime(path, (1_000_000_000, 1_000_000_000))
    try:
        browser = Reader(path).to_browser()
    except Exception as ex:  # pylint: disable=broad-except
        return 'reader/raised', '%s: %s' % (type(ex).__name__, ex)
    got = {}
    datasets = {}
    for item in browser.content:
        label = _ap3_label(item, variant)
        if label in got:
            return 'reader/duplicate', 'result %s listed twice' % (label,)
        got[label] = _ap3_ints(item['results'])
        datasets[label] = item['results']
    for label, arr in items.items():
        if label not in got:
            return 'reader/missing/' + label[3], 'stored result %s is not in the browser (has %s)' % (label, sorted(got))
        if got[label] != tuple(arr):
            return 'reader/wrong-array/' + label[3], 'result %s carries %s, stored %s' % (label, got[label], tuple(arr))
    extra = sorted(set(got) - set(items))
    if extra:
        return 'reader/extra', 'browser lists results that were not stored: %s' % extra
    picker = Picker(path)
    try:
        for o, z, iso, name, arr in picks:
            kwargs = dict(output='output_%d' % (o - 1), zone='totaloutput' if z == 0 else AP3_ZONES[z - 1],
                          result_name='concentration' if name == 'CONCEN' else name)
            if iso:
                kwargs['isotope'] = 'macro' if iso == AP3_MACRO else _iso_name(o, z, iso, variant)
            try:
                ds = picker.pick_standard_value(**kwargs)
            except Exception as ex:  # pylint: disable=broad-except
                return 'picker/raised/' + name, 'pick_standard_value(%s) raised %s: %s' % (kwargs, type(ex).__name__, ex)
            if _ap3_ints(ds) != tuple(arr):
                return 'picker/wrong-array/' + name, 'pick_standard_value(%s) gives %s, stored %s' % (kwargs, _ap3_ints(ds), tuple(arr))
            label = (o, z, iso, 'concentration' if name == 'CONCEN' else name.lower())
            if not _ap3_same_dataset(ds, datasets[label]):
                return ('reader-vs-picker/' + name,
                        'picked %s and loaded %s differ (value/error/bins/what): %r vs %r' % (kwargs, label, ds, datasets[label]))
    finally:
        picker.close()
    return None


def _ap3_from_state(st):
    file_spec = [dict(totalflux=bool(o['totalflux']),
                      zones=[dict(flux=bool(z['flux']), nmacro=int(z['nmacro']), ni=int(z['ni']), nreac=int(z['nreac']))
                             for z in o['zones']]) for o in st['file']]
    items = {(int(i['o']), int(i['z']), int(i['iso']), str(i['name'])): [int(x) for x in i['arr']] for i in st['items']}
    picks = sorted((int(p['q']['o']), int(p['q']['z']), int(p['q']['iso']), str(p['q']['name']), [int(x) for x in p['arr']])
                   for p in st['picks'])
    return file_spec, items, picks


def _work_ap3(task):
    core.use_repo()
    out = []
    for file_spec, items, picks, ngroups in task:
        for variant in (0, 1):
            res = ap3_check(file_spec, items, picks, ngroups, variant)
            if res and variant:
                res = (res[0] + '/shared-geometry', res[1])
            out.append((res, dict(kind='ap3', file=file_spec, items=[list(k) + [v] for k, v in sorted(items.items())],
                                  picks=[list(p) for p in picks], ngroups=ngroups, variant=variant) if res else None, len(items)))
    return out


def ap3_replay(case):
    items = {tuple(r[:4]): r[4] for r in case['items']}
    picks = [tuple(p) for p in case['picks']]
    res = ap3_check(case['file'], items, picks, case['ngroups'], case.get('variant', 0))
    if res:
        return False, '%s: %s' % res
    return True, '%d stored results loaded and picked identically' % len(items)


def ap3_run(ctx, wd, pool):
    ngroups = 3
    consts = {'MaxOutputs': 2, 'MaxZones': ctx.pick(1, 2), 'MaxIsotopes': 2, 'MaxResults': 2, 'NG': ngroups}
    cfg = tlc.write_cfg(os.path.join(wd, 'ap3.cfg'), constants=consts, invariants=AP3_INVS, deadlock=False)
    dump = os.path.join(wd, 'ap3')
    res = tlc.run(AP3, cfg, dump=dump)
    ctx.tlc(res, 'Ap3File')
    if not res.ok:
        raise tlc.MachineryError('Ap3File.tla: %s\n%s' % (res.violation, res.out[-1500:]))
    tlc.check_coverage(res, ['Eval'], 'Ap3File')
    tasks = []
    for st in tlc.read_dump(dump):
        if str(st['pc']) != 'done':
            continue
        file_spec, items, picks = _ap3_from_state(st)
        tasks.append((file_spec, items, picks, ngroups))
        if any(o['zones'] for o in file_spec):
            ctx.distinct(('ap3', json.dumps(file_spec, sort_keys=True)))
    os.remove(dump + '.dump')
    chunks = [tasks[i::NPROC * 3] for i in range(NPROC * 3)]
    n = 0
    for chunk in pool.map(_work_ap3, [c for c in chunks if c]):
        for res, case, nitems in chunk:
            n += 1
            if res:
                ctx.violation('C10/ap3/' + res[0], res[1], case, module='conf_t4doc')
    ctx.count(evaluations=n, traces=n)
    ctx.sample(dict(source='Ap3File dump', trees=n))
    return n

# ----------------------------------------------------------------------------------------------
# replay

def replay_case(case):
    core.use_repo()
    if case.get('kind') == 'ap3':
        return ap3_replay(case)
    printed, batch = normalize(case['printed']), case['batch']
    got = run_printed(printed, batch)
    if got[0] == 'raised':
        return False, 'rendered listing does not parse: ' + got[1]
    time, items, same_edition = got
    wd = tlc.workdir('c10r')
    _, bad = tlc_validate(wd, [(1, printed, batch, time, items)])
    if 1 in bad:
        return False, 'T4Doc!ReadOf differs from what the parser returned (first differing item %s): read %s' % (bad[1], items)
    if not same_edition:
        return False, 'parse_from_index and parse_from_number give different editions'
    return True, '%d results read as printed' % len(items)


# ----------------------------------------------------------------------------------------------
def _consts(ned, nresp, nz, ne, nt, thin, kinds=('vol',), shapes=()):
    """constants of T4Doc.tla; shapes = mesh grids (nu, nv, nw) out of SHAPES."""
    return {'MaxEditions': ned, 'MaxResponses': nresp, 'MaxZones': nz, 'MaxE': ne, 'MaxT': nt, 'Thin': thin,
            'Kinds': frozenset(kinds), 'ShapeIds': frozenset(SHAPES.index(tuple(sh)) + 1 for sh in shapes)}


def _pool():
    return multiprocessing.get_context('fork').Pool(NPROC)


def run_c10(ctx):
    ctx.rule('T4: spec->code every document structure of T4Doc.tla (editions x responses x zones x energy groups x time '
             'steps x print orders x sign class x integrated kind x volume spectrum | mesh grid with or without '
             'energy-integrated mesh x requested edition) rendered with the layouts of the '
             'example listings and parsed; code->spec seeded random printed listings validated by TLC against '
             'T4DocTrace.tla. Apollo3: every abstract HDF5 tree of Ap3File.tla written with h5py and read back by Reader '
             'and Picker. distinct_nontrivial counts distinct structures with at least two energy groups, two time '
             'steps or two mesh cells (T4) and trees with at least one zone result (Apollo3).')
    ctx.assume('numbers are halves of integers printed with %.6e (exact); bounds come from increasing tables of exactly '
               'representable values; error compared with value*sigma/100 to 1e-12 relative')
    ctx.assume('layouts not templated (extended mesh with coordinates, entropy on a mesh, angular zones, IFP, sensitivities, '
               'k-eff blocks, depletion) are not covered: C10 is claimed at exploration level; nu and ZA spectra are printed '
               'by no shipped example listing (outside the quantifier)')
    wd = tlc.workdir('c10')
    _SCRATCH[:] = [wd]
    configs = [('one-response', _consts(2, 1, 2, 3, 2, True))]
    if not ctx.quick:
        configs.append(('two-responses', _consts(2, 2, 2, 2, 2, True)))
    else:
        configs.append(('two-responses', _consts(1, 2, 1, 2, 2, True)))
    # a score on a mesh: every grid with two cells in one direction and the 2x2x2 grid (thorough: all of ShapeTable)
    configs.append(('mesh', _consts(ctx.pick(1, 2), 1, 1, 2, 2, True, kinds=('mesh',),
                                    shapes=ctx.pick([(1, 1, 2), (1, 2, 1), (2, 1, 1), (2, 2, 2)], SHAPES[1:]))))
    # a mesh response next to a volume response (attribution), either one first
    configs.append(('mesh-and-volume', _consts(1, 2, 1, 1, ctx.pick(1, 2), True, kinds=('vol', 'mesh'), shapes=[(1, 2, 2)])))
    # all TLC runs on T4Doc.tla (enumerations and witnesses) and the witnesses of Ap3File.tla are independent: in parallel
    from concurrent.futures import ThreadPoolExecutor
    tasks = []
    with ThreadPoolExecutor(max_workers=len(configs) + 6) as ex:
        runs = []
        for name, consts in configs:
            cfg = tlc.write_cfg(os.path.join(wd, name + '.cfg'), constants=consts, invariants=INVS, deadlock=False)
            dump = os.path.join(wd, name)
            runs.append((name, dump, ex.submit(tlc.run, SPEC, cfg, dump=dump, workers=4)))
        futs = []
        for wit in WITNESSES:
            cfg = tlc.write_cfg(os.path.join(wd, wit + '.cfg'), invariants=[wit], deadlock=False,
                                constants=_consts(2, 1, 1, 2, 2, True, kinds=('vol', 'mesh'), shapes=[(1, 2, 2)]))
            futs.append((wit, 'T4Doc.tla', ex.submit(tlc.run, SPEC, cfg, coverage=False, workers=2)))
        for wit in ('W_TwoOutputs', 'W_IsotopeAndMacro'):
            cfg = tlc.write_cfg(os.path.join(wd, wit + '.cfg'), invariants=[wit], deadlock=False,
                                constants={'MaxOutputs': 2, 'MaxZones': 1, 'MaxIsotopes': 2, 'MaxResults': 2, 'NG': 3})
            futs.append((wit, 'Ap3File.tla', ex.submit(tlc.run, AP3, cfg, coverage=False, workers=2)))
        for name, dump, fut in runs:
            res = fut.result()
            ctx.tlc(res, 'T4Doc/' + name)
            if not res.ok:
                raise tlc.MachineryError('T4Doc.tla %s: %s\n%s' % (name, res.violation, res.out[-1500:]))
            tlc.check_coverage(res, ['Eval'], 'T4Doc/' + name)
            blocks = _done_blocks(dump)
            if 2 * len(blocks) != res.distinct:
                raise tlc.MachineryError('T4Doc.tla %s: %d evaluated states in the dump, %d distinct states' % (name, len(blocks), res.distinct))
            tasks.extend(blocks)
            os.remove(dump + '.dump')
        for wit, mod, fut in futs:
            if fut.result().violation != ('invariant', wit):
                raise tlc.MachineryError('witness %s not reachable in %s' % (wit, mod))
    rng = ctx.rng
    n_random = ctx.pick(300, 6000)
    randoms = []
    for cid in range(1, n_random + 1):
        printed, batch = random_printed(rng)
        randoms.append((cid, printed, batch))
    with _pool() as pool:
        chunks = [tasks[i::NPROC * 3] for i in range(NPROC * 3)]
        doc_results = pool.map(_work_docs, [c for c in chunks if c])
        rchunks = [randoms[i::NPROC * 3] for i in range(NPROC * 3)]
        rand_results = pool.map(_work_random, [c for c in rchunks if c])
    n_docs = 0
    for chunk in doc_results:
        for fnd, cls, dkey in chunk:
            n_docs += 1
            if dkey:
                ctx.distinct(dkey)
            if fnd:
                ctx.violation(fnd[0], fnd[1], fnd[2], module='conf_t4doc')
    ctx.count(evaluations=n_docs, traces=n_docs)
    ctx.sample(dict(source='T4Doc dump', documents=n_docs, example_class=doc_results[0][0][1] if doc_results and doc_results[0] else None))

    cases, byid = [], {}
    for chunk in rand_results:
        for rec in chunk:
            cid, printed, batch = rec[0], rec[1], rec[2]
            byid[cid] = (printed, batch, rec)
            if rec[3] == 'raised':
                ctx.violation('C10/t4/parse-error/%s/%s' % (rec[4].split(':')[0], key_class('parse-error', printed)),
                              'rendered listing does not parse: ' + rec[4],
                              dict(kind='t4', printed=printed, batch=batch), module='conf_t4doc')
                continue
            cases.append((cid, printed, batch, rec[3], rec[4]))
            if not rec[5]:
                ctx.violation('C10/t4/edition-selection/any',
                              'parse_from_index and parse_from_number give different editions',
                              dict(kind='t4', printed=printed, batch=batch), module='conf_t4doc')
    if os.environ.get('VERIF_SELFTEST_CORRUPT') and cases:
        # self-test of the binding: falsify one recorded number
        cid, printed, batch, time, items = cases[0]
        items[0]['val'][0][0][0] += 2
    res, bad = tlc_validate(wd, cases, 'random')
    ctx.tlc(res, 'T4DocTrace/random')
    for cid, k in sorted(bad.items()):
        printed, batch, rec = byid[cid]
        # name the clause with the same comparison, on TLC's verdict (k = first differing item)
        ctx.violation('C10/t4/read-differs/' + key_class('read-differs', printed),
                      'T4DocTrace: what the parser returned is not T4Doc!ReadOf(printed, %d); first differing item %s '
                      '(0: number of items, -2: time); read %s' % (batch, k, rec[4][max(k, 1) - 1:max(k, 1)]),
                      dict(kind='t4', printed=printed, batch=batch), module='conf_t4doc')
    ctx.count(evaluations=len(randoms), traces=len(cases))
    for cid, printed, batch, time, items in cases[:1]:
        ctx.sample(dict(source='random', batch=batch, structure=structure_class(printed), items_read=len(items)))
    for cid, printed, batch in randoms:
        ctx.distinct(('t4r', structure_class(printed), len(printed), len(printed[0]['resps'])))

    # ---- Apollo3
    with _pool() as pool:
        n_trees = ap3_run(ctx, wd, pool)

    # ---- extra module: listings parsed by several threads at once (ParseLock.tla, see conf_parselock.py)
    import conf_parselock
    ctx.extra('ParseLock', conf_parselock.run, tlc.workdir('c10pl'))
    ctx.cov['exhaustive'] = True
    ctx.cov['explanation'] = ('exhaustive over the document structures of the TLC configurations in tlc_runs (%d documents '
                              'rendered and parsed; %d Apollo3 trees written and read back); %d random printed listings beyond '
                              'them, %d rejected by TLC' % (n_docs, n_trees, len(randoms), len(bad)))
