"""Deterministic scheduler for the real valjean queue backend.

Logical threads are real OS threads, but only one runs at a time: each holds a baton and hands control
back to the controller immediately *before* every blocking / lock-acquiring operation (lock.acquire when
not owner, cond.wait, queue put/get/task_done/join, thread.join) and at explicit probe points.  One
controller step = "perform the pending operation of thread t and run t up to its next yield".

The valjean modules `valjean.cosette.env` and `valjean.cosette.backends.queue` are imported through the
normal import machinery while `threading`, `queue` and `time` resolve to the controlled stand-ins defined
here (see load_controlled()), so the code of the repository -- whatever it currently is -- runs unchanged.
Outside a controlled run the stand-ins behave like plain single-threaded objects.
"""
import importlib
import sys
import threading as _rt
import types

_tls = _rt.local()
CTL = None            # the controller of the run in progress (one at a time)


class Abort(BaseException):
    """Raised inside logical threads to unwind them when a run is aborted."""


class Pending:
    __slots__ = ('op', 'guard')

    def __init__(self, op, guard):
        self.op = op
        self.guard = guard


class LThread:
    def __init__(self, tid, name, obj=None):
        self.tid = tid
        self.name = name
        self.obj = obj
        self.baton = _rt.Semaphore(0)
        self.pending = Pending('start', lambda: True)
        self.finished = False
        self.exc = None
        self.result = None
        self.os_thread = None
        self.nyield = 0
        self.inject = None      # dict(at=n, exc=BaseException instance, allow=callable(op) -> bool): an exception delivered
        self.delivering = False  # to this thread when it is resumed from its n-th scheduling point


def _me():
    return getattr(_tls, 'lt', None)


def yield_(op, guard=None, intr_guard=None):
    """Yield to the controller; returns when this thread is chosen and `guard` holds.  If an exception is to be
    delivered to this thread at this scheduling point (LThread.inject), the thread becomes runnable as soon as
    `intr_guard` holds (default: at once) and the exception is raised here instead of performing the operation."""
    me = _me()
    ctl = CTL
    g = guard or (lambda: True)
    if ctl is None or me is None or not ctl.active:
        if not g():
            raise RuntimeError('operation %r would block for ever outside a controlled run' % (op,))
        return
    if ctl.aborting:
        raise Abort()
    me.nyield += 1
    inj = me.inject
    if inj is not None and inj['at'] == me.nyield and inj['allow'](op):
        me.delivering = True
        g = intr_guard or (lambda: True)
        op = ('intr',) + tuple(op if isinstance(op, tuple) else (op,))
    me.pending = Pending(op, g)
    ctl.sem.release()
    me.baton.acquire()
    if ctl.aborting:
        raise Abort()
    if me.delivering:
        me.delivering = False
        me.inject = None
        raise inj['exc']


class Controller:
    def __init__(self, strategy, max_steps=5000, on_step=None):
        self.strategy = strategy
        self.max_steps = max_steps
        self.on_step = on_step
        self.threads = []
        self.trace = []            # (tid, op) in execution order
        self.enabled_log = []      # enabled tids at each step
        self.sem = _rt.Semaphore(0)
        self.active = False
        self.aborting = False
        self.clock = 0
        self.verdict = None        # 'ok' | 'deadlock' | 'leak' | 'steplimit' | 'pruned'
        self.blocked = []          # on deadlock/leak: [(tid, op)]
        self.queues = []
        self.locks = []

    # -- thread management -------------------------------------------------
    def spawn(self, fn, name, obj=None):
        lt = LThread(len(self.threads), name, obj)
        self.threads.append(lt)

        def body():
            _tls.lt = lt
            lt.baton.acquire()
            try:
                if not self.aborting:
                    lt.result = fn()
            except Abort:
                pass
            except BaseException as ex:  # pylint: disable=broad-except
                lt.exc = ex
            finally:
                lt.finished = True
                lt.pending = None
                self.sem.release()
        lt.os_thread = _rt.Thread(target=body, daemon=True)
        lt.os_thread.start()
        return lt

    def tick(self):
        self.clock += 1
        return self.clock

    # -- main loop ------------------------------------------------------------
    def run(self, main_fn):
        global CTL
        if CTL is not None and CTL.active:
            raise RuntimeError('nested controlled runs')
        CTL = self
        self.active = True
        main = self.spawn(main_fn, 'master')
        main.inject = getattr(self, 'main_inject', None)
        try:
            while True:
                live = [t for t in self.threads if not t.finished]
                if not live:
                    self.verdict = 'ok'
                    break
                enabled = [t for t in live if t.pending is not None and t.pending.guard()]
                if not enabled:
                    self.verdict = 'leak' if main.finished else 'deadlock'
                    self.blocked = [(t.tid, t.pending.op if t.pending else None) for t in live]
                    break
                if len(self.trace) >= self.max_steps:
                    self.verdict = 'steplimit'
                    break
                choice = self.strategy.choose(self, [(t.tid, t.pending.op) for t in enabled])
                if choice is None:
                    self.verdict = 'pruned'
                    break
                t = self.threads[choice]
                self.trace.append((t.tid, t.pending.op))
                self.enabled_log.append([e.tid for e in enabled])
                t.pending = None
                t.baton.release()
                self.sem.acquire()
                if self.on_step is not None:
                    self.on_step(self)
        finally:
            self._abort_all()
            self.active = False
            CTL = None
        return main

    def _abort_all(self):
        self.aborting = True
        for _ in range(50):
            live = [t for t in self.threads if not t.finished]
            if not live:
                break
            for t in live:
                t.baton.release()
            for t in live:
                t.os_thread.join(timeout=0.5)

    def pcs(self):
        return [(t.pending.op if t.pending else ('finished' if t.finished else 'running')) for t in self.threads]


# ---------------------------------------------------------------------------
# controlled stand-ins
# ---------------------------------------------------------------------------
_lock_counter = [0]


class DetRLock:
    def __init__(self, label=None):
        _lock_counter[0] += 1
        self.label = label or 'lock%d' % _lock_counter[0]
        self.owner = None
        self.count = 0

    def _who(self):
        me = _me()
        return me if me is not None else 'outside'

    def acquire(self, blocking=True, timeout=-1):
        who = self._who()
        if self.owner is who:
            self.count += 1
            return True
        yield_(('acq', self.label), lambda: self.owner is None)
        self.owner = who
        self.count = 1
        return True

    def release(self):
        if self.owner is not self._who():
            raise RuntimeError('cannot release un-acquired lock')
        self.count -= 1
        if self.count == 0:
            self.owner = None

    __enter__ = acquire

    def __exit__(self, *a):
        self.release()

    def locked(self):
        return self.owner is not None


class DetLock(DetRLock):
    def acquire(self, blocking=True, timeout=-1):
        who = self._who()
        yield_(('acq', self.label), lambda: self.owner is None)
        self.owner = who
        self.count = 1
        return True
    __enter__ = acquire


class DetCondition:
    def __init__(self, lock=None):
        self.lock = lock if lock is not None else DetRLock('cv')
        if lock is None:
            self.lock.label = 'cv'
        self.waiters = []
        self.notified = []
        if CTL is not None:
            CTL.conds = getattr(CTL, 'conds', []) + [self]

    def acquire(self, *a, **k):
        return self.lock.acquire(*a, **k)

    def release(self):
        self.lock.release()

    def __enter__(self):
        return self.lock.acquire()

    def __exit__(self, *a):
        self.lock.release()

    def wait(self, timeout=None):
        who = self.lock._who()
        if self.lock.owner is not who:
            raise RuntimeError('cannot wait on un-acquired lock')
        saved = self.lock.count
        self.lock.owner = None
        self.lock.count = 0
        self.waiters.append(who)
        try:
            yield_(('wait', self.lock.label), lambda: who in self.notified and self.lock.owner is None,
                   intr_guard=lambda: self.lock.owner is None)
        except Abort:
            raise
        except BaseException:
            # as threading.Condition.wait: the lock is taken back before the exception leaves wait()
            if who in self.waiters:
                self.waiters.remove(who)
            if who in self.notified:
                self.notified.remove(who)
            self.lock.owner = who
            self.lock.count = saved
            raise
        self.notified.remove(who)
        self.lock.owner = who
        self.lock.count = saved
        return True

    def notify(self, n=1):
        if self.lock.owner is not self.lock._who():
            raise RuntimeError('cannot notify on un-acquired lock')
        for _ in range(n):
            if self.waiters:
                self.notified.append(self.waiters.pop(0))

    def notify_all(self):
        self.notify(len(self.waiters))

    notifyAll = notify_all


class DetEvent:
    def __init__(self):
        self.flag = False

    def set(self):
        self.flag = True

    def clear(self):
        self.flag = False

    def is_set(self):
        return self.flag

    isSet = is_set

    def wait(self, timeout=None):
        yield_(('evwait',), lambda: self.flag)
        return True


class DetSemaphore:
    def __init__(self, value=1):
        self.value = value

    def acquire(self, blocking=True, timeout=None):
        yield_(('sem',), lambda: self.value > 0)
        self.value -= 1
        return True

    def release(self, n=1):
        self.value += n

    __enter__ = acquire

    def __exit__(self, *a):
        self.release()


class DetQueue:
    def __init__(self, maxsize=0):
        self.items = []
        self.unfinished = 0
        if CTL is not None:
            CTL.queues.append(self)

    def put(self, item, block=True, timeout=None):
        yield_(('put',))
        self.items.append(item)
        self.unfinished += 1

    def get(self, block=True, timeout=None):
        yield_(('get',), lambda: len(self.items) > 0)
        return self.items.pop(0)

    def task_done(self):
        yield_(('task_done',))
        if self.unfinished <= 0:
            raise ValueError('task_done() called too many times')
        self.unfinished -= 1

    def join(self):
        yield_(('qjoin',), lambda: self.unfinished == 0)

    def qsize(self):
        return len(self.items)

    def empty(self):
        return not self.items


class DetLifoQueue(DetQueue):
    def get(self, block=True, timeout=None):
        yield_(('get',), lambda: len(self.items) > 0)
        return self.items.pop()


class DetPriorityQueue(DetQueue):
    def get(self, block=True, timeout=None):
        yield_(('get',), lambda: len(self.items) > 0)
        k = min(range(len(self.items)), key=lambda i: self.items[i])
        return self.items.pop(k)


class DetThread:
    _count = [0]

    def __init__(self, group=None, target=None, name=None, args=(), kwargs=None, *, daemon=None):
        DetThread._count[0] += 1
        self._target = target
        self._args = args
        self._kwargs = kwargs or {}
        self.name = name or 'Thread-%d' % DetThread._count[0]
        self.daemon = bool(daemon)
        self._lt = None
        self._ran_plain = False

    def run(self):
        if self._target is not None:
            self._target(*self._args, **self._kwargs)

    def start(self):
        ctl = CTL
        if ctl is None or not ctl.active:
            # outside a controlled run: run to completion synchronously is not meaningful -> refuse
            raise RuntimeError('DetThread.start() outside a controlled run')
        self._lt = ctl.spawn(self.run, self.name, self)

    def join(self, timeout=None):
        lt = self._lt
        if lt is None:
            raise RuntimeError('cannot join thread before it is started')
        yield_(('join', lt.tid), lambda: lt.finished)

    def is_alive(self):
        return self._lt is not None and not self._lt.finished

    @property
    def ident(self):
        return None if self._lt is None else self._lt.tid


def _fake_modules():
    th = types.ModuleType('threading')
    for k in dir(_rt):          # anything without a controlled stand-in is the real thing
        if not k.startswith('__'):
            setattr(th, k, getattr(_rt, k))
    th.Event = DetEvent
    th.Semaphore = DetSemaphore
    th.BoundedSemaphore = DetSemaphore
    th.Thread = DetThread
    th.RLock = DetRLock
    th.Lock = DetLock
    th.Condition = DetCondition
    th.current_thread = lambda: (_me().obj if _me() is not None and _me().obj is not None else _rt.current_thread())
    th.get_ident = _rt.get_ident
    th.local = _rt.local
    th.main_thread = _rt.main_thread
    th.enumerate = _rt.enumerate
    th.active_count = _rt.active_count
    qm = types.ModuleType('queue')
    import queue as _rq
    for k in dir(_rq):          # anything without a controlled stand-in is the real thing
        if not k.startswith('__'):
            setattr(qm, k, getattr(_rq, k))
    qm.Queue = DetQueue
    qm.LifoQueue = DetLifoQueue
    qm.PriorityQueue = DetPriorityQueue
    tm = types.ModuleType('time')
    import time as _rtime
    for k in dir(_rtime):
        if not k.startswith('__'):
            setattr(tm, k, getattr(_rtime, k))

    def _time():
        ctl = CTL
        if ctl is None or not ctl.active:
            return _rtime.time()
        return ctl.tick()
    tm.time = _time

    # The clocks whose reference point is undefined (`time.monotonic`, `time.perf_counter`: "only the difference between
    # the results of two calls is valid") restart with every controlled execution: an execution stands for one process,
    # and the next one may run after a reboot or on another machine.  Only `time.time` is comparable between runs.
    def _mono():
        ctl = CTL
        if ctl is None or not ctl.active:
            return _rtime.monotonic()
        return ctl.tick() - getattr(ctl, 'mono_origin', 0)

    def _mono_ns():
        ctl = CTL
        if ctl is None or not ctl.active:
            return _rtime.monotonic_ns()
        return int(ctl.tick() - getattr(ctl, 'mono_origin', 0)) * 1000000000

    def _time_ns():
        ctl = CTL
        if ctl is None or not ctl.active:
            return _rtime.time_ns()
        return int(ctl.tick()) * 1000000000
    tm.monotonic = tm.perf_counter = _mono
    tm.monotonic_ns = tm.perf_counter_ns = _mono_ns
    tm.time_ns = _time_ns
    return th, qm, tm


_LOADED = {}


def load_controlled():
    """Import valjean.cosette.env and valjean.cosette.backends.queue with threading/queue/time controlled.

    Must be called before anything else imported those two modules (the check's own process)."""
    if _LOADED:
        return _LOADED['env'], _LOADED['queue']
    for name in ('valjean.cosette.env', 'valjean.cosette.backends.queue', 'valjean.cosette.scheduler'):
        if name in sys.modules:
            raise RuntimeError('%s imported before load_controlled()' % name)
    importlib.import_module('valjean.cosette.task')
    importlib.import_module('valjean.chrono')
    importlib.import_module('valjean.config')
    importlib.import_module('valjean.cosette.depgraph')
    th, qm, tm = _fake_modules()
    saved = {k: sys.modules.get(k) for k in ('threading', 'queue', 'time')}
    sys.modules['threading'], sys.modules['queue'], sys.modules['time'] = th, qm, tm
    try:
        env_mod = importlib.import_module('valjean.cosette.env')
        q_mod = importlib.import_module('valjean.cosette.backends.queue')
    finally:
        for k, v in saved.items():
            if v is None:
                sys.modules.pop(k, None)
            else:
                sys.modules[k] = v
    _LOADED['env'], _LOADED['queue'] = env_mod, q_mod
    return env_mod, q_mod


# ---------------------------------------------------------------------------
# strategies
# ---------------------------------------------------------------------------
class Replay:
    """Follow a list of thread ids; afterwards (or when the wanted thread is not enabled) pick the lowest."""

    def __init__(self, tids, strict=False):
        self.tids = list(tids)
        self.pos = 0
        self.deviations = []
        self.strict = strict

    def choose(self, ctl, enabled):
        ids = [e[0] for e in enabled]
        if self.pos < len(self.tids):
            want = self.tids[self.pos]
            self.pos += 1
            if want in ids:
                return want
            self.deviations.append((self.pos - 1, want, ids))
            if self.strict:
                return None
        elif self.strict:
            return None
        return ids[0]


class RandomStrategy:
    def __init__(self, rng):
        self.rng = rng

    def choose(self, ctl, enabled):
        return enabled[self.rng.randrange(len(enabled))][0]


class PCT:
    """Priority-based random schedule with d change points (Burckhardt et al.), by thread id."""

    def __init__(self, rng, depth=2, length=60):
        self.rng = rng
        self.prio = {}
        self.change = set(rng.randrange(1, max(2, length)) for _ in range(depth))
        self.low = 0

    def choose(self, ctl, enabled):
        for tid, _ in enabled:
            if tid not in self.prio:
                self.prio[tid] = self.rng.random() + 1.0
        step = len(ctl.trace)
        best = max(enabled, key=lambda e: self.prio[e[0]])[0]
        if step in self.change:
            self.low -= 1
            self.prio[best] = self.low
            best = max(enabled, key=lambda e: self.prio[e[0]])[0]
        return best


class Indexed:
    """Choose by index into the enabled list following `prefix`, then index 0 (for DFS)."""

    def __init__(self, prefix):
        self.prefix = list(prefix)
        self.widths = []
        self.taken = []

    def choose(self, ctl, enabled):
        k = len(self.taken)
        idx = self.prefix[k] if k < len(self.prefix) else 0
        if idx >= len(enabled):
            idx = 0
        self.widths.append(len(enabled))
        self.taken.append(idx)
        return enabled[idx][0]
