"""C18 -- diagnostic statistics: binding of specs/Stats.tla to valjean.gavroche.diagnostics.stats.

spec -> code : every evaluated state TLC dumps (task environments x statuses / results x verdicts x labels x
               label selections) is turned into stub task results, the real TestStatsTasks / TestStatsTests /
               TestStatsTestsByLabels is evaluated, and the projection (names per class, rows OK/KO/total,
               bool, oracles(), nb_missing_labels()) is compared with the `out` TLC computed.  A sample of the
               states also goes through the real task pipeline (task_stats / test_stats / test_stats_by_labels
               -> Use -> EvalTestTask, executed task by task on an Env).
read again   : a summary is read more than once: after the first projection the public read paths are exercised on
               the live result (bool, classification_counts(result.classify, <success status>) / oracles() /
               nb_missing_labels(), table and plot representers at several verbosities, for a sample the rst
               formatting) and the summary is projected AGAIN; a second projection that differs from the first is
               judged by the same TLC output / the same StatsTrace clauses (keys get the suffix /after-reading).
names        : every case (both directions, also through the pipeline) is run a second time with its label names, label
               values, test names and task names replaced -- injectively, in rotation -- by strings the implementation
               and its helpers use as keys / attribute names of their own ('index', 'results', 'labels', 'name',
               'status', 'result', 'data', 'OK', 'KO', 'total', '_result', '_test_name', the empty string); judged by
               the same TLC output with the names mapped / by StatsTrace on the real names (keys get /colliding-names
               when the same case on ordinary names does not show the same class).
containers   : every case (both directions, also through the pipeline; one random input in three) is run a third time with its
               environment sections, the collection of sections, the result lists and the label dictionaries built from other
               concrete types with the same content (defaultdict(list) / defaultdict(dict) / OrderedDict / a dict subclass with
               __missing__ / MappingProxyType; tuple / a list subclass; through the pipeline an Env based on a dictionary whose
               sections have these types), in rotation; judged by the same TLC output / by StatsTrace (keys get /container-type
               when the same case on plain dicts and lists does not show the same class).  The keys of every mapping and the lengths
               of every sequence handed in are snapshotted before the evaluation and after the reading: a difference is part of the
               violation text and of the replay detail; the same test is then evaluated a second time on the same inputs and that
               observation is judged too (/second-evaluation); inputs changed with both summaries right is drift.
code -> spec : seeded random bigger inputs (<= 8 tasks, <= 4 results each, 3 label names x 3 values, selections
               of 1-3 labels) are evaluated by the real classes, the projection recorded as JSON and the batch
               validated by TLC against StatsTrace.tla.
"""
import json
import os
import re
import zlib

import tlc
from conf_browser import read_dump_fast

SPEC = os.path.join(tlc.SPECS, 'Stats.tla')
TRACE = os.path.join(tlc.SPECS, 'StatsTrace.tla')
INVS = ['TaskPartition', 'TestPartition', 'ByLabelsSum', 'SelectionOrder', 'SuccessIff', 'VacuousSuccess']
MODULE = 'conf_stats'
CLASSES = {'tasks': 'TestStatsTasks', 'tests': 'TestStatsTests', 'bylabels': 'TestStatsTestsByLabels'}

_STUBS = {}


def stubs():
    """Stub test / result classes (a Test with labels and a TestResult with a fixed verdict)."""
    if not _STUBS:
        from valjean.gavroche.test import Test, TestResult

        class StubResult(TestResult):
            def __init__(self, test, verdict):
                super().__init__(test)
                self.verdict = verdict

            def __bool__(self):
                return self.verdict

        class StubTest(Test):
            def __init__(self, *, name, labels, verdict):
                super().__init__(name=name, description='stub', labels=labels)
                self.verdict = verdict

            def evaluate(self):
                return StubResult(self, self.verdict)

        _STUBS.update(StubTest=StubTest, StubResult=StubResult)
    return _STUBS


# ---------------------------------------------------------------------------------------------
# case = dict(kind, tasks=[dict(name, status, hasResult, results=[dict(name, ok, labels={l: v})])], sel=[l, ...])

def build_task_results(case):
    from valjean.cosette.task import TaskStatus
    st = stubs()
    plan = case.get('containers')
    out = []
    for i, t in enumerate(case['tasks']):
        env = {'status': TaskStatus[t['status']]}
        if t['hasResult']:
            env['result'] = typed_seq(plan['results'][i] if plan else 'list', [
                st['StubTest'](name=r['name'], verdict=bool(r['ok']),
                               labels=typed_map(plan['labels'][i][j] if plan else 'dict', dict(r['labels'], **r.get('reserved', {}))))
                .evaluate() for j, r in enumerate(t['results'])])
        out.append((t['name'], typed_map(plan['sections'][i] if plan else 'dict', env)))
    return typed_seq(plan['outer'] if plan else 'list', out)


# ---------------------------------------------------------------------------------------------
# concrete types of the mappings / sequences handed in
#
# Stats.tla is about the CONTENT of the task environments (which task has which status / which results with which verdict and
# labels): the statement quantifies over "all collections of task environments, all lists of results, label dictionaries", not
# over one concrete Python type.  Every case is therefore ALSO built from other concrete types with the same content, in rotation:
# the environment sections as defaultdict(list) / defaultdict(dict) / OrderedDict / a dict subclass whose __missing__ creates the
# key / a read-only MappingProxyType / dict; the collection of sections as list / tuple (the pipeline hands a tuple); the result
# lists as list / tuple / a list subclass; the label dictionaries like the sections.  Only re-iterable sequences (the documented
# inputs are lists) and types the unchanged implementation's documented operations accept.  The abstract content, and so what
# TLC expects, is the same; the KEYS of every mapping and the lengths of every sequence handed in are snapshotted before the
# evaluation and after the summary has been read (inputs_changed in the observation and in the replay detail); when they changed,
# the summary is evaluated a second time on the same inputs and that observation is judged by TLC too (/second-evaluation).

SECTION_TYPES = ['defaultdict(list)', 'OrderedDict', 'missing-dict', 'dict', 'defaultdict(dict)', 'MappingProxyType']
LABEL_TYPES = ['OrderedDict', 'defaultdict(list)', 'dict', 'missing-dict', 'MappingProxyType', 'defaultdict(dict)']
SEQ_TYPES = ['tuple', 'list', 'list-subclass']
OUTER_TYPES = ['tuple', 'list']
N_CONTAINERS = 36
CONT = '/container-type'
REEVAL = '/second-evaluation'
_TYPES = {}


def _types():
    if not _TYPES:
        class MissingDict(dict):
            """A dict subclass that creates a missing key on lookup (autovivification)."""
            def __missing__(self, key):
                value = self[key] = type(self)()
                return value

            def copy(self):
                return type(self)(self)

        class ResultList(list):
            """A list subclass."""

        _TYPES.update(MissingDict=MissingDict, ResultList=ResultList)
    return _TYPES


def typed_map(kind, content):
    import collections
    import types
    if kind == 'dict':
        return dict(content)
    if kind == 'defaultdict(list)':
        return collections.defaultdict(list, content)
    if kind == 'defaultdict(dict)':
        return collections.defaultdict(dict, content)
    if kind == 'OrderedDict':
        return collections.OrderedDict(content)
    if kind == 'missing-dict':
        return _types()['MissingDict'](content)
    if kind == 'MappingProxyType':
        return types.MappingProxyType(dict(content))
    raise tlc.MachineryError('unknown mapping type %r in a case' % (kind,))


def typed_seq(kind, items):
    if kind == 'list':
        return list(items)
    if kind == 'tuple':
        return tuple(items)
    if kind == 'list-subclass':
        return _types()['ResultList'](items)
    raise tlc.MachineryError('unknown sequence type %r in a case' % (kind,))


def with_containers(case, k):
    """The same case with the k-th assignment of concrete types (rotating over the tasks and the results of a task)."""
    k %= N_CONTAINERS
    plan = dict(outer=OUTER_TYPES[k % len(OUTER_TYPES)],
                sections=[SECTION_TYPES[(k + i) % len(SECTION_TYPES)] for i, _ in enumerate(case['tasks'])],
                results=[SEQ_TYPES[(k // 2 + i) % len(SEQ_TYPES)] for i, _ in enumerate(case['tasks'])],
                labels=[[LABEL_TYPES[(k // 3 + i + j) % len(LABEL_TYPES)] for j, _ in enumerate(t['results'])]
                        for i, t in enumerate(case['tasks'])])
    return dict(case, containers=plan)


def snapshot(pairs):
    """Keys of every mapping and length of every sequence reachable from the (name, section) pairs, read without item lookup
    (keys() / get() / len() create nothing in a defaultdict or a dict with __missing__)."""
    snap = [('the collection of task environments (%s)' % type(pairs).__name__, ['%d items' % len(pairs)])]
    for i, (name, sec) in enumerate(pairs):
        where = 'task %d %r' % (i, name)
        snap.append(('environment section of %s (%s)' % (where, type(sec).__name__), sorted(repr(k) for k in sec.keys())))
        results = sec.get('result')
        if isinstance(results, (list, tuple)):
            snap.append(('result list of %s (%s)' % (where, type(results).__name__), ['%d items' % len(results)]))
            for j, r in enumerate(results):
                labels = getattr(getattr(r, 'test', None), 'labels', None)
                if hasattr(labels, 'keys'):
                    snap.append(('labels of result %d of %s (%s)' % (j, where, type(labels).__name__), sorted(repr(k) for k in labels.keys())))
    return snap


def snapshot_diff(before, after):
    """Readable list of what differs between two snapshots of the inputs (empty: nothing)."""
    bef, aft = dict(before), dict(after)
    out = ['%s: %s -> %s' % (what, ', '.join(keys), ', '.join(aft[what]) if what in aft else 'gone')
           for what, keys in before if aft.get(what) != keys]
    out += ['%s: appeared with %s' % (what, ', '.join(keys)) for what, keys in after if what not in bef]
    return out


def make_test(case, task_results):
    from valjean.gavroche.diagnostics import stats
    if case['kind'] == 'tasks':
        return stats.TestStatsTasks(name='summary', task_results=task_results)
    if case['kind'] == 'tests':
        return stats.TestStatsTests(name='summary', task_results=task_results)
    return stats.TestStatsTestsByLabels(name='summary', task_results=task_results, by_labels=tuple(case['sel']))


def project(case, res):
    """Observable projection of an evaluated summary."""
    obs = dict(raised=False, exc='', error=False, classify=[], success=bool(res), rows=[], missing=0, oracles=[])
    if case['kind'] in ('tasks', 'tests'):
        for status, names in dict(res.classify).items():
            if names:
                obs['classify'].append([status.name, sorted(str(n.name) for n in names)])
        obs['classify'].sort()
    else:
        for row in res.classify:
            # label values are strings (ctx.assume): anything else in a row is shown as a string no label value is equal to
            # (TLC does not compare a string with a number)
            obs['rows'].append(dict(labels=[v if isinstance(v, str) else '<%s %r>' % (type(v).__name__, v) for v in row['labels']],
                                    OK=int(row['OK']), KO=int(row['KO']), total=int(row['total'])))
        obs['oracles'] = [bool(o) for o in res.oracles()]
        obs['missing'] = int(res.nb_missing_labels())
    return obs


def _salt(case):
    return zlib.crc32(json.dumps(case, sort_keys=True).encode())


def look_at(case, res):
    """The public read paths of an evaluated summary (what a report does with it, and what a user may call), none of
    which takes a mutating argument.  Which verbosities are used is a function of the case content (2 of the 6 levels,
    every level over the population of cases).  Returns the list of read paths that raised (rendering problems are not
    C18's business: drift)."""
    from valjean.cosette.task import TaskStatus
    from valjean.gavroche.diagnostics import stats
    from valjean.javert.representation import Representation, TableRepresenter, FullTableRepresenter, PlotRepresenter, FullRepresenter
    from valjean.javert.verbosity import Verbosity
    salt = _salt(case)
    raised = []

    def attempt(name, fn):
        try:
            fn()
        except Exception as ex:   # pylint: disable=broad-except
            raised.append('%s: %s: %s' % (name, type(ex).__name__, str(ex)[:120]))

    def verdict():
        bool(res)
        if res:
            pass
        return not res

    attempt('bool', verdict)
    if case['kind'] in ('tasks', 'tests'):
        first = TaskStatus.DONE if case['kind'] == 'tasks' else stats.TestOutcome.SUCCESS
        attempt('classification_counts', lambda: stats.classification_counts(res.classify, first))
        attempt('classify', lambda: [(k, len(v)) for k, v in res.classify.items()])
    else:
        attempt('oracles', lambda: list(res.oracles()))
        attempt('nb_missing_labels', res.nb_missing_labels)
    levels = list(Verbosity)
    picked = [levels[(salt + k) % len(levels)] for k in (0, 3)]
    for verb in picked:
        attempt('table(%s)' % verb.name, lambda: (FullTableRepresenter if salt & 64 else TableRepresenter)()(res, verb))
        attempt('plot(%s)' % verb.name, lambda: PlotRepresenter()(res, verb))
    if salt % 32 == 0:
        from valjean.javert.rst import Rst
        attempt('rst(%s)' % picked[0].name, lambda: Rst(Representation(FullRepresenter(), verbosity=picked[0])).format_result(res))
    if case['kind'] in ('tasks', 'tests'):
        attempt('classification_counts', lambda: stats.classification_counts(res.classify, first))
    attempt('bool', verdict)
    return raised


OBS_FIELDS = ('raised', 'error', 'classify', 'success', 'rows', 'missing', 'oracles')


def project_twice(case, res):
    """Projection right after the evaluation; then the summary is looked at and projected again: obs['again'] is the
    second projection when it differs from the first one (None when reading changed nothing that is projected)."""
    obs = project(case, res)
    looked = look_at(case, res)
    try:
        again = project(case, res)
    except Exception as ex:   # pylint: disable=broad-except
        again = dict(raised=True, exc='%s: %s' % (type(ex).__name__, ex), error=False, classify=[], success=False, rows=[],
                     missing=0, oracles=[])
    obs['again'] = again if any(again[k] != obs[k] for k in OBS_FIELDS) else None
    obs['read_raised'] = looked
    return obs


def _failed(ex):
    from valjean.gavroche.diagnostics.stats import TestStatsTestsByLabelsException
    if isinstance(ex, TestStatsTestsByLabelsException):
        return dict(raised=False, exc=str(ex), error=True, classify=[], success=False, rows=[], missing=0, oracles=[])
    return dict(raised=True, exc='%s: %s' % (type(ex).__name__, ex), error=False, classify=[], success=False, rows=[],
                missing=0, oracles=[])


def _snapshot(pairs):
    try:
        return snapshot(pairs)
    except Exception as ex:   # pylint: disable=broad-except
        return [('snapshot of the inputs', ['%s: %s' % (type(ex).__name__, ex)])]


def observe(case):
    task_results = build_task_results(case)
    before = _snapshot(task_results)
    test = None
    try:
        test = make_test(case, task_results)
        res = test.evaluate()
        obs = project_twice(case, res)
    except Exception as ex:   # pylint: disable=broad-except
        obs = _failed(ex)
    # the inputs after the summary has been evaluated and read: an inserted / removed key, a longer / shorter sequence
    obs['inputs_changed'] = snapshot_diff(before, _snapshot(task_results))
    obs['reeval'] = None
    if obs['inputs_changed'] and test is not None:
        # the summary changed what it was given: the same test object, evaluated again on the same inputs, is judged like the first
        try:
            second = project(case, test.evaluate())
        except Exception as ex:   # pylint: disable=broad-except
            second = _failed(ex)
        if any(second[k] != obs[k] for k in OBS_FIELDS):
            obs['reeval'] = second
    return obs


def observe_pipeline(case):
    """The same summary through task_stats / test_stats / test_stats_by_labels and the task machinery."""
    from valjean.cosette.pythontask import PythonTask
    from valjean.cosette.task import TaskStatus
    from valjean.cosette.env import Env
    from valjean.cosette.use import Use
    from valjean.config import Config
    from valjean.gavroche.diagnostics import stats
    from valjean.gavroche.test import TestResultFailed
    st = stubs()
    Use._CACHE.clear() if hasattr(Use, '_CACHE') else None   # pylint: disable=protected-access,expression-not-assigned
    plan = case.get('containers')
    tasks = []
    for i, t in enumerate(case['tasks']):
        def body(t=t, i=i):
            upd = {}
            if t['hasResult']:
                upd['result'] = typed_seq(plan['results'][i] if plan else 'list', [
                    st['StubTest'](name=r['name'], verdict=bool(r['ok']),
                                   labels=typed_map(plan['labels'][i][j] if plan else 'dict', dict(r['labels']))).evaluate()
                    for j, r in enumerate(t['results'])])
            return {t['name']: upd}, TaskStatus[t['status']]
        tasks.append(PythonTask(t['name'], body))
    uniq = 'summary%d' % observe_pipeline.counter
    observe_pipeline.counter += 1
    if case['kind'] == 'tasks':
        final = stats.task_stats(name=uniq, tasks=tasks)
    elif case['kind'] == 'tests':
        final = stats.test_stats(name=uniq, tasks=tasks)
    else:
        final = stats.test_stats_by_labels(name=uniq, tasks=tasks, by_labels=tuple(case['sel']))
    create = next(iter(final.depends_on))
    if plan:
        # an environment based on an existing dictionary (Env(dictionary)) whose sections are of the planned types: the tasks'
        # updates are merged into them (a section has to be mutable here: the read-only type is replaced by a dict)
        env = Env(typed_map('OrderedDict' if plan['outer'] == 'tuple' else 'dict',
                            {t['name']: typed_map('dict' if kind == 'MappingProxyType' else kind, {})
                             for t, kind in zip(case['tasks'], plan['sections'])}))
    else:
        env = Env()
    config = Config()
    for task in tasks:
        env_up, status = task.do(env=env, config=config)
        env.set_status(task, status)
        env.apply(env_up)
    sections = [(t['name'], env[t['name']]) for t in case['tasks']]
    before = _snapshot(sections)
    for task in [create, final]:
        env_up, status = task.do(env=env, config=config)
        env.set_status(task, status)
        env.apply(env_up)
    res = env[final.name]['result'][0]
    if isinstance(res, TestResultFailed):
        if 'TestStatsTestsByLabels' in str(res.msg) and 'not found in test labels' in str(res.msg):
            obs = dict(raised=False, exc=str(res.msg), error=True, classify=[], success=False, rows=[], missing=0, oracles=[])
        else:
            obs = dict(raised=True, exc=str(res.msg)[-300:], error=False, classify=[], success=False, rows=[], missing=0, oracles=[])
    else:
        obs = project_twice(case, res)
    obs['inputs_changed'] = snapshot_diff(before, _snapshot(sections))
    obs['reeval'] = None
    return obs


observe_pipeline.counter = 0


# ---------------------------------------------------------------------------------------------

def case_of_state(st):
    tasks = []
    for t in st['tasks']:
        tasks.append(dict(name=t['name'], status=t['status'], hasResult=bool(t['hasResult']),
                          results=[dict(name=r['name'], ok=bool(r['ok']), labels=dict(r['labels']) if isinstance(r['labels'], dict) else {})
                                   for r in t['results']]))
    return dict(kind=st['kind'], tasks=tasks, sel=list(st['sel']))


def expected_of_state(st):
    out = st['out']
    exp = dict(raised=False, error=False, classify=[], success=bool(out['success']), rows=[], missing=0, oracles=[])
    if st['kind'] in ('tasks', 'tests'):
        exp['classify'] = sorted([k, sorted(v)] for k, v in out['classify'].items() if v)
    else:
        exp['error'] = bool(out['error'])
        exp['rows'] = sorted((dict(labels=list(r['labels']), OK=r['OK'], KO=r['KO'], total=r['total']) for r in out['rows']),
                             key=lambda r: r['labels'])
        exp['missing'] = out['missing']
        exp['oracles'] = [r['OK'] == r['total'] for r in exp['rows']]
    return exp


def is_empty(case):
    return not case['tasks']


def compare(case, exp, obs):
    """None or (key, text).  Rows are compared as a set (their order is presentation)."""
    cls = CLASSES[case['kind']]
    if obs['raised']:
        return 'C18/raises-%s/%s' % (obs['exc'].split(':')[0], cls), 'evaluation raised %s' % obs['exc']
    if case['kind'] in ('tasks', 'tests'):
        if exp['classify'] != obs['classify']:
            return 'C18/classification/%s' % cls, 'classify is %r, Stats.tla expects %r' % (obs['classify'], exp['classify'])
    else:
        if exp['error'] != obs['error']:
            return None if exp['error'] else ('C18/unexpected-label-error/%s' % cls, 'raised %s' % obs['exc'])
        if exp['error']:
            return None
        if sorted(obs['rows'], key=lambda r: r['labels']) != exp['rows']:
            return 'C18/rows/%s' % cls, 'rows are %r, Stats.tla expects %r' % (obs['rows'], exp['rows'])
        if obs['missing'] != exp['missing']:
            return 'C18/missing-count/%s' % cls, 'nb_missing_labels() is %r, Stats.tla expects %r' % (obs['missing'], exp['missing'])
        if obs['oracles'] != [r['OK'] == r['total'] for r in obs['rows']]:
            return 'C18/oracles/%s' % cls, 'oracles() is %r for rows %r' % (obs['oracles'], obs['rows'])
    if exp['success'] != obs['success']:
        if is_empty(case):
            return ('C18/empty-summary-reports-failure/%s' % cls,
                    'bool(summary over nothing) is %r, Stats.tla expects %r (vacuous truth)' % (obs['success'], exp['success']))
        return 'C18/verdict/%s' % cls, 'bool(summary) is %r, Stats.tla expects %r' % (obs['success'], exp['success'])
    return None


def lenient_error(case, exp, obs):
    """The documented exception for a label nobody carries: a deviation (rows instead of the exception) is drift."""
    return case['kind'] == 'bylabels' and exp['error'] and not obs['error'] and not obs['raised']


# ---------------------------------------------------------------------------------------------
# names that collide with something
#
# Stats.tla never looks inside a name (label names, label values, test names, task names are compared for equality only),
# so a summary must not depend on how they are spelled.  The implementation and its helpers, however, use strings of
# their own as dictionary keys / attribute names (the rows are dictionaries with the keys 'labels', 'OK', 'KO', 'total';
# the label dictionaries are indexed together with '_result' and '_test_name'; an index / a browser has 'index', 'results',
# 'data'; an environment section has 'status' and 'result'; ...).  Every case is therefore ALSO run with its names replaced,
# injectively inside each name space, by such strings -- in rotation; the names TLC used are mapped the same way in its
# output, the replay file holds the real names and is judged by TLC (StatsTrace) on them.

COLLIDING = ['index', 'results', 'labels', 'name', 'status', 'result', '_result', '_test_name', 'data', 'OK', 'KO', 'total', '']
COLLIDING_LNAMES = [n for n in COLLIDING if n not in ('_result', '_test_name')]     # reserved as label NAMES (ctx.assume)
MODEL_NAMES = dict(L=['day', 'meal', 'code', 'nolabel'], V=['x', 'y', 'z'], R=['ra', 'rb'], T=['ta', 'tb', 'tc'])
N_RENAMINGS = 2 * len(COLLIDING)
COLL = '/colliding-names'


def renaming(k):
    """The k-th renaming: one injective map per name space (L label names, V label values, R test names, T task names).
    Even k: the name spaces start at different places of the list; odd k: at the same place (a label called like its value,
    like the test and like the task)."""
    k %= N_RENAMINGS
    start, same = k // 2, k % 2
    rho = {}
    for j, (space, names) in enumerate(sorted(MODEL_NAMES.items())):
        pool = COLLIDING_LNAMES if space == 'L' else COLLIDING
        off = start if same else start + 4 * j
        rho[space] = {n: pool[(off + i) % len(pool)] for i, n in enumerate(names)}
    return rho


def rename_case(case, k):
    rho = renaming(k)
    ren = lambda space, n: rho[space].get(n, n)     # noqa: E731
    tasks = []
    for t in case['tasks']:
        results = []
        for r in t['results']:
            new = dict(name=ren('R', r['name']), ok=r['ok'], labels={ren('L', l): ren('V', v) for l, v in r['labels'].items()})
            if 'reserved' in r:
                new['reserved'] = r['reserved']
            results.append(new)
        tasks.append(dict(name=ren('T', t['name']), status=t['status'], hasResult=t['hasResult'], results=results))
    return dict(kind=case['kind'], tasks=tasks, sel=[ren('L', l) for l in case['sel']], names='renaming %d' % (k % N_RENAMINGS))


def rename_expected(case, exp, k):
    """TLC's output for `case` with the names mapped as rename_case(case, k) maps them."""
    rho = renaming(k)
    out = dict(exp)
    if case['kind'] in ('tasks', 'tests'):
        out['classify'] = sorted([cls, sorted(rho['T' if case['kind'] == 'tasks' or cls == 'MISSING' else 'R'].get(n, n) for n in names)]
                                 for cls, names in exp['classify'])
    else:
        out['rows'] = sorted((dict(r, labels=[rho['V'].get(v, v) for v in r['labels']]) for r in exp['rows']), key=lambda r: r['labels'])
        out['oracles'] = [r['OK'] == r['total'] for r in out['rows']]
    return out


# ---------------------------------------------------------------------------------------------
# code -> spec

def to_trace_case(cid, case, obs):
    return dict(id=cid, kind=case['kind'], sel=case['sel'],
                tasks=[dict(name=t['name'], status=t['status'], hasResult=t['hasResult'],
                            results=[dict(name=r['name'], ok=r['ok'], labels=sorted([k, v] for k, v in r['labels'].items()))
                                     for r in t['results']]) for t in case['tasks']],
                obs=dict(raised=obs['raised'], error=obs['error'], classify=obs['classify'], success=obs['success'],
                         rows=obs['rows'], missing=obs['missing'], oracles=obs['oracles']))


def validate_batch(cases, wd, name='trace', invariants=INVS):
    tn, rn = set(), set()
    for c in cases:
        for t in c['tasks']:
            tn.add(t['name'])
            rn.update(r['name'] for r in t['results'])
    cj = tlc.json_dump(os.path.join(wd, name + '_cases.json'), cases)
    oj = os.path.join(wd, name + '_out.json')
    cfg = tlc.write_cfg(os.path.join(wd, name + '.cfg'), spec='TSpec', constants=dict(TNames=frozenset(tn), RNames=frozenset(rn)),
                        invariants=invariants, deadlock=False, postcondition='Post')
    res = tlc.run(TRACE, cfg, workers=1, env=dict(VERIF_CASES=cj, VERIF_OUT=oj), timeout=1800, coverage=False)
    if not res.ok:
        raise tlc.MachineryError('StatsTrace %s: %s\n%s' % (name, res.violation, res.out[-2500:]))
    with open(oj) as f:
        bad = json.load(f)['bad']
    return res, bad


def trace_key(case, obs, clauses):
    cls = CLASSES[case['kind']]
    if 'raised' in clauses:
        return 'C18/raises-%s/%s' % (obs['exc'].split(':')[0], cls)
    if 'error' in clauses:
        return 'C18/unexpected-label-error/%s' % cls if obs['error'] else None    # rows instead of the documented error: drift
    for clause, name in (('classify', 'classification'), ('unknown-class', 'classification'), ('rows', 'rows'),
                         ('missing', 'missing-count'), ('oracles', 'oracles')):
        if clause in clauses:
            return 'C18/%s/%s' % (name, cls)
    if 'success' in clauses:
        return ('C18/empty-summary-reports-failure/%s' if is_empty(case) else 'C18/verdict/%s') % cls
    return 'C18/%s/%s' % ('+'.join(sorted(clauses)), cls)


TWIN = 10 ** 6
ALT = 5 * 10 ** 5        # id offset of the colliding-names variant of a random input
CONT_OFF = 2 * 10 ** 5   # id offset of the container-type variant of a random input
REEV = 5 * 10 ** 4       # id offset of the observation of the second evaluation (inputs changed by the first); sign: after reading


def decode_id(tid):
    """(number of the random input, variant suffix, projected after reading, second evaluation)"""
    a = abs(tid)
    variant = COLL if a >= ALT else CONT if a >= CONT_OFF else ''
    a %= 10 ** 5
    return a % REEV, variant, tid < 0, a >= REEV


def corrupted_twins(batch):
    """Copies of recorded cases with one recorded field corrupted."""
    import copy
    twins = {}
    for c in batch:
        o = c['obs']
        if c['kind'] == 'bylabels' and o['rows'] and not o['error'] and TWIN + 1 not in twins:
            t = copy.deepcopy(c)
            t['id'] = TWIN + 1
            t['obs']['rows'][0]['OK'] += 1                       # one result counted twice
            twins[TWIN + 1] = t
        if c['kind'] == 'bylabels' and o['rows'] and not o['error'] and o['missing'] > 0 and TWIN + 2 not in twins:
            t = copy.deepcopy(c)
            t['id'] = TWIN + 2
            t['obs']['missing'] -= 1
            twins[TWIN + 2] = t
        if c['kind'] in ('tasks', 'tests') and o['classify'] and len(o['classify'][0][1]) >= 2 and TWIN + 3 not in twins:
            t = copy.deepcopy(c)
            t['id'] = TWIN + 3
            del t['obs']['classify'][0][1][0]                    # one name dropped from its class
            twins[TWIN + 3] = t
        if c['kind'] in ('tasks', 'tests') and c['tasks'] and TWIN + 4 not in twins:
            t = copy.deepcopy(c)
            t['id'] = TWIN + 4
            t['obs']['success'] = not t['obs']['success']        # verdict flipped
            twins[TWIN + 4] = t
        if len(twins) == 4:
            break
    return twins


AFTER = '/after-reading'


def replay_case(case):
    """Re-run a recorded input on the implementation (evaluate, project, read the summary through its public read paths,
    project again) and let TLC (StatsTrace) judge the observation(s)."""
    obs = observe(case)
    wd = tlc.workdir('c18r')
    batch = [to_trace_case(1, case, obs)]
    if obs.get('again') is not None:
        batch.append(to_trace_case(-1, case, obs['again']))
    if obs.get('reeval') is not None:
        batch.append(to_trace_case(2, case, obs['reeval']))
    _, bad = validate_batch(batch, wd, 'replay')
    inputs = ('; inputs changed by evaluating / reading the summary: %s' % '; '.join(obs['inputs_changed']) if obs.get('inputs_changed')
              else '; the keys / lengths of the inputs are unchanged')
    if case.get('containers'):
        inputs += '; inputs handed in as %s' % json.dumps(case['containers'], sort_keys=True)
    for cid, o, when in ((1, obs, 'right after the evaluation'), (-1, obs.get('again'), 'after the summary has been read'),
                         (2, obs.get('reeval'), 'on a second evaluation of the same test on the same inputs (the first one changed them)')):
        clauses = set(b[1] for b in bad if b[0] == cid)
        if clauses and trace_key(case, o, clauses) is not None:
            return False, 'StatsTrace rejects the observation made %s, clauses %s; observed %r%s' % (when, sorted(clauses), _short(o), inputs)
    return True, 'observation%s accepted by StatsTrace: %r%s' % (' (and the %d different one(s) made after reading the summary / on a second '
                                                                 'evaluation)' % (len(batch) - 1) if len(batch) > 1 else '', _short(obs), inputs)


def _short(obs):
    return {k: obs[k] for k in OBS_FIELDS + ('exc',) if k in obs}


# ---------------------------------------------------------------------------------------------

def _consts(**kw):
    d = dict(Kinds=frozenset(['tasks']), MaxTasks=3, MaxRes=1, TNames=frozenset(['ta', 'tb']), RNames=frozenset(['ra']),
             Statuses=frozenset(['WAITING', 'PENDING', 'DONE', 'FAILED', 'SKIPPED']), LNames=frozenset(), LVals=frozenset(),
             XLNames=frozenset(), MaxSel=1)
    d.update({k: (frozenset(v) if isinstance(v, (list, set)) else v) for k, v in kw.items()})
    return d


L2 = dict(LNames=['day', 'meal'], LVals=['x', 'y'], XLNames=['nolabel'], MaxSel=2)


def configs(ctx):
    if ctx.quick:
        return [('tasks', _consts(MaxTasks=3)),
                ('tests', _consts(Kinds=['tests'], MaxTasks=2, MaxRes=2, RNames=['ra', 'rb'])),
                ('bylabels-1x2', _consts(Kinds=['bylabels'], MaxTasks=1, MaxRes=2, TNames=['ta'], **L2)),
                ('bylabels-2x1', _consts(Kinds=['bylabels'], MaxTasks=2, MaxRes=1, TNames=['ta'], **L2))]
    return [('tasks', _consts(MaxTasks=4)),
            ('tests', _consts(Kinds=['tests'], MaxTasks=3, MaxRes=2, RNames=['ra', 'rb'])),
            ('tests-4', _consts(Kinds=['tests'], MaxTasks=4, MaxRes=2, TNames=['ta'], RNames=['ra'])),
            ('bylabels-1x3', _consts(Kinds=['bylabels'], MaxTasks=1, MaxRes=3, TNames=['ta'], **L2)),
            ('bylabels-3x1', _consts(Kinds=['bylabels'], MaxTasks=3, MaxRes=1, TNames=['ta'], **L2)),
            ('bylabels-2x2', _consts(Kinds=['bylabels'], MaxTasks=2, MaxRes=2, TNames=['ta'], LNames=['day', 'meal'], LVals=['x'],
                                     XLNames=[], MaxSel=2))]


WITNESSES = [(_consts(MaxTasks=3), ['W_MixedStatuses', 'W_RepeatedName']),
             (_consts(Kinds=['tests'], MaxTasks=3, MaxRes=1, TNames=['ta']), ['W_MissingAndFailure', 'W_OnlyMissingFails']),
             (_consts(Kinds=['bylabels'], MaxTasks=1, MaxRes=2, TNames=['ta'], **L2),
              ['W_MissingLabels', 'W_TwoLabelRow', 'W_UnknownLabel', 'W_FailureOutsideRows'])]


def _nontrivial(case, exp):
    if case['kind'] == 'bylabels':
        return bool(exp['rows'])
    return len(exp['classify']) >= 2 or any(len(v) >= 2 for _, v in exp['classify'])


def random_case(rng):
    kind = rng.choice(['tasks', 'tests', 'bylabels', 'bylabels'])
    lnames = ['day', 'meal', 'code']
    lvals = ['x', 'y', 'z']
    nt = rng.choice([0, 1, 2, 3, 5, 8])
    tasks = []
    for k in range(nt):
        name = rng.choice(['ta', 'tb', 'tc', 'task%d' % k])
        if kind == 'tasks':
            tasks.append(dict(name=name, status=rng.choice(['DONE'] * 4 + ['WAITING', 'PENDING', 'FAILED', 'SKIPPED']), hasResult=False, results=[]))
            continue
        has = rng.random() < 0.8
        results = []
        if has:
            pres = rng.choice([0.4, 0.7, 1.0])
            for j in range(rng.randint(1, 4)):
                labels = {l: rng.choice(lvals) for l in lnames if rng.random() < pres} if kind == 'bylabels' else {}
                res = dict(name=rng.choice(['ra', 'rb', 'res%d_%d' % (k, j)]), ok=rng.random() < 0.7, labels=labels)
                if kind == 'bylabels' and rng.random() < 0.12:
                    # a user label with one of the two names the class reserves (it warns that they will be replaced):
                    # the result must still be counted once, under its own verdict
                    res['reserved'] = {rng.choice(['_result', '_result', '_test_name']): rng.choice([0, 1, True, False, 'x'])}
                results.append(res)
        tasks.append(dict(name=name, status='DONE', hasResult=has, results=results))
    sel = []
    if kind == 'bylabels':
        pool = lnames + (['nolabel'] if rng.random() < 0.1 else [])
        sel = rng.sample(pool, rng.randint(1, 3))
    return dict(kind=kind, tasks=tasks, sel=sel)


def note_read_raised(ctx, case, obs, seen):
    """A read path that raises is a rendering problem, not a counting one: not reported here (no alarm, no drift line), only
    counted per (summary, read path, exception) for the evidence."""
    for text in obs.get('read_raised') or ():
        name, exc = text.split(': ')[:2]
        tag = '%s %s %s' % (CLASSES[case['kind']], re.sub(r'\(.*', '', name), exc)
        seen[tag] = seen.get(tag, 0) + 1


def run_c18(ctx):
    ctx.rule('spec->code: every evaluated state dumped by TLC for Stats.tla (task summary: <= 4 task environments x 5 statuses x '
             'repeatable names; test summary: <= 3-4 tasks without results or with 1-2 results x verdict x repeatable names; per-label '
             'summary: <= 3 results spread over <= 3 tasks x verdict x 2 label names x 2 values x absent, selections of 1-2 labels in '
             'both orders plus a label nobody carries) is evaluated by the real TestStatsTasks / TestStatsTests / '
             'TestStatsTestsByLabels on stub results; one state in seven (content hash) with distinct task names also runs through task_stats / '
             'test_stats / test_stats_by_labels + Use + EvalTestTask on an Env.  code->spec: seeded random bigger inputs validated '
             'by TLC against StatsTrace.tla.  names: every dumped state and one random input in three is evaluated a second time with label names / '
             'label values / test names / task names replaced injectively (26 renamings in rotation) by the 13 strings the implementation uses '
             'as keys or attribute names itself (index, results, labels, name, status, result, data, OK, KO, total, _result, _test_name, empty string).  read again: every summary (both directions, also through the pipeline) is then read through its public '
             'read paths (bool, classification_counts / oracles / nb_missing_labels, table and plot representers at 2 of the 6 verbosities chosen '
             'by the content hash, rst formatting for one in 32) and projected a second time; a second projection that differs is judged by the '
             'same TLC output / StatsTrace clauses.  distinct_nontrivial counts inputs whose summary has two non-empty classes, a class of '
             'two, or at least one label row.')
    ctx.assume("results are TestResult objects; a task either has no 'result' key or a non-empty list; labels '_result' and "
               "'_test_name' are reserved; label values are strings; selections are non-empty and repetition-free")
    ctx.assume('names inside a class and rows of the per-label summary are compared as bags / sets (their order is presentation); '
               'a requested label carried by no result is the documented TestStatsTestsByLabelsException (deviation = drift)')
    ctx.rule('containers: every dumped state (direct and pipeline) and one random input in three is evaluated a third time with the environment '
             'sections / the collection of sections / the result lists / the label dictionaries built from other concrete types with the same '
             'content (36 assignments in rotation over defaultdict(list), defaultdict(dict), OrderedDict, a dict subclass with __missing__, '
             'MappingProxyType, dict; tuple, list, a list subclass; through the pipeline an Env based on a dictionary with such sections); keys of '
             'the mappings and lengths of the sequences handed in are snapshotted before the evaluation and after the reading, and when they '
             'differ the same test is evaluated a second time on the same inputs and judged as well.')
    ctx.assume('Stats.tla is about the content of the task environments, not their Python type: the output TLC computed for a state is the output '
               'for the state built from any mapping / re-iterable sequence type with that content (only types the documented operations of the '
               'unchanged implementation accept: no one-shot iterators, the documented inputs being lists); a summary that changes its inputs but '
               'is right on the first and on a second evaluation is outside the statement (drift)')
    ctx.assume('Stats.tla compares names (labels, label values, test and task names) for equality only: the output TLC computed for a state is, '
               'with the names mapped injectively, the output for the state with the names mapped (the renamed variants of the dumped states are '
               'judged that way; those of the random inputs, and every replay, by TLC itself on the real names)')
    wd = tlc.workdir('c18')
    n_eval = n_pipe = n_states = n_again = n_changed = 0
    seen_raised = {}
    drifted = {}

    def drift_once(cls, text, limit=2):
        drifted[cls] = drifted.get(cls, 0) + 1
        if drifted[cls] <= limit:
            ctx.drift(text)

    variant_text = {'': '', COLL: 'with names that are keys / attribute names the implementation uses itself: ',
                    CONT: 'with the task environments / result lists / label dictionaries handed in as other concrete types (see containers '
                          'in the case): '}

    def judge_one(case, exp, how, fn, suffix='', already=()):
        """Evaluate the case the `how` way and compare the projections with what TLC computed; returns the keys of the finding
        classes seen.  A class listed in `already` (the same state on ordinary names / plain dicts and lists) is not reported a
        second time."""
        nonlocal n_eval, n_pipe, n_again, n_changed
        obs = fn(case)
        n_eval += 1
        n_pipe += how == 'pipeline'
        keys = []
        pre = ('through the task pipeline: ' if how == 'pipeline' else '') + variant_text[suffix]
        changed = ('; inputs changed by evaluating / reading the summary: ' + '; '.join(obs['inputs_changed'])) if obs.get('inputs_changed') else ''
        n_changed += bool(changed)
        if lenient_error(case, exp, obs):
            drift_once('lenient' + suffix, '%s: label nobody carries did not raise the documented exception: %r' % (how, case))
            return keys
        diff = compare(case, exp, obs)
        if diff:
            keys.append(diff[0])
            if diff[0] not in already:
                ctx.violation(diff[0] + suffix, pre + diff[1] + changed, case, module=MODULE)
        note_read_raised(ctx, case, obs, seen_raised)
        diff2 = None
        if obs.get('again') is not None:
            # the summary no longer projects to what it projected right after the evaluation: judged by the same TLC output
            n_again += 1
            diff2 = compare(case, exp, obs['again'])
            if diff2 and (diff is None or diff2[0] != diff[0]):
                keys.append(diff2[0] + AFTER)
                if diff2[0] + AFTER not in already:
                    ctx.violation(diff2[0] + suffix + AFTER, pre + 'after the summary has been read (bool, counts, table / plot '
                                  'representations): ' + diff2[1] + changed, case, module=MODULE)
        if obs.get('reeval') is not None:
            # the first evaluation changed its inputs and a second evaluation of the same test sees something else: same TLC output
            diff3 = compare(case, exp, obs['reeval'])
            if diff3 and diff3[0] not in (diff and diff[0], diff2 and diff2[0]):
                keys.append(diff3[0] + REEVAL)
                if diff3[0] + REEVAL not in already:
                    ctx.violation(diff3[0] + suffix + REEVAL, pre + 'on a second evaluation of the same test on the same inputs: ' + diff3[1]
                                  + changed, case, module=MODULE)
        if changed and not keys:
            # the classification is right both times: that the inputs are modified is outside the statement
            drift_once('inputs-changed/' + CLASSES[case['kind']], '%s%s: the summary is as Stats.tla expects%s: %r'
                       % (pre, CLASSES[case['kind']], changed, case), limit=1)
        return keys

    for name, consts in configs(ctx):
        cfg = tlc.write_cfg(os.path.join(wd, name + '.cfg'), constants=consts, invariants=INVS, deadlock=False)
        dump = os.path.join(wd, name)
        res = tlc.run(SPEC, cfg, dump=dump, timeout=1500)
        ctx.tlc(res, 'Stats/' + name)
        if not res.ok:
            raise tlc.MachineryError('Stats.tla %s: %s\n%s' % (name, res.violation, res.out[-1500:]))
        tlc.check_coverage(res, ['Eval'], 'Stats/' + name)
        for st in read_dump_fast(dump):
            if st['pc'] != 'done':
                continue
            n_states += 1
            case = case_of_state(st)
            exp = expected_of_state(st)
            runs = [('direct', observe)]
            names = [t['name'] for t in case['tasks']]
            crc = zlib.crc32(json.dumps(case, sort_keys=True).encode())     # TLC's dump order is not deterministic
            if crc % 7 == 0 and len(set(names)) == len(names):
                runs.append(('pipeline', observe_pipeline))
            for how, fn in runs:
                found = judge_one(case, exp, how, fn)
                # the same state with names that collide with keys the implementation uses itself (rotation over the renamings)
                k = crc % N_RENAMINGS
                judge_one(rename_case(case, k), rename_expected(case, exp, k), how, fn, COLL, found)
                # the same state built from other concrete mapping / sequence types (rotation); TLC's output is about the content
                judge_one(with_containers(case, crc // N_RENAMINGS), exp, how, fn, CONT, found)
            if _nontrivial(case, exp):
                ctx.distinct((name, crc))
            if crc % 2999 == 1:
                ctx.sample(dict(config=name, case=case, expected=exp))
        os.remove(dump + '.dump')
    for k, (consts, wits) in enumerate(WITNESSES):
        cfg = tlc.write_cfg(os.path.join(wd, 'wit%d.cfg' % k), constants=consts, invariants=wits, deadlock=False)
        res = tlc.run(SPEC, cfg, coverage=False, continue_=True)
        hit = set(re.findall(r'Error: Invariant (\S+) is violated', res.out))
        if set(wits) - hit:
            raise tlc.MachineryError('witnesses not reachable in Stats.tla: %s' % sorted(set(wits) - hit))
    ctx.count(evaluations=n_eval, traces=n_eval)

    # code -> spec
    rng = ctx.rng
    n_random = ctx.pick(3000, 40000)
    batch, byid = [], {}
    if n_random >= REEV:
        raise tlc.MachineryError('id scheme of the random inputs: n_random must stay below %d' % REEV)
    for cid in range(1, n_random + 1):
        plain = random_case(rng)
        # one input in three also with names that collide with keys the implementation uses itself (id cid + ALT), another one in
        # three also built from other concrete mapping / sequence types (id cid + CONT_OFF)
        variants = [(cid, plain)]
        if cid % 3 == 0:
            variants.append((cid + ALT, rename_case(plain, cid // 3)))
        elif cid % 3 == 1:
            variants.append((cid + CONT_OFF, with_containers(plain, cid // 3)))
        for tid, case in variants:
            obs = observe(case)
            byid[tid] = (case, obs)
            batch.append(to_trace_case(tid, case, obs))
            note_read_raised(ctx, case, obs, seen_raised)
            n_changed += bool(obs['inputs_changed'])
            if obs.get('again') is not None:
                # second, different projection of the same summary: the same input with id -tid
                n_again += 1
                byid[-tid] = (case, obs['again'])
                batch.append(to_trace_case(-tid, case, obs['again']))
            if obs.get('reeval') is not None:
                # the inputs were changed and a second evaluation of the same test observes something else: id tid + REEV
                byid[tid + REEV] = (case, obs['reeval'])
                batch.append(to_trace_case(tid + REEV, case, obs['reeval']))
    rejected = 0
    # binding self-test: corrupted twins of recorded observations ride along in the first batch and must be rejected
    twins = corrupted_twins(batch)
    if len(twins) < 3:
        raise tlc.MachineryError('no recorded observation suitable for the corrupted-trace self-test')
    chunk = 10000
    clauses = {}
    for k in range(0, len(batch), chunk):
        res, bad = validate_batch(batch[k:k + chunk] + (list(twins.values()) if k == 0 else []), wd, 'trace%d' % (k // chunk))
        ctx.tlc(res, 'StatsTrace/%d' % (k // chunk))
        if k == 0:
            missed = set(twins) - {b[0] for b in bad}
            if missed:
                raise tlc.MachineryError('StatsTrace accepts corrupted observations %s' % sorted(missed))
        for cid, clause in bad:
            if cid < TWIN:
                clauses.setdefault(cid, set()).add(clause)

    def tkey(tid):
        return trace_key(byid[tid][0], byid[tid][1], clauses[tid]) if tid in clauses else None

    offset = {'': 0, COLL: ALT, CONT: CONT_OFF}

    def keys_of(num, variant):
        """finding classes of the three observations (first, after reading, second evaluation) of one variant of one input"""
        first = num + offset[variant]
        return [tkey(first), tkey(-first), tkey(first + REEV)]

    for cid in sorted(clauses, key=lambda tid: (decode_id(tid)[0], offset[decode_id(tid)[1]], decode_id(tid)[3], decode_id(tid)[2])):
        case, obs = byid[cid]
        key = tkey(cid)
        num, variant, again, second = decode_id(cid)
        if key is None:
            drift_once('lenient-random', 'label nobody carries did not raise the documented exception: %r' % (case,))
            continue
        own = keys_of(num, variant)
        if (again and own[0] == key) or (second and key in own[:2]):
            continue                   # already reported for the projection made right after the first evaluation / after reading
        if variant and key in keys_of(num, ''):
            continue                   # the same class on the same input with ordinary names / plain dicts and lists
        rejected += 1
        changed = byid[num + offset[variant]][1].get('inputs_changed')
        ctx.violation(key + variant + (AFTER if again else '') + (REEVAL if second else ''),
                      'StatsTrace rejects the observation%s%s%s, clauses %s; observed %r%s'
                      % (' of the input ' + variant_text[variant].rstrip(': ') if variant else '',
                         ' made after the summary has been read (bool, counts, table / plot representations)' if again else '',
                         ' made on a second evaluation of the same test on the same inputs' if second else '',
                         sorted(clauses[cid]), _short(obs),
                         '; inputs changed by evaluating / reading the summary: ' + '; '.join(changed) if changed else ''), case, module=MODULE)
    # inputs changed although every observation is accepted: outside the statement
    for tid in sorted(t for t in byid if t > 0 and decode_id(t)[3] is False):
        num, variant, _, _ = decode_id(tid)
        case, obs = byid[tid]
        if obs.get('inputs_changed') and not any(keys_of(num, variant)):
            drift_once('inputs-changed/' + CLASSES[case['kind']], '%s%s: the summary is accepted by StatsTrace; inputs changed by evaluating / '
                       'reading the summary: %s: %r' % (variant_text[variant], CLASSES[case['kind']], '; '.join(obs['inputs_changed']), case), limit=1)
    ctx.count(evaluations=len(batch), traces=len(batch))
    for cid in [c for c in byid if c > 0][:2]:
        ctx.sample(dict(source='random', case=byid[cid][0], observed=_short(byid[cid][1])))
    ctx.cov['exhaustive'] = True
    ctx.cov['explanation'] = ('exhaustive for the TLC configurations listed in tlc_runs (%d evaluated states, %d of them also through '
                              'the task pipeline); random beyond them (%d inputs, %d rejected by TLC); every summary read again through its '
                              'public read paths and projected a second time (%d second projections differed and were judged too); every '
                              'dumped state and one random input in three also built from other concrete mapping / sequence types; keys / '
                              'lengths of the inputs snapshotted before and after (%d evaluations changed them)'
                              % (n_states, n_pipe, n_random, rejected, n_again, n_changed))
    if seen_raised:
        ctx.cov['explanation'] += ('; read paths that raised (rendering, outside C18, the summary is projected again all the same): %s'
                                   % ', '.join('%s x%d' % kv for kv in sorted(seen_raised.items())))
    # extra module: the non-statistical comparison tests and the metadata test (Equal.tla, observations only, see conf_equal.py)
    import conf_equal
    ctx.extra('Equal', conf_equal.run, tlc.workdir('c18equal'))


