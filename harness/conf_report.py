"""C20 -- a written report contains every section and every result exactly once: binding of
specs/ReportTree.tla to valjean.javert.rst (Rst.format_report / FormattedRst.write).

spec -> code : TLC enumerates report trees (shape in pre-order encoding x titles from the alphabet incl.
               reserved and unusable names x result pattern); the state machine of ReportTree.tla (check,
               set-up, pages, figures) is model-checked against the clauses of the property.  Every
               enumerated tree is built as a real TestReport with real test results, formatted and written
               into a scratch directory whose parent is watched; the projection of the disk (pages with
               headers / section texts / anchors / toctree entries / image targets, figures, files outside)
               is judged by TLC (ReportTreeTrace.tla evaluates the clauses of ReportTree.tla) and, for trees
               the model writes, compared with the final disk of the model (differences = drift).
code -> spec : seeded random trees outside the enumerated domain (more sections, arbitrary title strings,
               results with figures) are written and validated by ReportTreeTrace.tla.
"""
import json
import os
import re
import shutil
import tempfile
from concurrent.futures import ThreadPoolExecutor

import numpy as np

import tlc

SPEC = os.path.join(tlc.SPECS, 'ReportTree.tla')
TRACE = os.path.join(tlc.SPECS, 'ReportTreeTrace.tla')
MOD = 'conf_report'
ALPHABET = ('A', 'B', 'index', 'conf', 'figures', '', '.', '..', 'a/b', 'NUL')
RESERVED = ('conf.py', 'index.rst', 'A.rst')        # names whose directory may collide with a file of the report
INVS = ['C20_RejectBeforeWriting', 'C20_RejectClean', 'C20_Contained', 'C20_Pages', 'C20_NoLoss', 'C20_Once', 'C20_Toc',
        'C20_Images', 'C20_Root', 'C20_Written', 'C20_OnePagePerPath']
WITNESSES = ['W_MergedSiblings', 'W_RootClash', 'W_TooDeep', 'W_DeepToc', 'W_NestedIndex', 'W_DirFileClash']
HEADER_CHARS = '=-`\'"'


def real_title(name):
    return 'a\x00b' if name == 'NUL' else name


def title_rec(s):
    """What ReportTree.tla needs to know about a title string."""
    return dict(s=s.replace('\x00', '<NUL>'), slash='/' in s, nul='\x00' in s, aux=(s == 'conf.py'),
                stem=s[:-4] if s.endswith('.rst') else '')


# --------------------------------------------------------------------------------------------
# a case = dict(parent=[0, 1, ...], title=[str...], nres=[...], figures=bool)   (node 0 of the lists is the root)
# --------------------------------------------------------------------------------------------
def _result(k, j):
    """Result <<k, j>>: an equality test on its own datasets (own name -> own anchor, own data -> own figure)."""
    from collections import OrderedDict
    from valjean.eponine.dataset import Dataset
    from valjean.gavroche.test import TestEqual
    bins = OrderedDict([('e', np.arange(4, dtype=float))])
    base = np.array([1.0, 2.0, 3.0]) + 10.0 * k + 100.0 * j
    ref = Dataset(base.copy(), np.full(3, 0.5), bins=bins, name='ref')
    other = Dataset(base + (np.array([0.0, 1.0, 0.0]) if j == 1 else 0.0), np.full(3, 0.5),
                    bins=OrderedDict([('e', np.arange(4, dtype=float))]), name='oth')
    return TestEqual(ref, other, name='res_%d_%d' % (k, j)).evaluate()


def build_report(case):
    """-> (TestReport, {anchor fingerprint: [k, j]})"""
    from valjean.javert.test_report import TestReport
    from valjean.fingerprint import fingerprint
    n = len(case['parent'])
    anchors = {}
    nodes = []
    for k in range(1, n + 1):
        content = []
        for j in range(1, case['nres'][k - 1] + 1):
            res = _result(k, j)
            anchors[fingerprint(res.test)] = [k, j]
            content.append(res)
        nodes.append(TestReport(title=case['title'][k - 1], text='sectiontext%d.' % k, content=content))
    for k in range(2, n + 1):
        nodes[case['parent'][k - 1] - 1].content.append(nodes[k - 1])
    return nodes[0], anchors


_TOC = re.compile(r'^\.\. toctree::[ \t]*\n((?:[ \t]+.*\n|[ \t]*\n)*)', re.M)


def read_page(text, anchors):
    lines = text.split('\n')
    headers = []
    for a, b in zip(lines, lines[1:]):
        if a and b and len(b) == len(a) and b[0] in HEADER_CHARS and b == b[0] * len(b):
            headers.append(a)
    texts = [int(m) for m in re.findall(r'sectiontext(\d+)\.', text)]
    anch = [anchors.get(fp, [0, 0]) for fp in re.findall(r'^\.\. _anchor_([0-9a-f]+):', text, flags=re.M)]
    toc = []
    for block in _TOC.findall(text):
        for line in block.split('\n'):
            entry = line.strip()
            if entry and not entry.startswith(':'):
                entry = entry[:-4] if entry.endswith('.rst') else entry
                toc.append(entry.split('/'))
    images = re.findall(r'^\.\. image:: (\S+)', text, flags=re.M)
    return dict(headers=headers, texts=texts, anchors=anch, toc=toc, images=images)


def observe(case):
    """Write the report of `case` on the real code into <scratch>/report and project the disk."""
    from valjean.javert import representation as rpr
    from valjean.javert.rst import Rst
    from valjean.javert.verbosity import Verbosity
    scratch = tempfile.mkdtemp(prefix='verif-c20-', dir=os.environ.get('VERIF_C20_TMP') or None)
    target = os.path.join(scratch, 'report')
    obs = dict(rejected=False, why='')
    try:
        report, anchors = build_report(case)
        rep = rpr.FullRepresenter() if case.get('figures') else rpr.TableRepresenter()
        try:
            fmt = Rst(rpr.Representation(rep, Verbosity.FULL_DETAILS), n_workers=case.get('workers')).format_report(report=report, author='me', version='1')
            fmt.write(target)
        except Exception as ex:  # pylint: disable=broad-except
            obs['rejected'] = True
            obs['why'] = '%s: %s' % (type(ex).__name__, str(ex)[:120])
        obs['outside'] = sorted(x for x in os.listdir(scratch) if x != 'report')
        inside = []
        pages = []
        figs = []
        if os.path.isdir(target):
            for root, dirs, files in os.walk(target):
                rel = os.path.relpath(root, target)
                for name in sorted(dirs + files):
                    inside.append(os.path.normpath(os.path.join(rel, name)))
                for name in sorted(files):
                    relp = os.path.normpath(os.path.join(rel, name))
                    if name.endswith('.rst'):
                        with open(os.path.join(root, name)) as f:
                            page = read_page(f.read(), anchors)
                        page['path'] = relp[:-4].split(os.sep)
                        pages.append(page)
                    elif relp.startswith('figures' + os.sep):
                        figs.append('/' + relp.replace(os.sep, '/'))
        elif os.path.exists(target):
            inside.append('report is a file')
        obs.update(created=bool(inside), inside=sorted(inside), pages=sorted(pages, key=lambda p: p['path']), figs=sorted(figs))
    finally:
        shutil.rmtree(scratch, ignore_errors=True)
    return obs


def trace_record(cid, case, obs):
    return dict(id=cid, parent=list(case['parent']), title=[title_rec(t) for t in case['title']], nres=list(case['nres']),
                rejected=obs['rejected'], created=obs['created'], outside=obs['outside'], figs=obs['figs'],
                pages=[dict(path=p['path'], headers=p['headers'], texts=p['texts'], anchors=p['anchors'], toc=p['toc'],
                            images=p['images']) for p in obs['pages']])


def judge(records, wd, tag='t'):
    """TLC evaluates the clauses of ReportTree.tla on the recorded disks -> (result, {id: [false clauses]})."""
    cj = tlc.json_dump(os.path.join(wd, 'cases_%s.json' % tag), records)
    oj = os.path.join(wd, 'out_%s.json' % tag)
    cfg = tlc.write_cfg(os.path.join(wd, 'trace_%s.cfg' % tag), spec='TSpec', deadlock=False, postcondition='Post')
    res = tlc.run(TRACE, cfg, workers=1, env=dict(VERIF_CASES=cj, VERIF_OUT=oj), timeout=3000)
    if not res.ok:
        raise tlc.MachineryError('ReportTreeTrace %s: %s\n%s' % (tag, res.violation, res.out[-2000:]))
    with open(oj) as f:
        bad = json.load(f)['bad']
    return res, {cid: sorted(clauses) for cid, clauses in bad}


def features(case):
    """What is special about the tree, most significant first (names the finding class)."""
    n = len(case['parent'])
    depth = {1: 1}
    for k in range(2, n + 1):
        depth[k] = depth[case['parent'][k - 1]] + 1
    feats = []
    for k in range(2, n + 1):
        t = case['title'][k - 1]
        f = ('empty-title' if t == '' else 'dot-title' if t == '.' else 'dotdot-title' if t == '..' else
             'slash-in-title' if '/' in t else 'nul-in-title' if '\x00' in t else None)
        if f and f not in feats:
            feats.append(f)
    if max(depth.values()) > 5:
        feats.append('too-deep')
    has_children = set(case['parent'])
    if any(case['title'][k - 1] == 'conf.py' and case['parent'][k - 1] == 1 and k in has_children for k in range(2, n + 1)):
        feats.append('directory-named-conf.py')
    if any(case['title'][k - 1] == 'index' and case['parent'][k - 1] == 1 for k in range(2, n + 1)):
        feats.append('top-level-index')
    sib = set()
    for k in range(2, n + 1):
        key = (case['parent'][k - 1], case['title'][k - 1])
        if key in sib and 'repeated-siblings' not in feats:
            feats.append('repeated-siblings')
        sib.add(key)
    return feats or ['plain']


def vkey(case, clauses):
    if any(t.endswith('.rst') for t in case['title'][1:]):
        return 'C20/title-with-rst-suffix'          # one class whatever the symptom (see known_findings.d/C20.json)
    return 'C20/%s/%s%s' % ('+'.join(clauses), features(case)[0], '/worker-pool' if case.get('workers') else '')


def case_of_state(st, figures):
    t = st['tree']
    return dict(parent=list(t['parent']), title=[real_title(x['s']) for x in t['title']], nres=list(t['nres']), figures=figures)


def model_disk(st):
    """The final disk of the model for a dumped 'done' state, in the shape of observe()."""
    pages = []
    for pg in st['pages']:
        pages.append(dict(path=list(pg['path']), headers=list(pg['headers']), texts=list(pg['texts']),
                          anchors=[list(a) for a in pg['anchors']], toc=[list(e) for e in pg['toc']],
                          nimages=len(pg['images'])))
    return sorted(pages, key=lambda p: p['path'])


def _work(case):
    return observe(case)


def _pmap(fn, items):
    import multiprocessing as mp
    items = list(items)
    if len(items) < 48:
        return [fn(x) for x in items]
    with mp.get_context('fork').Pool(min(16, tlc.NCPU)) as pool:
        return pool.map(fn, items, chunksize=16)


def check_cases(ctx, cases, wd, tag, expected=None):
    """Write every tree on the real code, let TLC judge the disks; expected: {index: model pages} for drift."""
    obs = _pmap(_work, cases)
    records = [trace_record(cid, case, o) for cid, (case, o) in enumerate(zip(cases, obs), 1)]
    step = max(500, -(-len(records) // 6))
    chunks = [(lo, records[lo:lo + step]) for lo in range(0, len(records), step)]
    with ThreadPoolExecutor(len(chunks)) as pool:
        judged = list(pool.map(lambda ch: judge(ch[1], wd, '%s%d' % (tag, ch[0])), chunks))
    bad = {}
    for (lo, _), (res, b) in zip(chunks, judged):
        ctx.tlc(res, 'ReportTreeTrace/%s[%d:]' % (tag, lo))
        bad.update(b)
    for cid, clauses in sorted(bad.items()):
        case, o = cases[cid - 1], obs[cid - 1]
        ctx.violation(vkey(case, clauses),
                      'clauses %s of ReportTree.tla are false: rejected=%s (%s) inside=%s outside=%s pages=%s'
                      % (clauses, o['rejected'], o['why'], o['inside'][:8], o['outside'],
                         [(p['path'], p['headers'], p['texts']) for p in o['pages']][:6]),
                      case, module=MOD)
    ndrift = 0
    for k, exp in (expected or {}).items():
        o = obs[k]
        if (k + 1) in bad or o['rejected'] or any(t.endswith('.rst') for t in cases[k]['title']):
            continue                        # (titles ending in .rst: see the open finding)
        got = [dict(path=p['path'], headers=p['headers'], texts=p['texts'], anchors=p['anchors'], toc=p['toc'])
               for p in o['pages']]
        exp = [dict((f, v) for f, v in p.items() if f != 'nimages') for p in exp]
        if got != exp and ndrift < 3:
            ndrift += 1
            ctx.drift('written pages differ from the model although every clause holds: tree %s: %s vs model %s'
                      % (cases[k], json.dumps(got)[:300], json.dumps(exp)[:300]))
    for case, o in zip(cases, obs):
        if len(case['parent']) > 1:
            ctx.distinct((tuple(case['parent']), tuple(case['title']), tuple(case['nres']), bool(case.get('figures'))))
    ctx.count(evaluations=len(cases), traces=len(cases))
    for k in (0, len(cases) // 2, len(cases) - 1):
        o = obs[k]
        ctx.sample(dict(source=tag, case=dict(cases[k], title=[title_rec(t)['s'] for t in cases[k]['title']]),
                        rejected=o['rejected'], files=o['inside'][:12], outside=o['outside']))
    return obs, bad


def consts(maxnodes, titles, pats, maxdepth=6, figures=False):
    return dict(MaxNodes=maxnodes, TitleNames=frozenset(titles), ResPatterns=frozenset(pats), MaxDepth=maxdepth,
                WithFigures=figures)


def random_cases(rng, n, fig_share):
    words = ['A', 'B', 'C', 'index', 'conf', 'figures', 'index.rst', 'A B', 'x.y', '-', 'Cafe', '_static', '.static',
             '', '.', '..', 'a/b', '/', '/abs', 'a\x00b', '...', 'conf.py', 'plot', 'Contents', 'A.rst']
    out = []
    for _ in range(n):
        nn = rng.randint(2, 9)
        parent = [0]
        depth = [1]
        path = [1]                        # rightmost path for pre-order numbering
        for k in range(2, nn + 1):
            cut = rng.randint(1, len(path))
            p = path[cut - 1]
            if depth[p - 1] >= 6:
                p = path[0]
                cut = 1
            parent.append(p)
            depth.append(depth[p - 1] + 1)
            path = path[:cut] + [k]
        easy = rng.random() < 0.5
        title = ['Root'] + [rng.choice(words[:12] if easy else words) for _ in range(nn - 1)]
        if rng.random() < 0.3 and nn > 2:      # force a repeated sibling
            k = rng.randint(3, nn)
            sibs = [q for q in range(2, k) if parent[q - 1] == parent[k - 1]]
            if sibs:
                title[k - 1] = title[rng.choice(sibs) - 1]
        nres = [rng.choice([0, 0, 1, 2]) for _ in range(nn)]
        out.append(dict(parent=parent, title=title, nres=nres, figures=rng.random() < fig_share))
    return out


def _tick(ctx, what, t0=[None]):
    import time
    now = time.time()
    if t0[0] is not None:
        ctx.cov.setdefault('phase_wall_s', []).append([what, round(now - t0[0], 1)])
    t0[0] = now


def run_c20(ctx):
    _tick(ctx, 'start')
    ctx.rule('spec->code: every tree TLC enumerates for ReportTree.tla (pre-order shapes x titles from the alphabet '
             '{A, B, index, conf, figures, "", ".", "..", "a/b", NUL} x result pattern) is built as a real TestReport, '
             'written with Rst.format_report(...).write() into a watched scratch directory and the disk projection is '
             'judged by TLC; code->spec: seeded random trees (up to 9 sections, arbitrary title strings, figures) '
             'validated by ReportTreeTrace.tla.  distinct_nontrivial = distinct trees with at least one section below '
             'the root.')
    ctx.assume('a title is unusable as a file name iff it is empty, ".", ".." or contains "/" or NUL; an empty target '
               'directory left behind by a rejected write is tolerated, any entry in it is not')
    ctx.assume('sections with the same chain of titles (repeated sibling titles) may share one page provided each '
               'content is there exactly once; such trees may also be rejected')
    ctx.assume('toctree entries are resolved as Sphinx does: relative to the directory of the page, the source suffix '
               'dropped; titles have no leading or trailing white space (Sphinx strips toctree entries, and such a line '
               'is no reStructuredText title)')
    ctx.assume('a tree in which the directory of a section is also a file of the report (conf.py, the page of another '
               'section) cannot be written: it may be rejected, cleanly')
    wd = tlc.workdir('c20')
    os.environ['VERIF_C20_TMP'] = tlc.workdir('c20w')

    # 1. the model: all trees of the configuration through check / set-up / pages / figures
    model = ctx.pick(consts(4, ALPHABET, [0, 2], figures=True),
                     consts(5, ('A', 'B', 'index', 'figures', '', 'a/b', '.'), [0, 1, 2], figures=True))
    deep = consts(7, ('A',), [1], maxdepth=7)
    clash = consts(4, ('A', 'index', 'figures') + RESERVED, [1])
    jobs = [('ReportTree/trees', model, INVS, True), ('ReportTree/deep-chains', deep, INVS, True),
            ('ReportTree/file-directory-clashes', clash, INVS, True)]
    wcfg = consts(4, ('A', 'index', 'conf.py'), [1], maxdepth=7)
    jobs += [(w, deep if w == 'W_TooDeep' else wcfg, [w], False) for w in WITNESSES]

    def one(job):
        name, cst, invs, cov = job
        cfg = tlc.write_cfg(os.path.join(wd, name.replace('/', '_') + '.cfg'), constants=cst, invariants=invs, deadlock=False)
        dump = os.path.join(wd, name.replace('/', '_')) if cov else None
        return tlc.run(SPEC, cfg, coverage=cov, workers=6 if cov else 2, dump=dump), dump
    with ThreadPoolExecutor(len(jobs)) as pool:
        results = list(pool.map(one, jobs))
    dumps = []
    for (name, cst, invs, cov), (res, dump) in zip(jobs, results):
        if cov:
            ctx.tlc(res, name)
            if not res.ok:
                raise tlc.MachineryError('ReportTree.tla %s: %s\n%s' % (name, res.violation, res.out[-1500:]))
            tlc.check_coverage(res, ['Reject', 'Setup', 'WritePage', 'WriteFigures'], name)
            dumps.append(dump)
        elif res.violation != ('invariant', name):
            raise tlc.MachineryError('witness %s not reachable in ReportTree.tla' % name)

    _tick(ctx, 'model + witnesses')
    # 2. spec -> code: the enumerated trees (their final states carry the model's disk)
    cases, expected, seen = [], {}, {}
    for dump in dumps:
        for st in tlc.read_dump(dump):
            if st['phase'] not in ('rejected', 'done'):
                continue
            case = case_of_state(st, figures=False)
            sig = json.dumps(case, sort_keys=True)
            if sig in seen:
                continue
            seen[sig] = len(cases)
            if st['phase'] == 'done':
                expected[len(cases)] = model_disk(st)
            cases.append(case)
        os.remove(dump + '.dump')
    _tick(ctx, 'read dumps')
    limit = ctx.pick(3000, 10 ** 9)
    if len(cases) > limit:                      # keep all small trees, thin out the largest ones deterministically
        small = [i for i, c in enumerate(cases) if len(c['parent']) < 4]
        big = [i for i, c in enumerate(cases) if len(c['parent']) >= 4]
        step = -(-len(big) // max(1, limit - len(small)))
        keep = sorted(small + big[::step])
        expected = {new: expected[old] for new, old in enumerate(keep) if old in expected}
        cases = [cases[i] for i in keep]
    # figures are costly (matplotlib): every 40th written tree gets them
    for k, case in enumerate(cases):
        if k % ctx.pick(150, 60) == 7 and sum(case['nres']) > 0:
            case['figures'] = True
    check_cases(ctx, cases, wd, 'enumerated', expected)
    ctx.cov['inputs'] = dict(enumerated_by_tlc=len(cases))
    # the figures can be written by a pool of worker processes (the command line does it with 4): few and many
    # figures for 2 and 4 workers (run in this process: a pool cannot be started from a pool worker)
    wcases = []
    for case in cases:
        nfig = sum(case['nres'])
        if nfig > 0 and '' not in case['title'][1:] and all(t in ('A', 'B', 'figures', 'conf') for t in case['title'][1:]):
            sig = (nfig, len(case['parent']))
            if sig not in [w[0] for w in wcases]:
                wcases.append((sig, case))
    wsel = []
    for k, (sig, case) in enumerate(sorted(wcases, key=lambda x: x[0])[:ctx.pick(6, 16)]):
        wsel.append(dict(case, figures=True, workers=(2, 4)[k % 2]))
    if wsel:
        check_cases(ctx, wsel, wd, 'figure-workers')
        ctx.cov['inputs']['written_with_worker_pool'] = len(wsel)
    _tick(ctx, 'enumerated trees written + judged')
    # 3. code -> spec
    rcases = random_cases(ctx.rng, ctx.pick(1000, 20000), 0.01)
    check_cases(ctx, rcases, wd, 'random')
    ctx.cov['inputs']['seeded_random'] = len(rcases)
    _tick(ctx, 'random trees')
    ctx.cov['exhaustive'] = True
    ctx.cov['explanation'] = ('exhaustive for the TLC configurations in tlc_runs (every enumerated tree written%s); random beyond'
                              % ('' if len(cases) <= limit else ', the largest thinned out in the quick tier'))


def replay_case(case):
    wd = tlc.workdir('c20r')
    os.environ['VERIF_C20_TMP'] = tlc.workdir('c20w')
    obs = observe(case)
    _, bad = judge([trace_record(1, case, obs)], wd, 'r')
    detail = 'rejected=%s (%s) inside=%s outside=%s' % (obs['rejected'], obs['why'], obs['inside'][:10], obs['outside'])
    if 1 in bad:
        return False, 'clauses %s false; %s' % (bad[1], detail)
    return True, 'all clauses of ReportTree.tla hold; ' + detail
