"""C20 -- a written report contains every section and every result exactly once: binding of
specs/ReportTree.tla to valjean.javert.rst (Rst.format_report / FormattedRst.write).

spec -> code : TLC enumerates report trees (shape in pre-order encoding x titles from the alphabet incl.
               reserved and unusable names x result pattern); the state machine of ReportTree.tla (check,
               set-up, pages, figures) is model-checked against the clauses of the property.  Every
               enumerated tree is built as a real TestReport with real test results and run through a usage
               history (PLANS: the formatted report written once / to several directories / twice in place,
               one formatter for two reports, A-B-A) in a scratch directory whose parent is watched; the
               projection of every written directory (pages with headers / section texts / result
               appearances / toctree entries / image targets, figures, files outside) is judged by TLC (ReportTreeTrace.tla evaluates the clauses of ReportTree.tla) and, for trees
               the model writes, compared with the final disk of the model (differences = drift).
code -> spec : seeded random trees outside the enumerated domain (more sections, arbitrary title strings,
               results with figures) are written and validated by ReportTreeTrace.tla.
"""
import hashlib
import json
import os
import re
import shutil
import tempfile
from concurrent.futures import ThreadPoolExecutor

import numpy as np

import tlc

SPEC = os.path.join(tlc.SPECS, 'ReportTree.tla')
TRACE = os.path.join(tlc.SPECS, 'ReportTreeTrace.tla')
MOD = 'conf_report'
ALPHABET = ('A', 'B', 'index', 'conf', 'figures', '', '.', '..', 'a/b', 'NUL')
RESERVED = ('conf.py', 'index.rst', 'A.rst')        # names whose directory may collide with a file of the report
INVS = ['C20_RejectBeforeWriting', 'C20_RejectClean', 'C20_Contained', 'C20_Pages', 'C20_NoLoss', 'C20_Once', 'C20_Toc',
        'C20_Images', 'C20_Root', 'C20_Written', 'C20_OnePagePerPath']
WITNESSES = ['W_MergedSiblings', 'W_RootClash', 'W_TooDeep', 'W_DeepToc', 'W_NestedIndex', 'W_DirFileClash']
HEADER_CHARS = '=-`\'"'


def real_title(name):
    return 'a\x00b' if name == 'NUL' else name


def title_rec(s):
    """What ReportTree.tla needs to know about a title string."""
    return dict(s=s.replace('\x00', '<NUL>'), slash='/' in s, nul='\x00' in s, aux=(s == 'conf.py'),
                stem=s[:-4] if s.endswith('.rst') else '')


# --------------------------------------------------------------------------------------------
# a case = dict(parent=[0, 1, ...], title=[str...], nres=[...], figures=bool)   (node 0 of the lists is the root)
# --------------------------------------------------------------------------------------------
def _result(k, j):
    """Result <<k, j>>: an equality test on its own datasets (own name -> own anchor, own data -> own figure)."""
    from collections import OrderedDict
    from valjean.eponine.dataset import Dataset
    from valjean.gavroche.test import TestEqual
    bins = OrderedDict([('e', np.arange(4, dtype=float))])
    base = np.array([1.0, 2.0, 3.0]) + 10.0 * k + 100.0 * j
    ref = Dataset(base.copy(), np.full(3, 0.5), bins=bins, name='ref')
    other = Dataset(base + (np.array([0.0, 1.0, 0.0]) if j == 1 else 0.0), np.full(3, 0.5),
                    bins=OrderedDict([('e', np.arange(4, dtype=float))]), name='oth')
    return TestEqual(ref, other, name='res_%d_%d' % (k, j), description='resultmark%dx%d.' % (k, j)).evaluate()


def build_report(case):
    """-> (TestReport, {anchor fingerprint: [k, j]})"""
    from valjean.javert.test_report import TestReport
    from valjean.fingerprint import fingerprint
    n = len(case['parent'])
    anchors = {}
    nodes = []
    for k in range(1, n + 1):
        content = []
        for j in range(1, case['nres'][k - 1] + 1):
            res = _result(k, j)
            anchors[fingerprint(res.test)] = [k, j]
            content.append(res)
        nodes.append(TestReport(title=case['title'][k - 1], text='sectiontext%d.' % k, content=content))
    for k in range(2, n + 1):
        nodes[case['parent'][k - 1] - 1].content.append(nodes[k - 1])
    return nodes[0], anchors


_TOC = re.compile(r'^\.\. toctree::[ \t]*\n((?:[ \t]+.*\n|[ \t]*\n)*)', re.M)
_TARGET = re.compile(r'^[ \t]*\.\. _(.+?):[ \t]*$', re.M)          # an explicit hyperlink target, whatever its label
_MARK = re.compile(r'resultmark(\d+)x(\d+)\.')


def result_occurrences(text, anchors):
    """Where the results appear on a page, in page order.  A result is recognised by what it is, not by how a label is
    spelled: its own description (the token given to it by _result) and any explicit target `.. _<label>:` whose label
    carries its fingerprint.  Several differently spelled targets of one result (aliases) are one appearance; the same
    label n times, or the description n times, are n appearances."""
    groups = {}
    for m in _MARK.finditer(text):
        groups.setdefault(((int(m.group(1)), int(m.group(2))), None), []).append(m.start())
    for m in _TARGET.finditer(text):
        label = m.group(1).strip().strip('`').lower()
        for fp, kj in anchors.items():
            if fp in label:
                groups.setdefault((tuple(kj), label), []).append(m.start())
    best = {}
    for (kj, _), pos in sorted(groups.items(), key=lambda g: (g[0][0], g[0][1] or '')):
        if len(pos) > len(best.get(kj, [])):
            best[kj] = pos
    return [list(kj) for _, kj in sorted((p, kj) for kj, pos in best.items() for p in pos)]


def read_page(text, anchors):
    lines = text.split('\n')
    headers = []
    for a, b in zip(lines, lines[1:]):
        if a and b and len(b) == len(a) and b[0] in HEADER_CHARS and b == b[0] * len(b):
            headers.append(a)
    texts = [int(m) for m in re.findall(r'sectiontext(\d+)\.', text)]
    toc = []
    for block in _TOC.findall(text):
        for line in block.split('\n'):
            entry = line.strip()
            if entry and not entry.startswith(':'):
                entry = entry[:-4] if entry.endswith('.rst') else entry
                toc.append(entry.split('/'))
    images = re.findall(r'^\.\. image:: (\S+)', text, flags=re.M)
    return dict(headers=headers, texts=texts, anchors=result_occurrences(text, anchors), toc=toc, images=images)


# --------------------------------------------------------------------------------------------
# usage histories: how often and in which order the formatter and the formatted report are used.  Every write of a
# history is one record judged by TLC with the tree that was written; the suffix names the past of the objects.
# ops: ('format', slot, 'A' | 'B' [, formatter: default 'F'])  /  ('write', slot, directory, key suffix)
# The first write of every history is the plain one (fresh formatter, fresh formatted report, fresh directory).
# --------------------------------------------------------------------------------------------
PLANS = {
    'once': [('format', 'a', 'A'), ('write', 'a', 'report', '')],
    'twice': [('format', 'a', 'A'), ('write', 'a', 'report', ''), ('write', 'a', 'copy2', '/written-again')],
    'thrice': [('format', 'a', 'A'), ('write', 'a', 'report', ''), ('write', 'a', 'copy2', '/written-again'),
               ('write', 'a', 'copy3', '/written-again')],
    'again-in-place': [('format', 'a', 'A'), ('write', 'a', 'report', ''), ('write', 'a', 'report', '/written-again-in-place')],
    'format-both-first': [('format', 'a0', 'A', 'G'), ('write', 'a0', 'report', ''), ('format', 'a', 'A'), ('format', 'b', 'B'),
                          ('write', 'a', 'copy2', '/formatter-reused-before-writing'),
                          ('write', 'b', 'copy3', '/formatter-reused')],
    'a-b-a': [('format', 'a', 'A'), ('write', 'a', 'report', ''), ('format', 'b', 'B'),
              ('write', 'b', 'copy2', '/formatter-reused'), ('write', 'a', 'copy3', '/written-again-after-another')],
}
PLAN_ORDER = ('twice', 'once', 'a-b-a', 'again-in-place', 'format-both-first', 'thrice')
DISTURBED = '/directory-changed-by-later-write'


def tree_of(case):
    return dict(parent=list(case['parent']), title=list(case['title']), nres=list(case['nres']))


def assign_plans(cases):
    """Every case gets a usage history in rotation (cases with figures have a rotation of their own so that every
    history is run with figures) and, as second report of the history, the tree of the next case."""
    count = {False: 0, True: 0}
    for k, case in enumerate(cases):
        fig = bool(case.get('figures'))
        case.pop('other', None)
        case['plan'] = PLAN_ORDER[count[fig] % len(PLAN_ORDER)]
        count[fig] += 1
        if any(op[2] == 'B' for op in PLANS[case['plan']] if op[0] == 'format'):
            case['other'] = tree_of(cases[(k + 1) % len(cases)])
    return cases


def project(scratch, name, anchors):
    """The projection of the directory <scratch>/<name>."""
    target = os.path.join(scratch, name)
    inside, pages, figs = [], [], []
    if os.path.isdir(target):
        for root, dirs, files in os.walk(target):
            rel = os.path.relpath(root, target)
            for entry in sorted(dirs + files):
                inside.append(os.path.normpath(os.path.join(rel, entry)))
            for entry in sorted(files):
                relp = os.path.normpath(os.path.join(rel, entry))
                if entry.endswith('.rst'):
                    with open(os.path.join(root, entry)) as f:
                        page = read_page(f.read(), anchors)
                    page['path'] = relp[:-4].split(os.sep)
                    pages.append(page)
                elif relp.startswith('figures' + os.sep):
                    figs.append('/' + relp.replace(os.sep, '/'))
    elif os.path.exists(target):
        inside.append('%s is a file' % name)
    return dict(created=bool(inside), inside=sorted(inside), pages=sorted(pages, key=lambda p: p['path']), figs=sorted(figs))


def observe(case):
    """Run the usage history of `case` on the real code in a watched scratch directory -> one observation per write:
    dict(suffix, tree, rejected, why, outside, created, inside, pages, figs)."""
    from valjean.javert import representation as rpr
    from valjean.javert.rst import Rst
    from valjean.javert.verbosity import Verbosity
    scratch = tempfile.mkdtemp(prefix='verif-c20-', dir=os.environ.get('VERIF_C20_TMP') or None)
    trees = dict(A=tree_of(case), B=case.get('other'))
    writes = []
    try:
        formatters, slots, used, last = {}, {}, [], {}
        for op in PLANS[case.get('plan') or 'once']:
            if op[0] == 'format':
                tree = trees[op[2]]
                report, anchors = build_report(tree)
                slot = dict(tree=tree, anchors=anchors, fmt=None, why='')
                fname = op[3] if len(op) > 3 else 'F'
                if fname not in formatters:
                    rep = rpr.FullRepresenter() if case.get('figures') else rpr.TableRepresenter()
                    formatters[fname] = Rst(rpr.Representation(rep, Verbosity.FULL_DETAILS), n_workers=case.get('workers'))
                try:
                    slot['fmt'] = formatters[fname].format_report(report=report, author='me', version='1')
                except Exception as ex:  # pylint: disable=broad-except
                    slot['why'] = '%s: %s' % (type(ex).__name__, str(ex)[:120])
                slots[op[1]] = slot
                continue
            _, sname, dname, suffix = op
            slot = slots[sname]
            obs = dict(suffix=suffix, tree=slot['tree'], rejected=False, why='', dir=dname)
            if slot['fmt'] is None:
                obs.update(rejected=True, why=slot['why'])
            else:
                try:
                    slot['fmt'].write(os.path.join(scratch, dname))
                except Exception as ex:  # pylint: disable=broad-except
                    obs.update(rejected=True, why='%s: %s' % (type(ex).__name__, str(ex)[:120]))
            if dname not in used:
                used.append(dname)
            obs['outside'] = sorted(x for x in os.listdir(scratch) if x not in used)
            obs.update(project(scratch, dname, slot['anchors']))
            writes.append(obs)
            last[dname] = (obs, slot)
        for dname, (obs, slot) in last.items():          # a later write must not have touched an earlier directory
            now = project(scratch, dname, slot['anchors'])
            if any(now[f] != obs[f] for f in now):
                writes.append(dict(obs, suffix=DISTURBED, outside=sorted(x for x in os.listdir(scratch) if x not in used), **now))
    finally:
        shutil.rmtree(scratch, ignore_errors=True)
    return writes


def trace_record(cid, tree, obs):
    return dict(id=cid, parent=list(tree['parent']), title=[title_rec(t) for t in tree['title']], nres=list(tree['nres']),
                rejected=obs['rejected'], created=obs['created'], outside=obs['outside'], figs=obs['figs'],
                pages=[dict(path=p['path'], headers=p['headers'], texts=p['texts'], anchors=p['anchors'], toc=p['toc'],
                            images=p['images']) for p in obs['pages']])


def judge_writes(writes_of, wd, tag, account=None):
    """writes_of: per case the observations of observe().  Every write is a record for TLC; identical records (same
    tree, same disk: the usual outcome of writing a report again) are judged once.
    -> ([([(case index, write index) of the writes with this record], [false clauses])], records judged by TLC)"""
    uniq, members = {}, []
    for ci, writes in enumerate(writes_of):
        for wi, o in enumerate(writes):
            sig = hashlib.sha1(json.dumps(trace_record(0, o['tree'], o), sort_keys=True).encode()).digest()
            if sig not in uniq:
                uniq[sig] = len(members)
                members.append([])
            members[uniq[sig]].append((ci, wi))
    records = [trace_record(rid, writes_of[m[0][0]][m[0][1]]['tree'], writes_of[m[0][0]][m[0][1]])
               for rid, m in enumerate(members, 1)]
    step = max(500, -(-len(records) // 6))
    chunks = [(lo, records[lo:lo + step]) for lo in range(0, len(records), step)]
    with ThreadPoolExecutor(max(1, len(chunks))) as pool:
        judged = list(pool.map(lambda ch: judge(ch[1], wd, '%s%d' % (tag, ch[0])), chunks))
    bad = []
    for (lo, _), (res, b) in zip(chunks, judged):
        if account:
            account(res, lo)
        bad.extend((members[rid - 1], clauses) for rid, clauses in sorted(b.items()))
    return bad, len(records)


def judge(records, wd, tag='t'):
    """TLC evaluates the clauses of ReportTree.tla on the recorded disks -> (result, {id: [false clauses]})."""
    cj = tlc.json_dump(os.path.join(wd, 'cases_%s.json' % tag), records)
    oj = os.path.join(wd, 'out_%s.json' % tag)
    cfg = tlc.write_cfg(os.path.join(wd, 'trace_%s.cfg' % tag), spec='TSpec', deadlock=False, postcondition='Post')
    res = tlc.run(TRACE, cfg, workers=1, env=dict(VERIF_CASES=cj, VERIF_OUT=oj), timeout=3000)
    if not res.ok:
        raise tlc.MachineryError('ReportTreeTrace %s: %s\n%s' % (tag, res.violation, res.out[-2000:]))
    with open(oj) as f:
        bad = json.load(f)['bad']
    return res, {cid: sorted(clauses) for cid, clauses in bad}


def features(case):
    """What is special about the tree, most significant first (names the finding class)."""
    n = len(case['parent'])
    depth = {1: 1}
    for k in range(2, n + 1):
        depth[k] = depth[case['parent'][k - 1]] + 1
    feats = []
    for k in range(2, n + 1):
        t = case['title'][k - 1]
        f = ('empty-title' if t == '' else 'dot-title' if t == '.' else 'dotdot-title' if t == '..' else
             'slash-in-title' if '/' in t else 'nul-in-title' if '\x00' in t else None)
        if f and f not in feats:
            feats.append(f)
    if max(depth.values()) > 5:
        feats.append('too-deep')
    has_children = set(case['parent'])
    if any(case['title'][k - 1] == 'conf.py' and case['parent'][k - 1] == 1 and k in has_children for k in range(2, n + 1)):
        feats.append('directory-named-conf.py')
    if any(case['title'][k - 1] == 'index' and case['parent'][k - 1] == 1 for k in range(2, n + 1)):
        feats.append('top-level-index')
    sib = set()
    for k in range(2, n + 1):
        key = (case['parent'][k - 1], case['title'][k - 1])
        if key in sib and 'repeated-siblings' not in feats:
            feats.append('repeated-siblings')
        sib.add(key)
    return feats or ['plain']


def vkey(case, clauses, write=None):
    """case: the case that was run; write: the observation judged (its tree may be the second report of the history)."""
    tree = write['tree'] if write else case
    if any(t.endswith('.rst') for t in tree['title'][1:]):
        return 'C20/title-with-rst-suffix'          # one class whatever the symptom (see known_findings.d/C20.json)
    return 'C20/%s/%s%s%s' % ('+'.join(clauses), features(tree)[0], '/worker-pool' if case.get('workers') else '',
                              write['suffix'] if write else '')


def case_of_state(st, figures):
    t = st['tree']
    return dict(parent=list(t['parent']), title=[real_title(x['s']) for x in t['title']], nres=list(t['nres']), figures=figures)


def model_disk(st):
    """The final disk of the model for a dumped 'done' state, in the shape of observe()."""
    pages = []
    for pg in st['pages']:
        pages.append(dict(path=list(pg['path']), headers=list(pg['headers']), texts=list(pg['texts']),
                          anchors=[list(a) for a in pg['anchors']], toc=[list(e) for e in pg['toc']],
                          nimages=len(pg['images'])))
    return sorted(pages, key=lambda p: p['path'])


def _work(case):
    return observe(case)


def _pmap(fn, items):
    import multiprocessing as mp
    items = list(items)
    if len(items) < 48:
        return [fn(x) for x in items]
    with mp.get_context('fork').Pool(min(16, tlc.NCPU)) as pool:
        return pool.map(fn, items, chunksize=16)


def _describe(o):
    return ('rejected=%s (%s) inside=%s outside=%s pages=%s figures=%d'
            % (o['rejected'], o['why'], o['inside'][:8], o['outside'],
               [(p['path'], p['headers'], p['texts'], p['anchors']) for p in o['pages']][:6], len(o['figs'])))


def check_cases(ctx, cases, wd, tag, expected=None):
    """Run the usage history of every case on the real code, let TLC judge every written directory; expected: {index:
    model pages} for drift."""
    obs = _pmap(_work, cases)
    bad, njudged = judge_writes(obs, wd, tag, lambda res, lo: ctx.tlc(res, 'ReportTreeTrace/%s[%d:]' % (tag, lo)))
    for group, clauses in bad:
        # one finding per distinct (tree, disk): named after the write with the simplest past that shows it (a defect of
        # the first write is not reported again for every later write that leaves the same disk)
        ci, wi = min(group, key=lambda m: (obs[m[0]][m[1]]['suffix'] != '', m[1], m[0]))
        case, o = cases[ci], obs[ci][wi]
        ctx.violation(vkey(case, clauses, o),
                      'clauses %s of ReportTree.tla are false for write %d of the history %r (directory %s, tree %s): %s'
                      % (clauses, wi + 1, case.get('plan') or 'once', o['dir'],
                         dict(o['tree'], title=[title_rec(t)['s'] for t in o['tree']['title']]), _describe(o)),
                      case, module=MOD)
    badcases = set(ci for group, _ in bad for ci, _ in group)
    ndrift = 0
    for k, exp in (expected or {}).items():
        o = obs[k][0]                       # the first write of the history is that of the case's own tree
        if k in badcases or o['rejected'] or any(t.endswith('.rst') for t in cases[k]['title']):
            continue                        # (titles ending in .rst: see the open finding)
        got = [dict(path=p['path'], headers=p['headers'], texts=p['texts'], anchors=p['anchors'], toc=p['toc'])
               for p in o['pages']]
        exp = [dict((f, v) for f, v in p.items() if f != 'nimages') for p in exp]
        if got != exp and ndrift < 3:
            ndrift += 1
            ctx.drift('written pages differ from the model although every clause holds: tree %s: %s vs model %s'
                      % (cases[k], json.dumps(got)[:300], json.dumps(exp)[:300]))
    for case in cases:
        if len(case['parent']) > 1:
            ctx.distinct((tuple(case['parent']), tuple(case['title']), tuple(case['nres']), bool(case.get('figures')),
                          case.get('plan') or 'once'))
    nwrites = sum(len(w) for w in obs)
    ctx.count(evaluations=nwrites, traces=njudged)
    hist = ctx.cov.setdefault('usage_histories', {})
    for case, writes in zip(cases, obs):
        h = hist.setdefault(case.get('plan') or 'once', dict(cases=0, writes=0, with_figures=0))
        h['cases'] += 1
        h['writes'] += len(writes)
        h['with_figures'] += bool(case.get('figures'))
    for k in (0, len(cases) // 2, len(cases) - 1):
        o = obs[k][0]
        ctx.sample(dict(source=tag, case=dict(cases[k], title=[title_rec(t)['s'] for t in cases[k]['title']],
                                              other=None if not cases[k].get('other') else
                                              dict(cases[k]['other'], title=[title_rec(t)['s'] for t in cases[k]['other']['title']])),
                        writes=len(obs[k]), rejected=o['rejected'], files=o['inside'][:12], outside=o['outside']))
    return obs, bad


def consts(maxnodes, titles, pats, maxdepth=6, figures=False):
    return dict(MaxNodes=maxnodes, TitleNames=frozenset(titles), ResPatterns=frozenset(pats), MaxDepth=maxdepth,
                WithFigures=figures)


def random_cases(rng, n, fig_share):
    words = ['A', 'B', 'C', 'index', 'conf', 'figures', 'index.rst', 'A B', 'x.y', '-', 'Cafe', '_static', '.static',
             '', '.', '..', 'a/b', '/', '/abs', 'a\x00b', '...', 'conf.py', 'plot', 'Contents', 'A.rst']
    out = []
    for _ in range(n):
        nn = rng.randint(2, 9)
        parent = [0]
        depth = [1]
        path = [1]                        # rightmost path for pre-order numbering
        for k in range(2, nn + 1):
            cut = rng.randint(1, len(path))
            p = path[cut - 1]
            if depth[p - 1] >= 6:
                p = path[0]
                cut = 1
            parent.append(p)
            depth.append(depth[p - 1] + 1)
            path = path[:cut] + [k]
        easy = rng.random() < 0.5
        title = ['Root'] + [rng.choice(words[:12] if easy else words) for _ in range(nn - 1)]
        if rng.random() < 0.3 and nn > 2:      # force a repeated sibling
            k = rng.randint(3, nn)
            sibs = [q for q in range(2, k) if parent[q - 1] == parent[k - 1]]
            if sibs:
                title[k - 1] = title[rng.choice(sibs) - 1]
        nres = [rng.choice([0, 0, 1, 2]) for _ in range(nn)]
        out.append(dict(parent=parent, title=title, nres=nres, figures=rng.random() < fig_share))
    return out


def _tick(ctx, what, t0=[None]):
    import time
    now = time.time()
    if t0[0] is not None:
        ctx.cov.setdefault('phase_wall_s', []).append([what, round(now - t0[0], 1)])
    t0[0] = now


def run_c20(ctx):
    _tick(ctx, 'start')
    ctx.rule('spec->code: every tree TLC enumerates for ReportTree.tla (pre-order shapes x titles from the alphabet '
             '{A, B, index, conf, figures, "", ".", "..", "a/b", NUL} x result pattern) is built as a real TestReport, '
             'written with Rst.format_report(...).write() into a watched scratch directory and the disk projection is '
             'judged by TLC; code->spec: seeded random trees (up to 9 sections, arbitrary title strings, figures) '
             'validated by ReportTreeTrace.tla.  Every tree is run through a usage history of the formatter and of the '
             'formatted report, in rotation (cases with figures have their own rotation): written once; the same '
             'formatted report written to two / three fresh directories; written twice into the same directory; two '
             'reports (the tree and the next one) formatted by one formatter before either is written; A written, B '
             'formatted and written, A written again.  Every written directory is one record judged by TLC with the '
             'tree written into it (identical records are judged once), and a directory changed by a later write is '
             'judged again.  A result is recognised on a page by its own description and by any explicit target whose '
             'label carries its fingerprint, whatever the spelling of the label.  distinct_nontrivial = distinct '
             '(tree, usage history) with at least one section below the root.')
    ctx.assume('a title is unusable as a file name iff it is empty, ".", ".." or contains "/" or NUL; an empty target '
               'directory left behind by a rejected write is tolerated, any entry in it is not')
    ctx.assume('sections with the same chain of titles (repeated sibling titles) may share one page provided each '
               'content is there exactly once; such trees may also be rejected')
    ctx.assume('toctree entries are resolved as Sphinx does: relative to the directory of the page, the source suffix '
               'dropped; titles have no leading or trailing white space (Sphinx strips toctree entries, and such a line '
               'is no reStructuredText title)')
    ctx.assume('a tree in which the directory of a section is also a file of the report (conf.py, the page of another '
               'section) cannot be written: it may be rejected, cleanly')
    wd = tlc.workdir('c20')
    os.environ['VERIF_C20_TMP'] = tlc.workdir('c20w')

    # 1. the model: all trees of the configuration through check / set-up / pages / figures
    model = ctx.pick(consts(4, ALPHABET, [0, 2], figures=True),
                     consts(5, ('A', 'B', 'index', 'figures', '', 'a/b', '.'), [0, 1, 2], figures=True))
    deep = consts(7, ('A',), [1], maxdepth=7)
    clash = consts(4, ('A', 'index', 'figures') + RESERVED, [1])
    jobs = [('ReportTree/trees', model, INVS, True), ('ReportTree/deep-chains', deep, INVS, True),
            ('ReportTree/file-directory-clashes', clash, INVS, True)]
    wcfg = consts(4, ('A', 'index', 'conf.py'), [1], maxdepth=7)
    jobs += [(w, deep if w == 'W_TooDeep' else wcfg, [w], False) for w in WITNESSES]

    def one(job):
        name, cst, invs, cov = job
        cfg = tlc.write_cfg(os.path.join(wd, name.replace('/', '_') + '.cfg'), constants=cst, invariants=invs, deadlock=False)
        dump = os.path.join(wd, name.replace('/', '_')) if cov else None
        return tlc.run(SPEC, cfg, coverage=cov, workers=6 if cov else 2, dump=dump), dump
    with ThreadPoolExecutor(len(jobs)) as pool:
        results = list(pool.map(one, jobs))
    dumps = []
    for (name, cst, invs, cov), (res, dump) in zip(jobs, results):
        if cov:
            ctx.tlc(res, name)
            if not res.ok:
                raise tlc.MachineryError('ReportTree.tla %s: %s\n%s' % (name, res.violation, res.out[-1500:]))
            tlc.check_coverage(res, ['Reject', 'Setup', 'WritePage', 'WriteFigures'], name)
            dumps.append(dump)
        elif res.violation != ('invariant', name):
            raise tlc.MachineryError('witness %s not reachable in ReportTree.tla' % name)

    _tick(ctx, 'model + witnesses')
    # 2. spec -> code: the enumerated trees (their final states carry the model's disk)
    cases, expected, seen = [], {}, {}
    for dump in dumps:
        for st in tlc.read_dump(dump):
            if st['phase'] not in ('rejected', 'done'):
                continue
            case = case_of_state(st, figures=False)
            sig = json.dumps(case, sort_keys=True)
            if sig in seen:
                continue
            seen[sig] = len(cases)
            if st['phase'] == 'done':
                expected[len(cases)] = model_disk(st)
            cases.append(case)
        os.remove(dump + '.dump')
    _tick(ctx, 'read dumps')
    limit = ctx.pick(3000, 10 ** 9)
    if len(cases) > limit:                      # keep all small trees, thin out the largest ones deterministically
        small = [i for i, c in enumerate(cases) if len(c['parent']) < 4]
        big = [i for i, c in enumerate(cases) if len(c['parent']) >= 4]
        step = -(-len(big) // max(1, limit - len(small)))
        keep = sorted(small + big[::step])
        expected = {new: expected[old] for new, old in enumerate(keep) if old in expected}
        cases = [cases[i] for i in keep]
    # figures are costly (matplotlib): every 40th written tree gets them
    for k, case in enumerate(cases):
        if k % ctx.pick(150, 60) == 7 and sum(case['nres']) > 0:
            case['figures'] = True
    assign_plans(cases)
    check_cases(ctx, cases, wd, 'enumerated', expected)
    ctx.cov['inputs'] = dict(enumerated_by_tlc=len(cases))
    # the figures can be written by a pool of worker processes (the command line does it with 4): few and many
    # figures for 2 and 4 workers (run in this process: a pool cannot be started from a pool worker)
    wcases = []
    for case in cases:
        nfig = sum(case['nres'])
        if nfig > 0 and '' not in case['title'][1:] and all(t in ('A', 'B', 'figures', 'conf') for t in case['title'][1:]):
            sig = (nfig, len(case['parent']))
            if sig not in [w[0] for w in wcases]:
                wcases.append((sig, case))
    wsel = []
    for k, (sig, case) in enumerate(sorted(wcases, key=lambda x: x[0])[:ctx.pick(6, 16)]):
        wsel.append(dict(case, figures=True, workers=(2, 4)[k % 2]))
    if wsel:
        assign_plans(wsel)
        check_cases(ctx, wsel, wd, 'figure-workers')
        ctx.cov['inputs']['written_with_worker_pool'] = len(wsel)
    _tick(ctx, 'enumerated trees written + judged')
    # 3. code -> spec
    rcases = assign_plans(random_cases(ctx.rng, ctx.pick(1000, 20000), 0.01))
    check_cases(ctx, rcases, wd, 'random')
    ctx.cov['inputs']['seeded_random'] = len(rcases)
    _tick(ctx, 'random trees')
    ctx.cov['exhaustive'] = True
    ctx.cov['explanation'] = ('exhaustive for the TLC configurations in tlc_runs (every enumerated tree written%s); random beyond'
                              % ('' if len(cases) <= limit else ', the largest thinned out in the quick tier'))


def replay_case(case):
    wd = tlc.workdir('c20r')
    os.environ['VERIF_C20_TMP'] = tlc.workdir('c20w')
    writes = observe(case)
    bad, _ = judge_writes([writes], wd, 'r')
    detail = '; '.join('write %d (%s%s): %s' % (wi + 1, o['dir'], o['suffix'], _describe(o)[:300]) for wi, o in enumerate(writes))
    if bad:
        return False, 'history %r: %s; %s' % (case.get('plan') or 'once', '; '.join(
            'write %d (%s%s): clauses %s false' % (wi + 1, writes[wi]['dir'], writes[wi]['suffix'], cl)
            for wi, cl in sorted((wi, cl) for group, cl in bad for _, wi in group)), detail)
    return True, 'all clauses of ReportTree.tla hold for the %d written directories of history %r; %s' % (
        len(writes), case.get('plan') or 'once', detail)
