"""Decide.tla <-> QueueScheduling.decide_new_state: every enumerated input is one direct call (spec -> code);
random bigger inputs are judged back by TLC through DecideTrace.tla (code -> spec).  Used by C02 and C04."""
import json
import os

import tlc

SPEC = os.path.join(tlc.SPECS, 'Decide.tla')
TRACE = os.path.join(tlc.SPECS, 'DecideTrace.tla')
INVS = ['ReferenceAllowed', 'SomethingAllowed', 'ReleaseOnlyWhenAllFinal', 'WaitOnlyIfNotFinal', 'NoWaitWhenAllFinal', 'SkipIffBadHard',
        'SkipWhenFinalAndBadHard', 'NeverRunWithBadHard', 'DropOnlyIfDoneAndFresh', 'DoneAndFreshIsDropped', 'NoAssertWhenConstrained',
        'StatusFollows']
ALL_OWN = ['ABSENT', 'WAITING', 'DONE', 'FAILED', 'SKIPPED', 'PENDING']


def F(x):
    return [x[k] for k in sorted(x)] if isinstance(x, dict) and x and all(isinstance(k, int) for k in x) else list(x)


class NoDecisionFunction(Exception):
    """The backend has no decision function that can be called for one task (it was renamed or inlined)."""


def _decide_fn(q_mod):
    cls = q_mod.QueueScheduling
    for name in ('decide_new_state', '_decide_new_state', 'decide', '_decide'):
        fn = getattr(cls, name, None)
        if callable(fn):
            return fn
    raise NoDecisionFunction('QueueScheduling has no decide_new_state')


def call_real(own, deps):
    import schedrun
    env_mod, q_mod = schedrun.load()
    from valjean.cosette.task import Task, TaskStatus

    class T(Task):
        def do(self, env, config):
            return {}, TaskStatus.DONE
    task = T('t0')
    dtasks = [T('d%d' % (i + 1)) for i in range(len(deps))]
    d = {}
    if own['st'] != 'ABSENT':
        d['t0'] = {'status': getattr(TaskStatus, own['st'])}
        if own['s'] != -1:
            d['t0'].update(start_clock=own['s'], end_clock=own['s'])
    for dt, dep in zip(dtasks, deps):
        if dep['st'] != 'ABSENT':
            d[dt.name] = {'status': getattr(TaskStatus, dep['st'])}
            if dep['e'] != -1:
                d[dt.name].update(start_clock=dep['e'] - 1, end_clock=dep['e'])
    env = env_mod.Env(d)
    before = {k: dict(v) for k, v in schedrun.env_dict(env).items() if k != 't0'}
    decide = _decide_fn(q_mod)
    try:
        res = decide(task, dtasks, [dt for dt, dep in zip(dtasks, deps) if dep['hard']], env)
        decision = 'DROP' if res is None else TaskStatus(res).name
    except Exception:  # pylint: disable=broad-except
        decision = 'ASSERT'           # any exception raised BY THE CALL: it refuses the input
    e = schedrun.env_dict(env).get('t0')
    status = 'ABSENT' if e is None or 'status' not in e else TaskStatus(e['status']).name
    if own['st'] == 'ABSENT' and status == 'WAITING' and decision in ('DROP', 'ASSERT'):
        status = 'ABSENT'
    touched = {k: dict(v) for k, v in schedrun.env_dict(env).items() if k != 't0'} != before
    return dict(decision=decision, status=status), touched


def run(ctx, wd, pid):
    import schedrun
    try:
        _decide_fn(schedrun.load()[1])
    except NoDecisionFunction as ex:
        ctx.drift('Decide.tla cannot be bound to the code: %s; the decision rule is still checked through Sched / Runs' % ex)
        return
    consts = {'MaxDeps': ctx.pick(2, 3), 'Clocks': frozenset({1, 2, 3}), 'OwnStatuses': frozenset(ALL_OWN)}
    cfg = tlc.write_cfg(os.path.join(wd, 'decide.cfg'), constants=consts, invariants=INVS, deadlock=False)
    dump = os.path.join(wd, 'decide')
    res = tlc.run(SPEC, cfg, dump=dump)
    ctx.tlc(res, 'Decide/all-inputs')
    if not res.ok:
        raise tlc.MachineryError('Decide.tla: %s' % (res.violation,))
    for wit in ('W_Drop', 'W_Stale', 'W_NoClock', 'W_EarlySkip'):
        c2 = tlc.write_cfg(os.path.join(wd, wit + '.cfg'), constants=dict(consts, MaxDeps=2), invariants=[wit], deadlock=False)
        r2 = tlc.run(SPEC, c2, coverage=False)
        if r2.violation != ('invariant', wit):
            raise tlc.MachineryError('witness %s not reachable in Decide.tla' % wit)
    n = 0
    for st in tlc.read_dump(dump):
        if st['pc'] != 'done':
            continue
        own = dict(st['own'])
        deps = [dict(x) for x in F(st['deps'])]
        obs, touched = call_real(own, deps)
        out = dict(st['out'])
        exp = dict(decision=out['decision'], status=out['status'])
        n += 1
        # acceptable: a decision TLC lists as allowed for this input, with the status that decision implies (Decide!Accepts)
        ok = obs['decision'] in out['allowed'] and (out['free'] or obs['status'] == (
            obs['decision'] if obs['decision'] in ('WAITING', 'SKIPPED', 'PENDING') else own['st']))
        if not ok or touched:
            key = '%s/decide/%s-instead-of-%s/own=%s' % (pid, obs['decision'], exp['decision'], own['st'])
            ctx.violation(key, 'decide_new_state gives %s%s, Decide.tla expects %s' % (obs, ' and modifies a dependency entry' if touched else '', exp),
                          dict(own=own, deps=deps), module='conf_decide')
        ctx.distinct(('decide', exp['decision'], own['st'], tuple(sorted((x['hard'], x['st'], x['e'] != -1) for x in deps))))
    os.remove(dump + '.dump')
    ctx.count(evaluations=n, traces=n)
    # code -> spec
    rng = ctx.rng
    cases = []
    for cid in range(1, ctx.pick(3000, 40000) + 1):
        own_st = rng.choice(ALL_OWN)
        own = dict(st=own_st, s=-1 if own_st == 'ABSENT' or rng.random() < 0.2 else rng.randint(1, 30))
        deps = []
        for _ in range(rng.randint(0, 6)):
            dst = rng.choice(['ABSENT', 'WAITING', 'PENDING', 'DONE', 'DONE', 'DONE', 'FAILED', 'SKIPPED'])
            deps.append(dict(hard=rng.random() < 0.5, st=dst, e=-1 if dst == 'ABSENT' or rng.random() < 0.25 else rng.randint(1, 30)))
        obs, touched = call_real(own, deps)
        if touched:
            ctx.violation('%s/decide/modifies-dependency' % pid, 'decide_new_state modified the entry of a dependency', dict(own=own, deps=deps), module='conf_decide')
        cases.append(dict(id=cid, own=own, deps=deps, obs=obs))
    cj = tlc.json_dump(os.path.join(wd, 'decide_cases.json'), cases)
    oj = os.path.join(wd, 'decide_out.json')
    cfg = tlc.write_cfg(os.path.join(wd, 'decidetrace.cfg'), spec='TSpec', invariants=['ReleaseOnlyWhenAllFinal', 'NeverRunWithBadHard', 'DropOnlyIfDoneAndFresh'],
                        deadlock=False, postcondition='Post')
    res = tlc.run(TRACE, cfg, workers=1, coverage=False, env=dict(VERIF_CASES=cj, VERIF_OUT=oj))
    ctx.tlc(res, 'DecideTrace/random')
    if not res.ok:
        raise tlc.MachineryError('DecideTrace: %s\n%s' % (res.violation, res.out[-1500:]))
    with open(oj) as f:
        bad = json.load(f)['bad']
    byid = {c['id']: c for c in cases}
    for cid, exp in bad:
        c = byid[cid]
        key = '%s/decide/%s-instead-of-%s/own=%s' % (pid, c['obs']['decision'], exp['decision'], c['own']['st'])
        ctx.violation(key, 'decide_new_state gives %s, Decide.tla expects %s' % (c['obs'], exp), dict(own=c['own'], deps=c['deps']), module='conf_decide')
    ctx.count(evaluations=len(cases), traces=len(cases))
    ctx.sample(dict(decide_case=cases[0]))


def replay_case(case):
    obs, touched = call_real(case['own'], case['deps'])
    wd = tlc.workdir('decr')
    cj = tlc.json_dump(os.path.join(wd, 'c.json'), [dict(id=1, own=case['own'], deps=case['deps'], obs=obs)])
    oj = os.path.join(wd, 'o.json')
    cfg = tlc.write_cfg(os.path.join(wd, 't.cfg'), spec='TSpec', deadlock=False, postcondition='Post')
    tlc.run(TRACE, cfg, workers=1, coverage=False, env=dict(VERIF_CASES=cj, VERIF_OUT=oj))
    with open(oj) as f:
        bad = json.load(f)['bad']
    return (not bad and not touched), 'observed %s, Decide.tla expects %s' % (obs, bad[0][1] if bad else 'the same')
