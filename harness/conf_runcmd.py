"""C19 -- tasks that run external commands: binding of specs/RunCmd.tla to valjean.cosette.run.RunTask
(and valjean.path.sanitize_filename), called directly (task.do) and through Scheduler.schedule with
real worker threads.

Commands are `sh -c "printf <tokens>; printf <tokens> >&2; exit k"` (tokens are written with octal
escapes so that the `$ cmd` echo on stderr never contains one) or an executable that cannot be started
(missing file / a directory / a file without execute permission).

spec -> code : TLC enumerates every command list of the configuration (exit statuses x cannot-start x
               tokens per stream) and every list of task names; each terminal state it dumps is executed
               and the observation (status, return codes, captured tokens / accepted names, directories,
               files below the output root) compared with the TLC state.
code -> spec : seeded random longer command lists (more exit statuses, signals, three ways of not
               starting, both modes) and random name lists over a larger alphabet are executed; TLC
               evaluates the clauses of RunCmd on the recorded observations (RunCmdTrace.tla).

Files below the output root: the TLC state holds what the statement requires (the task's directory and its two capture
files); these must be found.  Whatever else is found is judged by TLC (clause Fs = RunCmd!FsCovers): allowed only below
the directory of an accepted task, so a rejected name creates nothing; the clause is self-tested on made-up file systems.

Names that some layer would interpret: besides letters and the characters a file name cannot hold, the name alphabet has the
characters a shell, the process environment, glob or path expansion give a meaning to ($ ${ } ~ * ? % \\ quotes ` ; [ #
newline, a leading -).  While tasks run, the process environment holds variables named like the letter atoms (a, b, ab, ..,
stdout, stderr) whose values are other tasks' names, "..", "." and "", and HOME points next to the output root: a name that
spells $a, ${b}, ~ .. is a valid file name, TLC treats its atoms as ordinary letters, so the directory must be the one
named as written (clauses DirBelowRoot / DirInjective / DirNotCapture / Fs / DirAsSpecified).  Both directions: TLC
enumerates all short names and pairs over a sub-alphabet {a, b} + three such atoms that rotates with the seed (NL_Sub; all
windows in the thorough tier); the random name lists are drawn over small random sub-alphabets, and a share of the random
command lists runs under such a name instead of 'task'.

Families of tasks with related names: "the captured output files belong to that task only" speaks of several tasks under the
same roots.  For each class that captures output (RunTask, BuildTask, CheckoutTask) families of 2-3 tasks run in the same
output / log roots -- one after the other, or together under one scheduler -- under names related the way file-name handling
could conflate (they differ only after the last dot, only by case, by a trailing dot / space, one is a prefix of the other,
one is another plus .log / .out / .stdout, several dots, a leading dot).  Each task has its own command list and its tokens
carry its number; AFTER ALL tasks of the family have run every task is judged by the clauses of RunCmd on its own capture
files (Capture: exactly its commands' tokens in order) and by OwnFiles (its capture files are no other task's).  RunTask's
files are looked for in <output root>/<name>/; the log of a BuildTask / CheckoutTask is the file the result names (build_log /
checkout_log): the log root is documented as shared, one file per task.  Key suffix /name-family:<relation>.
"""
import json
import os
import re
import shutil
import stat
import multiprocessing

import tlc
from tlc import Raw
from tlaval import MV

SPEC = os.path.join(tlc.SPECS, 'RunCmd.tla')
TRACE = os.path.join(tlc.SPECS, 'RunCmdTrace.tla')
RUN_INVS = ['C19_DoneIffAllZero', 'C19_FailedOtherwise', 'C19_StopAtFirst', 'C19_CodesOfRun', 'C19_Capture',
            'C19_NeverEscapes', 'C19_Progress']
NAME_INVS = ['C19_DirBelowRoot', 'C19_DirInjective', 'C19_DirNotCapture', 'C19_Rejected', 'C19_OwnFiles']
ATOMS = {'a': 'a', 'b': 'b', '.': '.', '/': '/', 'NUL': '\0', 'stdout': 'stdout', 'stderr': 'stderr', 'sp': ' ',
         'e9': u'é', 'dash': '-', 'nl': '\n',
         # what a shell / the environment / glob / path expansion would interpret.  The concrete spelling must stay uniquely
         # decodable into atoms (TLC's names are sequences of atoms): '${' is an atom, so '{' alone must not be one
         'dol': '$', 'dolbr': '${', 'rbr': '}', 'tilde': '~', 'star': '*', 'qm': '?', 'pct': '%', 'bsl': '\\', 'sq': "'",
         'dq': '"', 'bq': '`', 'semi': ';', 'lsq': '[', 'hash': '#'}
# atoms of the families of related names only (not drawn by the random name lists)
FAMILY_ATOMS = {'A': 'A', 'log': 'log', 'out': 'out'}
LETTERS = ['a', 'b', 'stdout', 'stderr']
INTERPRETED = ['dol', 'dolbr', 'rbr', 'tilde', 'star', 'qm', 'pct', 'bsl', 'sq', 'dq', 'nl', 'dash', 'bq', 'semi', 'lsq', 'hash']
PLAIN = [a for a in ATOMS if a not in LETTERS and a not in INTERPRETED]
RANDOM_ATOMS = list(ATOMS)
ATOMS.update(FAMILY_ATOMS)
# the process environment while named tasks run: variables that names over the letter atoms refer to ($a, ${ab}, %b%, ..)
# with the values another task's name, the way up, the directory itself, nothing, a capture file of another task
NAME_ENV = {'a': 'b', 'b': '..', 'ab': 'a', 'ba': 'stdout', 'aa': '.', 'bb': '', 'stdout': 'a', 'stderr': 'a/stdout'}
_TOKEN = re.compile(rb'<([OE])(\d+)\.(\d+)>')
_POOL = 8


def _scratch(prefix):
    import tempfile
    if os.path.isdir('/dev/shm') and os.access('/dev/shm', os.W_OK):
        d = tempfile.mkdtemp(prefix='verif-%s-' % prefix, dir='/dev/shm')
        tlc._WORK.append(d)      # pylint: disable=protected-access
        return d
    return tlc.workdir(prefix)


class _environ:
    """The process environment of a names case: `env` (default NAME_ENV) and HOME = <scratch>/home, restored on exit."""

    def __init__(self, root, env=None):
        self.new = dict(NAME_ENV if env is None else env, HOME=os.path.join(root, 'home'))
        self.old = {}

    def __enter__(self):
        for k, v in self.new.items():
            self.old[k] = os.environ.get(k)
            os.environ[k] = v

    def __exit__(self, *exc):
        for k, v in self.old.items():
            if v is None:
                os.environ.pop(k, None)
            else:
                os.environ[k] = v
        return False


def _octal(text):
    return ''.join('\\%03o' % b for b in text.encode())


def _config(root, side=None):
    """Configuration with the given output root; the log / report roots are below it, or below `side`."""
    from valjean.config import Config
    side = root if side is None else side
    return Config({'path': {'output-root': root, 'log-root': os.path.join(side, '.log'),
                            'report-root': os.path.join(side, '.report')}})


# ---------------------------------------------------------------------------------------------
# op = "run"

def _cli(i, cmd, aux):
    """Command line of the i-th command (1-based).  cmd = dict(exit=int|None, nout, nerr, how)."""
    if cmd['exit'] is None:
        how = cmd.get('how', 'missing')
        path = os.path.join(aux, '%s-%d' % (how, i))
        if how == 'dir':
            os.makedirs(path, exist_ok=True)
        elif how == 'noexec':
            with open(path, 'w') as f:
                f.write('#!/bin/sh\nexit 0\n')
            os.chmod(path, stat.S_IRUSR | stat.S_IWUSR)
        return [path, 'arg']
    parts = []
    for j in range(1, cmd['nout'] + 1):
        parts.append("printf '%s'" % _octal('<O%d.%d>' % (i, j)))
    for j in range(1, cmd['nerr'] + 1):
        parts.append("printf '%s' >&2" % _octal('<E%d.%d>' % (i, j)))
    if cmd['exit'] < 0:
        parts.append('kill -%d $$' % -cmd['exit'])
    else:
        parts.append('exit %d' % cmd['exit'])
    return ['sh', '-c', '; '.join(parts)]


def _own(num, base):
    """Command number of a token as its task sees it.  base = None: the only task.  In a family the tokens of member j are
    numbered from base = 100 j: a token of another member is foreign (0)."""
    if base is None:
        return num
    return num - base if base < num < base + 100 else 0


def _tokens(path, stream, base=None):
    """Tokens in a capture file.  stdout must consist of O-tokens only; on stderr everything that is not a
    token is extra (the `$ cmd` echo lines).  A token of the other stream, or foreign bytes on stdout, show as [0, 0]."""
    try:
        with open(path, 'rb') as f:
            data = f.read()
    except OSError:
        return [[-1, -1]]
    toks = []
    pos = 0
    for m in _TOKEN.finditer(data):
        if stream == 'O' and m.start() != pos:
            toks.append([0, 0])
        pos = m.end()
        if m.group(1).decode() != stream or not _own(int(m.group(2)), base):
            toks.append([0, 0])
        else:
            toks.append([_own(int(m.group(2)), base), int(m.group(3))])
    if stream == 'O' and pos != len(data):
        toks.append([0, 0])
    return toks


def observe_run(case):
    """Execute one command list on a real RunTask; returns the observation.  case['name'] (atoms; default 'task') is the
    name of the task: the capture files are looked for in <output root>/<the name as written>, and the process environment
    of a names case is in place."""
    root = _scratch('c19r')
    with _environ(root, case.get('env')):
        return _observe_run(case, root)


def _observe_run(case, root):
    from valjean.cosette.run import RunTask
    from valjean.cosette.env import Env
    from valjean.cosette.task import TaskStatus
    aux = os.path.join(root, '.aux')
    os.makedirs(aux)
    out_root = os.path.join(root, 'out')
    config = _config(out_root)
    tname = concretise(case['name']) if case.get('name') else 'task'
    clis = [_cli(i, c, aux) for i, c in enumerate(case['cmds'], 1)]
    if case.get('prior'):
        # a task of the same name ran earlier into the same output root (an earlier session, or a re-execution): its
        # tokens are numbered from 51 so that anything left of them in the capture files of this run shows
        try:
            RunTask.from_clis(tname, [_cli(50 + i, c, aux) for i, c in enumerate(case['prior'], 1)]).do(Env(), config)
        except Exception:  # pylint: disable=broad-except
            pass
    task = RunTask.from_clis(tname, clis)
    obs = dict(status='NONE', raised=False, escaped=False, rcs=[], exc='')
    if case['mode'] == 'direct':
        try:
            env_up, status = task.do(Env(), config)
            obs['status'] = TaskStatus(status).name
            obs['rcs'] = [int(x) for x in env_up[tname]['return_codes']]
            paths = (env_up[tname]['stdout'], env_up[tname]['stderr'])
            if os.path.dirname(paths[0]) != os.path.realpath(os.path.join(out_root, tname)):
                obs['exc'] = 'capture files outside the task directory: %s' % (paths,)
                obs['status'] = 'NONE'
        except Exception as ex:  # pylint: disable=broad-except
            obs['raised'] = True
            obs['exc'] = type(ex).__name__
    else:
        from valjean.cosette.depgraph import DepGraph
        from valjean.cosette.scheduler import Scheduler
        from valjean.cosette.backends.queue import QueueScheduling
        env = Env()
        try:
            graph = DepGraph.from_dependency_dictionary({task: []})
            Scheduler(hard_graph=graph, backend=QueueScheduling(n_workers=1)).schedule(config=config, env=env)
        except Exception as ex:  # pylint: disable=broad-except
            obs['escaped'] = True
            obs['exc'] = type(ex).__name__
        entry = env.get(tname, {})
        try:
            obs['status'] = TaskStatus(entry.get('status')).name
        except ValueError:
            obs['status'] = 'NONE'
        if 'return_codes' in entry:
            obs['rcs'] = [int(x) for x in entry['return_codes']]
        else:
            obs['raised'] = True          # the task ended without a result: by an exception
    obs['out'] = _tokens(os.path.join(out_root, tname, 'stdout'), 'O')
    obs['err'] = _tokens(os.path.join(out_root, tname, 'stderr'), 'E')
    shutil.rmtree(root, ignore_errors=True)
    return obs


# ---------------------------------------------------------------------------------------------
# op = "run" through the tasks of valjean.cosette.code: the command lines are composed by the task, the
# executable (cmake / git) is a script that counts its invocations and behaves, at the n-th one, like
# the n-th command of the plan

_TOOL = """#!/bin/sh
d='%s'
n=$(($(cat "$d/count" 2>/dev/null || echo 0) + 1))
echo $n > "$d/count"
if [ -f "$d/cmd-$n.sh" ]; then exec sh "$d/cmd-$n.sh"; fi
exit 0
"""


def _log_tokens(path, stream, base=None):
    try:
        with open(path, 'rb') as f:
            data = f.read()
    except OSError:
        return [[-1, -1]]
    return [[_own(int(m.group(2)), base), int(m.group(3))] if _own(int(m.group(2)), base) else [0, 0]
            for m in _TOKEN.finditer(data) if m.group(1).decode() == stream]


def observe_tool(case):
    """One BuildTask / CheckoutTask whose tool follows case['cmds'] (the plan, by invocation number).  The observation
    carries `invoked`: the number of times the tool was started; the command list judged by TLC is the plan up to there."""
    from valjean.cosette.code import BuildTask, CheckoutTask
    from valjean.cosette.env import Env
    from valjean.cosette.task import TaskStatus
    root = _scratch('c19t')
    aux = os.path.join(root, '.aux')
    os.makedirs(aux)
    out_root = os.path.join(root, 'out')
    config = _config(out_root)
    plan = case['cmds']
    tool = os.path.join(aux, 'tool')
    if plan and plan[0]['exit'] is None:
        tool = _cli(1, plan[0], aux)[0]
    else:
        with open(tool, 'w') as f:
            f.write(_TOOL % aux)
        os.chmod(tool, 0o755)
        for i, c in enumerate(plan, 1):
            with open(os.path.join(aux, 'cmd-%d.sh' % i), 'w') as f:
                f.write(_cli(i, c, aux)[2] + '\n')
    targets = [['x', 'y', 'z'][j] for j in range(case['targets'])] if case['targets'] >= 0 else None
    scripted = tool == os.path.join(aux, 'tool')
    # The executable is the class attribute CMAKE / GIT, which "may be overridden before class instantiation": a throw-away
    # subclass does that whether the task reads the attribute when it is built or when it runs.  As a second line the
    # scripted tool is also first on PATH under the names cmake and git.
    old_path = os.environ.get('PATH', '')
    if scripted:
        bindir = os.path.join(aux, 'bin')
        os.makedirs(bindir)
        for exe in ('cmake', 'git'):
            os.symlink(tool, os.path.join(bindir, exe))
        os.environ['PATH'] = bindir + os.pathsep + old_path
    if case['via'] == 'build':
        src = os.path.join(root, 'src')
        os.makedirs(src)
        task = type('ScriptedBuildTask', (BuildTask,), {'CMAKE': tool})(
            'task', src, targets=targets, configure_flags=case.get('cflags'), build_flags=case.get('bflags'))
        log_key = 'build_log'
    else:
        task = type('ScriptedCheckoutTask', (CheckoutTask,), {'GIT': tool})(
            'task', repository=os.path.join(root, 'repo'), flags=case.get('cflags'), ref=case.get('ref'))
        log_key = 'checkout_log'
    obs = dict(status='NONE', raised=False, escaped=False, rcs=[], exc='')
    if case['mode'] == 'direct':
        try:
            env_up, status = task.do(Env(), config)
            obs['status'] = TaskStatus(status).name
            if log_key not in env_up['task']:
                if obs['status'] == 'FAILED':
                    obs['raised'] = True          # do() itself reports that the tool could not be started: no result, no log
                else:
                    obs['status'], obs['exc'] = 'NONE', 'no %s in the result' % log_key
        except Exception as ex:  # pylint: disable=broad-except
            obs['raised'] = True
            obs['exc'] = type(ex).__name__
    else:
        from valjean.cosette.depgraph import DepGraph
        from valjean.cosette.scheduler import Scheduler
        from valjean.cosette.backends.queue import QueueScheduling
        env = Env()
        try:
            graph = DepGraph.from_dependency_dictionary({task: []})
            Scheduler(hard_graph=graph, backend=QueueScheduling(n_workers=1)).schedule(config=config, env=env)
        except Exception as ex:  # pylint: disable=broad-except
            obs['escaped'] = True
            obs['exc'] = type(ex).__name__
        entry = env.get('task', {})
        try:
            obs['status'] = TaskStatus(entry.get('status')).name
        except ValueError:
            obs['status'] = 'NONE'
        if log_key not in entry:
            obs['raised'] = True
    try:
        with open(os.path.join(aux, 'count')) as f:
            invoked = int(f.read().strip() or 0)
    except OSError:
        invoked = 0
    os.environ['PATH'] = old_path
    obs['invoked'] = invoked
    # the tool can start and the task ended, yet the script never ran: the task used another executable, i.e. the harness
    # failed to put its tool in place.  Nothing was observed of valjean: the case is not judged (DRIFT in run_c19).
    obs['unbound'] = bool(scripted and invoked == 0)
    ran = _ran(case, obs)
    obs['rcs'] = [c['exit'] for c in ran if c['exit'] is not None]
    log = os.path.join(out_root, '.log', 'task.log')
    obs['out'] = _log_tokens(log, 'O')
    obs['err'] = _log_tokens(log, 'E')
    shutil.rmtree(root, ignore_errors=True)
    return obs


def _ran(case, obs):
    """The commands of a tool case as far as the task got: the plan up to the number of invocations (a tool that
    cannot be started is the first command and was not counted)."""
    plan = case['cmds']
    if plan and plan[0]['exit'] is None:
        return plan[:1]
    k = obs['invoked']
    return [plan[i] if i < len(plan) else dict(exit=0, nout=0, nerr=0, how='') for i in range(k)]


def _judged(case, obs):
    """The case as TLC judges it: for tool cases the command list is what the task actually ran."""
    if case.get('via', 'run') == 'run':
        return case
    return dict(case, cmds=_ran(case, obs))


def _state_to_run_case(st):
    cmds = [dict(exit=None if isinstance(c['exit'], MV) else int(c['exit']), nout=c['nout'], nerr=c['nerr'], how='missing')
            for c in st['cmds']]
    return dict(op='run', mode=st['mode'], cmds=cmds)


def _run_agrees(st, obs):
    """Observation against the TLC state.  Called directly, a command that cannot start may surface as
    an exception (what TLC shows) or as a FAILED result with the codes of the commands run."""
    exp = dict(status=st['status'], raised=bool(st['raised']), rcs=list(st['rcs']),
               out=[list(t) for t in st['out']], err=[list(t) for t in st['err']])
    problems = []
    if obs['escaped']:
        problems.append('NeverEscapes')
    if obs['out'] != exp['out'] or obs['err'] != exp['err']:
        problems.append('Capture')
    if exp['raised'] and st['mode'] == 'direct' and not obs['raised']:
        if obs['status'] != 'FAILED':
            problems.append('DoneIffAllZero')
        if obs['rcs'] != exp['rcs']:
            problems.append('CodesOfRun')
    elif exp['raised'] and st['mode'] == 'direct' and obs['raised'] and obs['status'] == 'FAILED':
        pass        # do() reports the failure itself, without a result (no return codes / no log): as good as raising
    else:
        if obs['raised'] != exp['raised'] or obs['status'] != exp['status']:
            problems.append('DoneIffAllZero' if 'DONE' in (obs['status'], exp['status']) else 'FailedOtherwise')
        if not obs['raised'] and obs['rcs'] != exp['rcs']:
            problems.append('CodesOfRun')
    return problems, exp


def run_key(case, clauses):
    first_bad = next((c for c in case['cmds'] if c['exit'] != 0), None)
    shape = 'all-zero' if first_bad is None else 'cannot-start' if first_bad['exit'] is None else 'nonzero'
    via = (case.get('via', 'run') + ('/rerun' if case.get('prior') else '') + ('/name-interpreted' if case.get('name') else '')
           + ('/name-family:' + case['rel'] if case.get('rel') else ''))
    if case.get('rel'):       # a family: the class is the relation of the names, whatever the command list of the member
        return 'C19/%s/%s/%s' % (via, case['mode'], '+'.join(sorted(set(clauses))))
    return 'C19/%s/%s/%s/%s' % (via, case['mode'], shape, '+'.join(sorted(set(clauses))))


# ---------------------------------------------------------------------------------------------
# op = "run", families: 2-3 tasks of one class with related names in the same roots, each with its own command list

RELATIONS = ['after-last-dot', 'case', 'prefix', 'plus-suffix', 'several-dots', 'leading-dot', 'trailing']
_STRAY = """#!/bin/sh
: > '%s'
exit 0
"""


def _related_names(rng, rel, size=None):
    """2-3 distinct valid task names (atoms: letters, dots, a space; no '/', no NUL, not '.', not '..') related by `rel`."""
    letters = ['a', 'b', 'A', 'stdout', 'log']
    stem = [rng.choice(letters) for _x in range(rng.randint(1, 2))]
    x, y, z = rng.sample(['a', 'b', 'A', 'log', 'out', 'stdout', 'stderr'], 3)
    if rel == 'after-last-dot':
        cands = [stem + ['.', x], stem + ['.', y], stem + ['.', z]]
    elif rel == 'case':
        stem = ['a'] + stem
        cands = [stem, ['A'] + stem[1:], stem + ['.', 'a'], stem + ['.', 'A']]
    elif rel == 'prefix':
        cands = [stem, stem + [x], stem + [x, y], stem + ['.', x]]
    elif rel == 'plus-suffix':
        sfx = rng.sample(['log', 'out', 'stdout', 'stderr'], 2)
        cands = [stem, stem + ['.', sfx[0]], stem + ['.', sfx[0], '.', sfx[1]], stem + ['.', sfx[0], '.', sfx[0]]]
    elif rel == 'several-dots':
        cands = [stem + ['.', x, '.', y], stem + ['.', x, '.', z], stem + ['.', '.', y], stem + ['.', x]]
    elif rel == 'leading-dot':
        cands = [['.'] + stem, stem, ['.'] + stem + ['.', x], ['.'] + stem + ['.', y]]
    else:
        cands = [stem, stem + ['.'], stem + ['sp'], stem + ['.', '.'], stem + ['.', 'sp']]
    size = size or rng.randint(2, 3)
    names = cands[:2] + rng.sample(cands[2:], size - 2)     # the first two carry the relation
    rng.shuffle(names)
    return names


def _member_case(case, j):
    """Member j of a family as a case of its own (what TLC judges)."""
    m = case['family'][j]
    return dict(op='run', via=case['via'], mode=case['mode'], cmds=m['cmds'], rel=case['rel'])


def _members(case, obs):
    """[(case, observation)] as judged by TLC: a family is judged member by member."""
    if 'family' not in case:
        return [(case, obs)]
    return [(_member_case(case, j), o) for j, o in enumerate(obs['members'])]


def observe_family(case):
    """Run the tasks of case['family'] (name, cmds; targets / cflags / bflags / ref for via = build / checkout) in the same
    roots: mode 'direct' one after the other by do(), mode 'sched' together under one scheduler with one worker per task (the
    roots exist beforehand then).  Every member is observed after ALL have run; its observation carries `files` (its capture
    files, numbered by real path) and `others` (those of the other members)."""
    root = _scratch('c19f')
    with _environ(root, case.get('env')):
        old_path = os.environ.get('PATH', '')
        try:
            return _observe_family(case, root)
        finally:
            os.environ['PATH'] = old_path
            shutil.rmtree(root, ignore_errors=True)


def _observe_family(case, root):
    # pylint: disable=too-many-locals,too-many-branches,too-many-statements
    from valjean.cosette.run import RunTask
    from valjean.cosette.code import BuildTask, CheckoutTask
    from valjean.cosette.env import Env
    from valjean.cosette.task import TaskStatus
    via, fam = case['via'], case['family']
    out_root = os.path.join(root, 'out')
    side = os.path.join(root, 'side')              # the log root is not below the output root: a task may be named '.log'
    config = _config(out_root, side)
    if case['mode'] == 'sched':
        os.makedirs(out_root)
        os.makedirs(os.path.join(side, '.log'))
    names = [concretise(m['name']) for m in fam]
    log_key = {'build': 'build_log', 'checkout': 'checkout_log'}.get(via)
    tasks, auxs, scripted = [], [], []
    if via != 'run':
        # whatever else than the member's own tool a task might start as cmake / git leaves a mark: the family is not judged
        bindir = os.path.join(root, '.bin')
        os.makedirs(bindir)
        with open(os.path.join(bindir, 'stray'), 'w') as f:
            f.write(_STRAY % os.path.join(root, '.stray'))
        os.chmod(os.path.join(bindir, 'stray'), 0o755)
        for exe in ('cmake', 'git'):
            os.symlink('stray', os.path.join(bindir, exe))
        os.environ['PATH'] = bindir + os.pathsep + os.environ.get('PATH', '')
        os.makedirs(os.path.join(root, 'src'))
    for j, m in enumerate(fam):
        aux = os.path.join(root, '.aux', str(j))
        os.makedirs(aux)
        auxs.append(aux)
        base = 100 * j
        if via == 'run':
            tasks.append(RunTask.from_clis(names[j], [_cli(base + i, c, aux) for i, c in enumerate(m['cmds'], 1)]))
            scripted.append(False)
            continue
        plan = m['cmds']
        if plan and plan[0]['exit'] is None:
            tool = _cli(1, plan[0], aux)[0]
        else:
            tool = os.path.join(aux, 'tool')
            with open(tool, 'w') as f:
                f.write(_TOOL % aux)
            os.chmod(tool, 0o755)
            for i, c in enumerate(plan, 1):
                with open(os.path.join(aux, 'cmd-%d.sh' % i), 'w') as f:
                    f.write(_cli(base + i, c, aux)[2] + '\n')
        scripted.append(tool == os.path.join(aux, 'tool'))
        if via == 'build':
            targets = [['x', 'y', 'z'][t] for t in range(m['targets'])] if m.get('targets', -1) >= 0 else None
            tasks.append(type('ScriptedBuildTask', (BuildTask,), {'CMAKE': tool})(
                names[j], os.path.join(root, 'src'), targets=targets, configure_flags=m.get('cflags'), build_flags=m.get('bflags')))
        else:
            tasks.append(type('ScriptedCheckoutTask', (CheckoutTask,), {'GIT': tool})(
                names[j], repository=os.path.join(root, 'repo'), flags=m.get('cflags'), ref=m.get('ref')))
    members = [dict(status='NONE', raised=False, escaped=False, rcs=[], exc='') for _m in fam]
    entries = [None] * len(fam)
    if case['mode'] == 'direct':
        for j, task in enumerate(tasks):
            try:
                env_up, status = task.do(Env(), config)
                members[j]['status'] = TaskStatus(status).name
                if ('return_codes' if via == 'run' else log_key) in env_up[names[j]]:
                    entries[j] = env_up[names[j]]
                else:
                    members[j]['raised'] = True      # the task ended without a result (as in the scheduler branch below): third audit, benign3-C19
            except Exception as ex:  # pylint: disable=broad-except
                members[j]['raised'] = True
                members[j]['exc'] = type(ex).__name__
    else:
        from valjean.cosette.depgraph import DepGraph
        from valjean.cosette.scheduler import Scheduler
        from valjean.cosette.backends.queue import QueueScheduling
        env = Env()
        try:
            graph = DepGraph.from_dependency_dictionary({task: [] for task in tasks})
            Scheduler(hard_graph=graph, backend=QueueScheduling(n_workers=len(tasks))).schedule(config=config, env=env)
        except Exception as ex:  # pylint: disable=broad-except
            for o in members:
                o['escaped'] = True
                o['exc'] = type(ex).__name__
        for j, o in enumerate(members):
            entry = env.get(names[j], {})
            try:
                o['status'] = TaskStatus(entry.get('status')).name
            except ValueError:
                o['status'] = 'NONE'
            if ('return_codes' if via == 'run' else log_key) in entry:
                entries[j] = entry
            else:
                o['raised'] = True            # the task ended without a result: by an exception
    # ---- all tasks have run: what each one's capture files hold now
    ids = {}
    for j, (o, entry) in enumerate(zip(members, entries)):
        base = 100 * j
        if via == 'run':
            own_dir = os.path.join(out_root, names[j])
            paths = [os.path.join(own_dir, 'stdout'), os.path.join(own_dir, 'stderr')]
            if entry is not None:
                o['rcs'] = [int(x) for x in entry['return_codes']]
                paths += [os.fspath(entry['stdout']), os.fspath(entry['stderr'])]
                if os.path.dirname(paths[2]) != os.path.realpath(own_dir):
                    o['exc'] = 'capture files outside the task directory: %s' % (paths[2:],)
                    o['status'] = 'NONE'
            o['out'] = _tokens(paths[0], 'O', base)
            o['err'] = _tokens(paths[1], 'E', base)
        else:
            try:
                with open(os.path.join(auxs[j], 'count')) as f:
                    o['invoked'] = int(f.read().strip() or 0)
            except OSError:
                o['invoked'] = 0
            o['unbound'] = bool(scripted[j] and o['invoked'] == 0) or os.path.exists(os.path.join(root, '.stray'))
            o['rcs'] = [c['exit'] for c in _ran(fam[j], o) if c['exit'] is not None]
            # the log is the file the result names; a task that ended without a result names none (and ran nothing)
            paths = [os.fspath(entry[log_key])] if entry is not None else []
            o['out'] = _log_tokens(paths[0], 'O', base) if paths else []
            o['err'] = _log_tokens(paths[0], 'E', base) if paths else []
        o['files'] = sorted(set(ids.setdefault(os.path.realpath(p), len(ids) + 1) for p in paths))
    for j, o in enumerate(members):
        o['others'] = sorted(set(f for i, other in enumerate(members) if i != j for f in other['files']))
    return dict(members=members, unbound=any(o.get('unbound') for o in members))


# ---------------------------------------------------------------------------------------------
# op = "names"

def concretise(atoms):
    return ''.join(ATOMS[a] for a in atoms)


def observe_names(names, env=None):
    """Run one trivial task per name, in order, under one output root; returns accepted indices,
    reported directories and the file system below the root (in atoms).  While the tasks run the process environment holds
    `env` (default NAME_ENV) and HOME = <scratch>/home."""
    root = _scratch('c19n')
    with _environ(root, env):
        return _observe_names(names, root)


def _observe_names(names, root):
    from valjean.cosette.run import RunTask
    from valjean.cosette.env import Env
    out_root = os.path.join(root, 'out')
    side = os.path.join(root, 'side')      # log / report roots: not the subject of the property, kept out of the way
    config = _config(out_root, side)
    comp = {'stdout': ['stdout'], 'stderr': ['stderr']}
    for atoms in names:
        cur = []
        for a in list(atoms) + ['/']:
            if a == '/':
                comp.setdefault(concretise(cur), list(cur))
                cur = []
            else:
                cur.append(a)

    def abstract(rel):
        """Path below the root in atoms; a component that no name explains is one atom '?<component>' (distinct
        components stay distinct: one kind per path)."""
        if rel in ('', '.'):
            return []
        if rel == os.pardir or rel.startswith(os.pardir + os.sep):
            return [['OUTSIDE']]          # RunCmd!Outside: the path leaves the root
        return [comp.get(c, ['?' + re.sub(r'[^A-Za-z0-9._-]', lambda m: '%%%04x' % ord(m.group()), c)]) for c in rel.split(os.sep)]

    accepted, dirs, excs = [], [], []
    for idx, atoms in enumerate(names, 1):
        name = concretise(atoms)
        script = "printf '%s'; printf '%s' >&2" % (_octal('<O%d.1>' % idx), _octal('<E%d.1>' % idx))
        try:
            task = RunTask.from_clis(name, [['sh', '-c', script]])
            env_up, _status = task.do(Env(), config)
        except Exception as ex:  # pylint: disable=broad-except
            dirs.append([])
            excs.append(type(ex).__name__)
            continue
        accepted.append(idx)
        excs.append('')
        entry = env_up[task.name]
        # the task's directory is where its capture files are (documented keys stdout / stderr of the result)
        cap_dir = os.path.realpath(os.path.dirname(os.fspath(entry['stdout'])))
        dirs.append([abstract(os.path.relpath(cap_dir, os.path.realpath(out_root)))])
    fs = []
    if os.path.isdir(out_root):
        for cur, subdirs, files in os.walk(out_root):
            rel = os.path.relpath(cur, out_root)
            for d in subdirs:
                fs.append(dict(path=abstract(os.path.normpath(os.path.join(rel, d))), kind='dir', owner=0))
            for fn in files:
                p = os.path.join(cur, fn)
                with open(p, 'rb') as f:
                    owners = sorted(set(int(m.group(2)) for m in _TOKEN.finditer(f.read())))
                fs.append(dict(path=abstract(os.path.normpath(os.path.join(rel, fn))), kind='file',
                               owner=owners[0] if len(owners) == 1 else 0))
    # anything created next to the output root (a name that climbed out of it)
    for other in sorted(os.listdir(root)):
        if other not in ('out', 'side'):
            fs.append(dict(path=[['OUTSIDE'], ['?']], kind='file', owner=0))
    shutil.rmtree(root, ignore_errors=True)
    return dict(accepted=accepted, dirs=dirs, fs=fs, excs=excs)


def _names_agrees(st, obs):
    """Observation against the TLC state: the same tasks accepted, and every entry of the state's file system (what the
    statement requires: directories and capture files with their owner) found.  What else was found is judged by TLC
    (clause Fs of RunCmdTrace.tla: only below the directory of an accepted task)."""
    exp_acc = sorted(st['accepted'])
    exp_files = sorted((tuple(tuple(c) for c in e['path']), e['owner']) for e in st['fs'] if e['kind'] == 'file')
    exp_dirs = sorted(set(tuple(tuple(c) for c in e['path']) for e in st['fs'] if e['kind'] == 'dir'))
    got_files = sorted((tuple(tuple(c) for c in e['path']), e['owner']) for e in obs['fs'] if e['kind'] == 'file')
    got_dirs = sorted(set(tuple(tuple(c) for c in e['path']) for e in obs['fs'] if e['kind'] == 'dir'))
    problems = []
    if obs['accepted'] != exp_acc:
        problems.append('Rejected')
    if not (set(exp_files) <= set(got_files) and set(exp_dirs) <= set(got_dirs)):
        problems.append('Fs')
    for idx in obs['accepted']:
        d = obs['dirs'][idx - 1][0]
        if len(d) < 1:
            problems.append('DirBelowRoot')
    return problems, dict(accepted=exp_acc, files=exp_files, dirs=exp_dirs)


_ALONE = {}


def _alone(atoms):
    """What a task with this name does when it is the only one (cached): (accepted, created something, its directory is
    <root>/<the name as written>)."""
    key = tuple(atoms)
    if key not in _ALONE:
        obs = observe_names([list(atoms)])
        _ALONE[key] = (bool(obs['accepted']), bool(obs['fs']), obs['dirs'] == [[[list(atoms)]]])
    return _ALONE[key]


def _minimal(atoms):
    """A shortest sub-sequence of the name that, run alone, still does not get the directory named as written (used to name
    the finding class only)."""
    cur = list(atoms)
    i = 0
    while i < len(cur):
        cand = cur[:i] + cur[i + 1:]
        if cand and concretise(cand) not in ('.', '..') and _alone(cand)[0] and not _alone(cand)[2]:
            cur = cand
        else:
            i += 1
    return cur


def names_key(names, obs, valid, clauses):
    """Finding class.  valid[j] = TLC's Valid(names[j]).  An invalid name that -- run alone -- is accepted or
    creates files is the culprit (one class per such name); a valid name that is rejected likewise;
    otherwise the failing clauses name the class -- with, as suffix, the atoms of INTERPRETED in those valid names whose
    directory, when the task runs alone, is not the one named as written (some layer gave the name a meaning)."""
    culprits = sorted(set(repr(concretise(n)) for n, v in zip(names, valid) if not v and any(_alone(n)[:2])))
    if culprits:
        return 'C19/name/invalid-name-not-rejected:' + ','.join(culprits)
    rejected = sorted(set(repr(concretise(n)) for n, v in zip(names, valid) if v and not _alone(n)[0]))
    if rejected:
        return 'C19/name/valid-name-rejected:' + ','.join(rejected)
    shortest = sorted((_minimal(n) for n, v in zip(names, valid) if v and _alone(n)[0] and not _alone(n)[2]), key=lambda m: (len(m), m))
    odd = sorted(set(a for a in shortest[0] if a in INTERPRETED)) if shortest else []
    return 'C19/name/%s%s' % ('+'.join(sorted(set(clauses))), '/name-interpreted:' + '+'.join(odd) if odd else '')


# ---------------------------------------------------------------------------------------------
# TLC as the oracle for recorded cases

def _json_case(cid, case, obs):
    if case['op'] == 'run':
        case = _judged(case, obs)
        return dict(id=cid, op='run', mode=case['mode'],
                    cmds=[dict(exit=[] if c['exit'] is None else [c['exit']], nout=c['nout'], nerr=c['nerr']) for c in case['cmds']],
                    obs=dict(status=obs['status'], raised=obs['raised'], escaped=obs['escaped'], rcs=obs['rcs'],
                             out=obs['out'], err=obs['err'], files=obs.get('files', []), others=obs.get('others', [])),
                    names=[], accepted=[], dirs=[], fs=[])
    return dict(id=cid, op='names', mode='direct', cmds=[],
                obs=dict(status='NONE', raised=False, escaped=False, rcs=[], out=[], err=[], files=[], others=[]),
                names=[list(n) for n in case['names']], accepted=obs['accepted'], dirs=obs['dirs'], fs=obs['fs'])


def tlc_verdict(records, wd, ctx=None, name='RunCmdTrace'):
    """records: list of (id, case, obs).  Returns {id: [failing clauses]} as judged by TLC."""
    cj = tlc.json_dump(os.path.join(wd, 'cases_%s.json' % name.replace('/', '_')), [_json_case(*r) for r in records])
    oj = os.path.join(wd, 'verdict_%s.json' % name.replace('/', '_'))
    cfg = tlc.write_cfg(os.path.join(wd, 'trace.cfg'), spec='TSpec', constants={'NoStart': Raw('NoStart')},
                        invariants=['C19_DoneIffAllZero', 'C19_CodesOfRun', 'C19_Capture', 'C19_DirBelowRoot', 'C19_DirInjective',
                                    'C19_DirNotCapture', 'C19_Rejected', 'C19_OwnFiles'],
                        deadlock=False, postcondition='Post')
    res = tlc.run(TRACE, cfg, workers=1, coverage=False, env=dict(VERIF_CASES=cj, VERIF_OUT=oj), timeout=3000)
    if ctx is not None:
        ctx.tlc(res, name)
    if not res.ok or not os.path.exists(oj):
        raise tlc.MachineryError('RunCmdTrace: %s\n%s' % (res.violation, res.out[-2500:]))
    with open(oj) as f:
        bad = json.load(f)['bad']
    verdict = {}
    for cid, clause in bad:
        verdict.setdefault(cid, []).append(clause)
    return verdict


def _fs_probes():
    """Made-up observations of two accepted tasks a, b (and a rejected one) with the verdict the clause Fs must give: what
    a task leaves in its own directory is its business, anything else below the root is not; and of two tasks $a, b with
    the verdict of the directory clauses.  [(case, obs, clauses that must fail: none = no clause may fail)]"""
    def ent(path, kind, owner=0):
        return dict(path=[[c] for c in path], kind=kind, owner=owner)
    names = [['a'], ['b'], ['a', 'NUL']]
    need = [ent(['a'], 'dir'), ent(['a', 'stdout'], 'file', 1), ent(['a', 'stderr'], 'file', 1),
            ent(['b'], 'dir'), ent(['b', 'stdout'], 'file', 2), ent(['b', 'stderr'], 'file', 2)]
    variants = [
        (need, False),
        (need + [ent(['a', '?manifest.json'], 'file'), ent(['a', '?.done'], 'file', 1)], False),
        (need + [ent(['b', '?work'], 'dir'), ent(['b', '?work', '?x'], 'file', 2)], False),
        (need + [ent(['?manifest.json'], 'file')], True),                       # next to the task directories
        (need + [ent(['?c'], 'dir'), ent(['?c', '?x'], 'file')], True),         # a directory of nobody (the rejected task's?)
        (need[:5], True),                                                       # a capture file is missing
        (need[:4] + [ent(['b', 'stdout'], 'file', 1), need[5]], True),          # ... or holds another task's output
        (need[:4] + [ent(['b', 'stdout'], 'file', 0), need[5]], True),          # ... or not only its task's
        (need + [ent(['OUTSIDE', '?'], 'file')], True)]
    dirs = [[[['a']]], [[['b']]], []]
    probes = [(dict(op='names', names=names), dict(accepted=[1, 2], dirs=dirs, fs=fs, excs=['', '', 'probe']), {'Fs'} if bad else set())
              for fs, bad in variants]
    # names that a layer would interpret: tasks $a and b.  Each in the directory named as written: fine; $a taken as the
    # value of a variable (b, or the way up): the directory clauses must fail
    odd = [['dol', 'a'], ['b']]
    lit = [ent(['b'], 'dir'), ent(['b', 'stdout'], 'file', 2), ent(['b', 'stderr'], 'file', 2)]
    own = [dict(path=[['dol', 'a']] + [[c] for c in rest], kind=kind, owner=owner)
           for rest, kind, owner in (([], 'dir', 0), (['stdout'], 'file', 1), (['stderr'], 'file', 1))]
    probes.append((dict(op='names', names=odd), dict(accepted=[1, 2], dirs=[[[['dol', 'a']]], [[['b']]]], fs=own + lit, excs=['', '']), set()))
    probes.append((dict(op='names', names=odd), dict(accepted=[1, 2], dirs=[[[['b']]], [[['b']]]], excs=['', ''],
                                                     fs=[ent(['b'], 'dir'), ent(['b', 'stdout'], 'file', 2), ent(['b', 'stderr'], 'file', 0)]),
                   {'DirInjective', 'DirAsSpecified', 'Fs'}))
    probes.append((dict(op='names', names=odd), dict(accepted=[1, 2], dirs=[[[['OUTSIDE']]], [[['b']]]], excs=['', ''],
                                                     fs=lit + [ent(['OUTSIDE', '?'], 'file')]),
                   {'DirBelowRoot', 'DirAsSpecified', 'Fs'}))
    return probes


def _own_probes():
    """Made-up observations of a member of a family (two commands, DONE) with the verdict OwnFiles / Capture must give."""
    case = dict(op='run', mode='direct', rel='probe', cmds=[dict(exit=0, nout=1, nerr=1, how=''), dict(exit=0, nout=1, nerr=0, how='')])
    good = dict(status='DONE', raised=False, escaped=False, rcs=[0, 0], out=[[1, 1], [2, 1]], err=[[1, 1]], files=[1, 2], others=[3, 4, 5])
    return [(case, good, set()),
            (case, dict(good, others=[]), set()),
            (case, dict(good, others=[2, 3]), {'OwnFiles'}),                                   # a capture file is another task's too
            (case, dict(good, files=[1], others=[1]), {'OwnFiles'}),
            (case, dict(good, out=[[1, 1], [2, 1], [0, 0]]), {'Capture'}),                     # another task's token after its own
            (case, dict(good, out=[[0, 0]], err=[[0, 0]], others=[1]), {'Capture', 'OwnFiles'})]   # overwritten by the other task


def _observe(case):
    if 'family' in case:
        return observe_family(case)
    if case['op'] == 'run':
        return observe_run(case) if case.get('via', 'run') == 'run' else observe_tool(case)
    return observe_names(case['names'], case.get('env'))


def replay_case(case):
    import core
    core.use_repo()
    obs = _observe(case)
    if obs.get('unbound'):
        return True, 'not judged: the scripted %s was never invoked (the harness could not put its tool in place): %s' % (
            'cmake' if case.get('via') == 'build' else 'git', obs)
    verdict = tlc_verdict([(j, c, o) for j, (c, o) in enumerate(_members(case, obs), 1)], tlc.workdir('c19r'))
    if not verdict:
        return True, 'all clauses of RunCmd.tla hold on the observation %s' % (obs,)
    if 'family' in case:
        return False, 'after all tasks of the family have run: ' + _family_what(case, obs, verdict)
    return False, 'clauses %s false on the observation %s' % (sorted(verdict[1]), obs)


def _family_what(case, obs, failing):
    """failing: {member number (1-based): clauses}."""
    return '; '.join('task %r (%s): clauses %s false on %s' % (
        concretise(case['family'][j - 1]['name']), [(c['exit'], c['nout'], c['nerr']) for c in case['family'][j - 1]['cmds']],
        sorted(cl), {k: v for k, v in obs['members'][j - 1].items() if k not in ('exc', 'escaped', 'unbound') or v})
                     for j, cl in sorted(failing.items())) + ' -- names %s' % ([concretise(m['name']) for m in case['family']],)


# ---------------------------------------------------------------------------------------------

def _valid_name(rng):
    """A random valid task name (atoms) over letters and interpreted atoms."""
    while True:
        nm = [rng.choice(LETTERS + INTERPRETED + ['.', 'sp']) for _x in range(rng.randint(1, 4))]
        if concretise(nm) not in ('.', '..'):
            return nm


def _consts(max_cmds, codes, outs, modes, ops, namelists, reject_empty=True, alphabets=()):
    return {'MaxCmds': max_cmds, 'Codes': frozenset(codes), 'Outs': frozenset(outs), 'Modes': frozenset(modes),
            'Ops': frozenset(ops), 'NameLists': Raw('<- ' + namelists), 'NameAlphabets': frozenset(frozenset(a) for a in alphabets),
            'RejectEmpty': reject_empty, 'NoStart': Raw('NoStart')}


def _windows():
    """The sub-alphabets of NL_Sub: two letters (names of other tasks and of environment variables) and three consecutive
    atoms of INTERPRETED; the letters vary from one turn of the windows to the next."""
    wins = [[INTERPRETED[(j + x) % len(INTERPRETED)] for x in range(3)] for j in range(0, len(INTERPRETED), 3)]
    pairs = [('a', 'b'), ('a', 'stdout'), ('b', 'stderr')]
    return [list(p) + w for p in pairs for w in wins]


def _check_and_dump(ctx, wd, name, consts, invs, actions):
    cfg = tlc.write_cfg(os.path.join(wd, name + '.cfg'), constants=consts, invariants=invs, deadlock=False)
    dump = os.path.join(wd, name)
    res = tlc.run(SPEC, cfg, dump=dump, timeout=1500)
    ctx.tlc(res, 'RunCmd/' + name)
    if not res.ok:
        raise tlc.MachineryError('RunCmd.tla %s: %s' % (name, res.violation))
    tlc.check_coverage(res, actions, 'RunCmd/' + name)
    states = list(tlc.read_dump(dump))
    os.remove(dump + '.dump')
    return states


def run_c19(ctx):
    ctx.rule('spec->code: every terminal state TLC dumps for RunCmd.tla -- all command lists (exit statuses x cannot-start x '
             'tokens per stream) called directly and under the scheduler, all lists of task names over the atoms a . / NUL stdout -- '
             'plus all short names and pairs over a sub-alphabet {a, b} + three atoms a shell / the environment / glob / path '
             'expansion would interpret ($ ${ } ~ * ? %% \\ quotes ` ; [ # newline -) that rotates with the seed (all windows when thorough), '
             'with environment variables a, b, ab, .., stdout, stderr set to other tasks\' names, "..", "." and "" -- '
             'is executed on real RunTask objects with sh -c commands in a scratch output root and compared with the TLC state; '
             'code->spec: seeded random longer command lists (more statuses, signals, three kinds of unstartable executables) and '
             'name lists over a larger alphabet (two in three over a small random sub-alphabet of letters and interpreted atoms; a '
             'quarter of the command lists under such a task name) are executed and judged by TLC (RunCmdTrace.tla); so are BuildTask and CheckoutTask '
             '(valjean/cosette/code.py) with a scripted cmake / git that counts its invocations and exits as the plan says: the '
             'command list judged is the plan up to the number of invocations, targets / flags / ref vary. '
             'Families: for RunTask, BuildTask and CheckoutTask 2-3 tasks with related names (differing only after the last dot, only by '
             'case, by a trailing dot / space, one a prefix of the other, one = another + .log/.out/.stdout, several dots, a leading dot) '
             'run in the same output / log roots, one after the other or together under one scheduler, each with its own command list '
             '(TLC\'s terminal states in threes, and random plans); every member is judged AFTER ALL have run, on its own capture files '
             '(the clauses above + OwnFiles: its capture files are no other task\'s); pairs of related names also go through op = names. '
             'distinct_nontrivial counts distinct cases with at least one non-zero status, unstartable command or invalid / colliding '
             'name, and every family.')
    ctx.assume('a task may leave other files in its own directory (the statement speaks of the capture files only): the required '
               'entries must be there, anything else must lie below the directory of an accepted task (clause Fs)')
    ctx.assume('the executable of BuildTask / CheckoutTask is set as class attribute of a throw-away subclass before '
               'instantiation (and put first on PATH); a startable scripted tool that was never invoked is DRIFT, not judged')
    ctx.assume('under the scheduler: one task, or the independent tasks of a family with one worker each and the output / log roots '
               'created beforehand (no claim about who creates a shared root first); sh and printf behave as POSIX says; the scratch '
               'file system is case-sensitive')
    ctx.assume('BuildTask / CheckoutTask: the log root is documented as shared, one log file per task -- demanded of a family: the '
               'log files the results name (build_log / checkout_log) are distinct and each holds its own task\'s output only; no '
               'per-task directory is demanded there')
    ctx.assume('stderr: the commands\' tokens must appear in order; the `$ cmd` echo lines are extra (DESIGN 8.1)')
    ctx.assume('called directly, a command that cannot be started may surface as an exception of do() or as a FAILED result; '
               'under the scheduler the task must be FAILED and schedule() must return')
    import time
    t0 = time.time()
    dbg = (lambda m: print('  [c19 %.1fs] %s' % (time.time() - t0, m))) if os.environ.get('VERIF_DEBUG') else (lambda m: None)
    wd = tlc.workdir('c19')
    import valjean.cosette.run, valjean.cosette.code, valjean.cosette.scheduler, valjean.config   # noqa: E401,F401  (before the fork)
    pool = multiprocessing.get_context('fork').Pool(_POOL)    # the observations are GIL-bound python + fork/exec
    n_exec = 0
    import random
    frng = random.Random(ctx.seed * 7919 + 19)     # names / plans of the families (a stream of its own)
    model_fams = []       # families made of TLC's command lists: also judged by RunCmdTrace (OwnFiles)

    # ---- spec -> code: command lists
    run_cfgs = [('run-direct', _consts(3, [0, 1, 3], ctx.pick([0, 1], [0, 1, 2]), ['direct'], ['run'], 'NL_None')),
                ('run-codes', _consts(ctx.pick(3, 4), [0, 1, 3], [1], ['direct'], ['run'], 'NL_None')),
                ('run-sched', _consts(3, [0, 1, 3], ctx.pick([1], [0, 1]), ['sched'], ['run'], 'NL_None'))]
    if not ctx.quick:
        run_cfgs.append(('run-long', _consts(5, [0, 3], [1], ['direct', 'sched'], ['run'], 'NL_None')))
    for name, consts in run_cfgs:
        states = [st for st in _check_and_dump(ctx, wd, name, consts, RUN_INVS, ['Exec', 'Finish']) if st['status'] != 'PENDING']
        cases = [_state_to_run_case(st) for st in states]
        for k, c in enumerate(cases):
            if k % 3 == 1:           # same task name, same output root, after another run (one that failed half-way)
                c['prior'] = [dict(exit=0, nout=1, nerr=1, how=''), dict(exit=3, nout=2, nerr=1, how='')]
        dbg('%s: %d terminal states' % (name, len(cases)))
        observations = pool.map(observe_run, cases, chunksize=8)
        dbg('%s executed' % name)
        for st, case, obs in zip(states, cases, observations):
            n_exec += 1
            problems, exp = _run_agrees(st, obs)
            if problems:
                ctx.violation(run_key(case, problems), 'observed %s; RunCmd.tla: %s' % (obs, exp), case, module='conf_runcmd')
            if any(c['exit'] != 0 for c in case['cmds']):
                ctx.distinct(('run', case['mode'], tuple((c['exit'], c['nout'], c['nerr']) for c in case['cmds'])))
            if n_exec % 1499 == 1:
                ctx.sample(dict(case=case, observed=obs, expected=exp))
        # the same command lists as families: three consecutive terminal states of TLC run as tasks with related names in the
        # same roots (under one scheduler when mode = sched); every member is compared with its own TLC state after all ran
        step = 3 if len(states) < 200 else ctx.pick(24, 6)
        groups = [list(range(k, k + 3)) for k in range(0, len(states) - 2, step)]
        fams = []
        for g in groups:
            rel = RELATIONS[len(fams) % len(RELATIONS)]
            fams.append(dict(op='run', via='run', mode=states[g[0]]['mode'], rel=rel,
                             family=[dict(name=nm, cmds=_state_to_run_case(states[k])['cmds'])
                                     for nm, k in zip(_related_names(frng, rel, 3), g)]))
        fam_obs = pool.map(observe_family, fams, chunksize=4)
        dbg('%s: %d families executed' % (name, len(fams)))
        for g, fam, fobs in zip(groups, fams, fam_obs):
            n_exec += len(g)
            model_fams.append((fam, fobs))
            failing = {j: _run_agrees(states[k], o)[0] for j, (k, o) in enumerate(zip(g, fobs['members']), 1)}
            failing = {j: cl for j, cl in failing.items() if cl}
            if failing:
                first = min(failing)
                ctx.violation(run_key(_member_case(fam, first - 1), [c for cl in failing.values() for c in cl]),
                              'after all tasks of the family have run: %s; RunCmd.tla: %s' % (
                                  _family_what(fam, fobs, failing), _run_agrees(states[g[first - 1]], fobs['members'][first - 1])[1]),
                              fam, module='conf_runcmd')
            ctx.distinct(('family', 'run', fam['mode'], tuple((tuple(m['name']), tuple((c['exit'], c['nout'], c['nerr']) for c in m['cmds']))
                                                               for m in fam['family'])))

    # ---- spec -> code: names
    model_names = []      # these observations also go to RunCmdTrace: what was found beyond the TLC state is judged there
    # names some layer would interpret: one sub-alphabet per quick run (it rotates with the seed), all of them in the thorough tier
    wins = _windows()
    sub = [wins[ctx.seed % len(wins)]]
    name_cfgs = [('names-triples', 'NL_TriplesRel', ()), ('names-singles', 'NL_SinglesSub', sub)]    # + pairs of related names
    if not ctx.quick:
        name_cfgs.append(('names-related', 'NL_Related', ()))
        name_cfgs.append(('names-pairs', 'NL_Pairs', ()))
        name_cfgs.append(('names-sub', 'NL_Sub', wins))
    dbg('sub-alphabet of NL_Sub: %s' % (sub,))
    for name, nl, alphabets in name_cfgs:
        consts = _consts(0, [0], [0], ['direct'], ['names'], nl, alphabets=alphabets)
        states = [st for st in _check_and_dump(ctx, wd, name, consts, NAME_INVS, ['RunNamed']) if st['k'] == len(st['names']) + 1]
        lists = [[list(n) for n in st['names']] for st in states]
        dbg('%s: %d terminal states' % (name, len(lists)))
        observations = pool.map(observe_names, lists, chunksize=8)
        dbg('%s executed' % name)
        for st, names, obs in zip(states, lists, observations):
            n_exec += 1
            model_names.append((dict(op='names', names=names, env=dict(NAME_ENV)), obs))
            problems, exp = _names_agrees(st, obs)
            if problems:
                valid = [j in exp['accepted'] for j in range(1, len(names) + 1)]
                ctx.violation(names_key(names, obs, valid, problems),
                              'names %s: observed accepted=%s dirs=%s fs=%s (%s); RunCmd.tla: %s'
                              % ([concretise(n) for n in names], obs['accepted'], obs['dirs'], obs['fs'], obs['excs'], exp),
                              dict(op='names', names=names, env=dict(NAME_ENV)), module='conf_runcmd')
            if len(exp['accepted']) < len(names) or len(names) > 1:
                ctx.distinct(('names', tuple(tuple(n) for n in names)))
            if n_exec % 499 == 1:
                ctx.sample(dict(names=[concretise(n) for n in names], observed=obs, expected=exp))

    # ---- the rule as coded (empty name valid) must be refuted by TLC: negative self-test of the name clauses
    ncfg = tlc.write_cfg(os.path.join(wd, 'neg.cfg'), constants=_consts(0, [0], [0], ['direct'], ['names'], 'NL_Triples', reject_empty=False),
                         invariants=NAME_INVS, deadlock=False)
    res = tlc.run(SPEC, ncfg, coverage=False)
    if not (res.violation and res.violation[0] == 'invariant'):
        raise tlc.MachineryError('RunCmd.tla accepts the empty task name without violating a directory clause: vacuous name model')
    wits = (('W_StopsEarly', _consts(3, [0, 1], [1], ['direct'], ['run'], 'NL_None')),
            ('W_NoStartLater', _consts(3, [0, 1], [1], ['direct'], ['run'], 'NL_None')),
            ('W_DoneAll', _consts(3, [0, 1], [1], ['direct'], ['run'], 'NL_None')),
            ('W_SchedFailed', _consts(2, [0, 1], [1], ['sched'], ['run'], 'NL_None')),
            ('W_Rejected', _consts(0, [0], [0], ['direct'], ['names'], 'NL_Triples')),
            ('W_NestedName', _consts(0, [0], [0], ['direct'], ['names'], 'NL_Triples')),
            ('W_OddNamePair', _consts(0, [0], [0], ['direct'], ['names'], 'NL_Sub', alphabets=sub)),
            ('W_RelatedPair', _consts(0, [0], [0], ['direct'], ['names'], 'NL_TriplesRel')))

    def _witness(arg):
        wit, consts = arg
        wcfg = tlc.write_cfg(os.path.join(wd, wit + '.cfg'), constants=consts, invariants=[wit], deadlock=False)
        wres = tlc.run(SPEC, wcfg, coverage=False, workers=2)
        if wres.violation != ('invariant', wit):
            raise tlc.MachineryError('witness %s not reachable in RunCmd.tla' % wit)

    from concurrent.futures import ThreadPoolExecutor
    with ThreadPoolExecutor(max_workers=8) as tp:
        list(tp.map(_witness, wits))
    ctx.count(evaluations=n_exec, traces=n_exec)

    # ---- code -> spec
    rng = ctx.rng
    records = []
    n_run = ctx.pick(1500, 20000)
    codes = [0, 0, 0, 0, 1, 2, 3, 127, 255, -9, -15]
    cases = []
    for _ in range(n_run):
        n = rng.randint(0, 6)
        cmds = []
        for _j in range(n):
            if rng.random() < 0.12:
                cmds.append(dict(exit=None, nout=0, nerr=0, how=rng.choice(['missing', 'dir', 'noexec'])))
            else:
                cmds.append(dict(exit=rng.choice(codes), nout=rng.randint(0, 3), nerr=rng.randint(0, 3), how=''))
        cases.append(dict(op='run', mode='sched' if rng.random() < 0.3 else 'direct', cmds=cmds))
        if rng.random() < 0.25:       # the task's name: letters and atoms some layer would interpret (a valid file name)
            cases[-1]['name'] = _valid_name(rng)
        if rng.random() < 0.3:
            cases[-1]['prior'] = [dict(exit=rng.choice([0, 0, 1]), nout=rng.randint(0, 2), nerr=rng.randint(0, 2), how='')
                                  for _j in range(rng.randint(1, 3))]
    for _ in range(ctx.pick(700, 8000)):
        cmds = []
        for _j in range(rng.randint(0, 5)):
            cmds.append(dict(exit=rng.choice(codes), nout=rng.randint(0, 2), nerr=rng.randint(0, 2), how=''))
        if rng.random() < 0.08:
            cmds[:1] = [dict(exit=None, nout=0, nerr=0, how=rng.choice(['missing', 'dir', 'noexec']))]
        cases.append(dict(op='run', via=rng.choice(['build', 'build', 'checkout']), mode='sched' if rng.random() < 0.3 else 'direct',
                          cmds=cmds, targets=rng.choice([-1, 0, 1, 2, 3]), cflags=rng.choice([None, [], ['-DA=1']]),
                          bflags=rng.choice([None, [], ['--', '-j2']]), ref=rng.choice([None, 'v1'])))
    atoms = RANDOM_ATOMS
    n_names = ctx.pick(900, 9000)
    for j_list in range(n_names):
        # two lists in three over a small sub-alphabet of their own (one or two letters -- which are also names of
        # environment variables --, one to three atoms some layer would interpret, sometimes one of the others): with few
        # atoms the names of one list refer to each other ($a next to b, a* next to ab); the others over all atoms
        if j_list % 3:
            alpha = rng.sample(LETTERS, rng.randint(1, 2)) + rng.sample(INTERPRETED, rng.randint(1, 3)) + rng.sample(PLAIN, rng.randint(0, 1))
        else:
            alpha = atoms
        names = []
        for _j in range(rng.randint(1, 4)):
            nm = [rng.choice(alpha) for _x in range(rng.choice([0, 1, 1, 2, 2, 3, 4]))]
            if nm not in names:
                names.append(nm)
        cases.append(dict(op='names', names=names, env=dict(NAME_ENV)))
    # families of 2-3 tasks with related names in the same roots, for every class that captures output; every member writes
    # something as a rule (a shared file shows in Capture, not only in OwnFiles)
    def _plan(tool):
        cmds = [dict(exit=frng.choice(codes), nout=frng.randint(0, 2), nerr=frng.randint(0, 2), how='') for _j in range(frng.randint(1, 4))]
        if frng.random() < 0.08:
            unstartable = dict(exit=None, nout=0, nerr=0, how=frng.choice(['missing', 'dir', 'noexec']))
            cmds[0 if tool else frng.randrange(len(cmds))] = unstartable
        elif cmds[0]['nout'] + cmds[0]['nerr'] == 0:
            cmds[0]['nout'] = 1
        return cmds
    for j_fam in range(ctx.pick(420, 5000)):
        via = ['run', 'build', 'checkout'][j_fam % 3]
        rel = RELATIONS[(j_fam // 3) % len(RELATIONS)]
        fam = []
        for nm in _related_names(frng, rel):
            fam.append(dict(name=nm, cmds=_plan(via != 'run')))
            if via != 'run':
                fam[-1].update(targets=frng.choice([-1, 0, 1, 2]), cflags=frng.choice([None, [], ['-DA=1']]),
                               bflags=frng.choice([None, ['--', '-j2']]), ref=frng.choice([None, 'v1']))
        cases.append(dict(op='run', via=via, mode='sched' if frng.random() < 0.35 else 'direct', rel=rel, family=fam))
    # ... and lists of related names for the trivial tasks of op = names (directories: DirInjective / DirNotCapture / Fs)
    for j_fam in range(ctx.pick(140, 1500)):
        cases.append(dict(op='names', names=_related_names(frng, RELATIONS[j_fam % len(RELATIONS)]), env=dict(NAME_ENV)))
    dbg('witnesses done')
    observations = pool.map(_observe, cases, chunksize=8)
    dbg('random cases executed')
    n_random = len(cases)
    # a startable scripted cmake / git that was never invoked: the harness did not manage to substitute the executable
    # (nothing of valjean was observed) -- such cases are not judged
    unbound = {}
    for case, obs in zip(cases, observations):
        if obs.get('unbound'):
            unbound.setdefault(case['via'], []).append((case, obs))
    for via, lst in sorted(unbound.items()):
        eg_case = _member_case(lst[0][0], 0) if 'family' in lst[0][0] else lst[0][0]
        eg_obs = lst[0][1]['members'][0] if 'family' in lst[0][0] else lst[0][1]
        ctx.drift('%s: the scripted %s was never invoked in %d of %d cases although it can start (e.g. %s -> %s): the task runs '
                  'another executable than the one set as class attribute / first on PATH; these cases are not judged'
                  % (via, 'cmake' if via == 'build' else 'git', len(lst), sum(1 for c in cases if c.get('via') == via),
                     {k: eg_case.get(k) for k in ('mode', 'cmds', 'targets')}, {k: eg_obs[k] for k in ('status', 'raised', 'invoked')}))
    # a family is judged member by member: parents[k] = (the case, its observation, member number or 0) of record k + 1
    parents = [(c, o, j if 'family' in c else 0)
               for c, o in [(c, o) for c, o in zip(cases, observations) if not o.get('unbound')] + model_names + model_fams
               for j in range(1, len(_members(c, o)) + 1)]
    pairs = [_members(c, o)[max(j, 1) - 1] for c, o, j in parents]
    n_model = len(model_names) + sum(len(o['members']) for _c, o in model_fams)
    probes = _fs_probes() + _own_probes()
    records = [(cid, case, obs) for cid, (case, obs) in enumerate(pairs + [(c, o) for c, o, _bad in probes], 1)]
    verdict = tlc_verdict(records, wd, ctx, 'RunCmdTrace/random')
    # self-test of the clause Fs on the made-up observations: TLC must fail exactly the ones marked
    for (cid, _case, obs), (_c, _o, must) in zip(records[len(pairs):], probes):
        got = verdict.pop(cid, [])
        if not must <= set(got) or (not must and got) or any(cl in got and cl not in must for cl in ('Fs', 'OwnFiles', 'Capture')):
            raise tlc.MachineryError('RunCmdTrace: on the made-up observation %s the clauses %s fail, expected %s'
                                     % ({k: v for k, v in obs.items() if k in ('dirs', 'fs', 'out', 'err', 'files', 'others')},
                                        sorted(got), sorted(must) or 'none'))
    records = records[:len(pairs)]
    # Valid(name) as TLC sees it, for the names of the failing lists: a single-name case observed as "rejected"
    # fails the clause Rejected exactly when the name is valid
    suspects = sorted(set(tuple(n) for cid in verdict for n in records[cid - 1][1].get('names', [])))
    valid_of = {}
    if suspects:
        probe = [(j, dict(op='names', names=[list(n)]), dict(accepted=[], dirs=[[]], fs=[])) for j, n in enumerate(suspects, 1)]
        pv = tlc_verdict(probe, wd, None, 'RunCmdTrace/validity')
        valid_of = {n: 'Rejected' in pv.get(j, []) for j, n in enumerate(suspects, 1)}
    fam_failing = {}
    for cid, clauses in sorted(verdict.items()):
        _cid, case, obs = records[cid - 1]
        if parents[cid - 1][2]:
            fam_failing.setdefault(id(parents[cid - 1][0]), (parents[cid - 1], {}))[1][parents[cid - 1][2]] = clauses
        elif case['op'] == 'run':
            ctx.violation(run_key(case, clauses), 'clauses %s false on the observation %s' % (sorted(clauses), obs), case, module='conf_runcmd')
        else:
            key = names_key(case['names'], obs, [valid_of[tuple(n)] for n in case['names']], clauses)
            ctx.violation(key, 'names %s: clauses %s false on accepted=%s dirs=%s fs=%s (%s)'
                          % ([concretise(n) for n in case['names']], sorted(clauses), obs['accepted'], obs['dirs'], obs['fs'], obs['excs']),
                          case, module='conf_runcmd')
    for (fam, fobs, _j), failing in fam_failing.values():
        ctx.violation(run_key(_member_case(fam, min(failing) - 1), [c for cl in failing.values() for c in cl]),
                      'after all tasks of the family have run: ' + _family_what(fam, fobs, failing), fam, module='conf_runcmd')
    for case, _obs in zip(cases, observations):
        if 'family' in case:
            ctx.distinct(('family', case['via'], case['mode'], tuple((tuple(m['name']), tuple((c['exit'], c['nout'], c['nerr']) for c in m['cmds']))
                                                                     for m in case['family'])))
    for _cid, case, obs in records:
        if case.get('rel'):
            continue
        if case['op'] == 'run' and any(c['exit'] != 0 for c in case['cmds']):
            ctx.distinct(('run', case['mode'], tuple((c['exit'], c['nout'], c['nerr']) for c in case['cmds'])))
        elif case['op'] == 'names' and len(obs['accepted']) < len(case['names']):
            ctx.distinct(('names', tuple(tuple(n) for n in case['names'])))
    ctx.count(evaluations=n_random, traces=len(records) - n_model)      # the model's name lists were counted above
    ctx.sample(dict(source='random', case=records[0][1], observed=records[0][2]))
    pool.close()
    dbg('done')
    ctx.cov['exhaustive'] = True
    ctx.cov['explanation'] = ('every terminal state of the RunCmd.tla configurations in tlc_runs executed (%d); %d random cases judged by TLC'
                              % (n_exec, len(records) - n_model))
    # extra module: what a PythonTask may do to shared state (PyTask.tla, observations only, see conf_pytask.py)
    import conf_pytask
    ctx.extra('PyTask', conf_pytask.run, tlc.workdir('c19pytask'))


