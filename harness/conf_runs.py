"""C04 -- re-running a job on persisted environments: binding of specs/Runs.tla to the real
read_env -> Scheduler.schedule -> write_env cycle (valjean.cambronne.common, valjean.cosette.*).

model      : TLC checks Runs.tla over all 3-task graphs x output-dir patterns x job subsets x histories of up to
             MaxRuns runs with up to MaxFaults faults (fail / recover / lose persisted file / add task).
spec->code : fault histories of behaviours simulated by TLC are executed on the real code (real pickle files in a
             scratch directory, deterministic scheduler) and the environment after every run is compared with the model.
code->spec : seeded random histories on larger graphs (up to 6 tasks, 5 runs, 1-3 workers, random schedules) are
             recorded (faults, merged environment, executions with their clocks, final environment) and validated by
             TLC against RunsTrace.tla, strict and observer mode (C04 invariants on the implementation's states).
"""
import json
import os
import random
import shutil

import tlc
from tlc import Raw

SPEC_MC = os.path.join(tlc.SPECS, 'RunsMC.tla')
TRACE = os.path.join(tlc.SPECS, 'RunsTrace.tla')
INVS = ['C04_AllFinal', 'C04_Fresh', 'C04_NoNeedlessRerun', 'C04_AtMostOnce', 'C04_FilesHonest']
FILENAME = 'valjean.env'


# ---------------------------------------------------------------------------
# running one history on the real code
# ---------------------------------------------------------------------------
class History:
    """Executes runs of a job on the real code; faults are applied between runs."""

    def __init__(self, n, edges, hasdir, present, beh, workers, seed, root, listing=None):
        import schedrun
        schedrun.load()
        self.n, self.edges, self.hasdir = n, edges, list(hasdir)
        self.present, self.beh = list(present), list(beh)
        self.echo = set()      # tasks that return an amended copy of their previous record (not a notion of Runs.tla: they are 'ok' / 'fail' tasks)
        self.workers = workers
        self.rng = random.Random(seed)
        self.root = root
        self.clock = 0
        self.run = 0
        self.events = []
        self.listing = listing      # fixed order in which the job lists its tasks (None: shuffled per run)
        self.cfg = dict(n=n, edges=[list(e) for e in edges], hasdir=list(hasdir), present=list(present), beh=list(beh), echo=[])

    # faults
    def flip(self, t, b):
        self.beh[t - 1] = b
        self.events.append(dict(type='flip', t=t, b=b))

    def lose(self, t):
        os.remove(os.path.join(self.root, 't%d' % t, FILENAME))
        self.events.append(dict(type='lose', t=t))

    def add(self, t):
        self.present[t - 1] = True
        self.events.append(dict(type='add', t=t))

    def has_file(self, t):
        return os.path.exists(os.path.join(self.root, 't%d' % t, FILENAME))

    def _entry(self, env, t):
        import schedrun
        e = schedrun.env_dict(env).get('t%d' % t) if env is not None else None
        if e is None or 'status' not in e:
            return dict(st='ABSENT', ver=0, s=-1, e=-1, od=False)
        try:
            st = schedrun._TaskStatus(e['status']).name
        except ValueError:
            st = 'BOGUS'
        ver = 0
        p = e.get('payload')
        if p is not None:
            ver = p[1] if (p[0] == t and e.get('nested') == {'a': p, 'b': {'c': p[1]}}) else -9
        s = e.get('start_clock')
        en = e.get('end_clock')
        return dict(st=st, ver=ver, s=-1 if s is None else int(s), e=-1 if en is None else int(en), od='output_dir' in e)

    def do_run(self, schedule_=None):
        import detsched
        import schedrun
        from valjean.cosette.task import Task, TaskStatus
        from valjean.cosette.depgraph import DepGraph
        from valjean.cambronne.common import read_env, write_env
        self.run += 1
        hist = self
        runno = self.run
        execd = {t: 0 for t in range(1, self.n + 1)}

        class RTask(Task):
            def __init__(self, idx):
                super().__init__('t%d' % idx)
                self.idx = idx

            def __hash__(self):
                return self.idx

            def __eq__(self, other):
                return self is other

            def do(self, env, config):
                detsched.yield_(('dostart', self.idx))
                execd[self.idx] += 1
                b = hist.beh[self.idx - 1]
                if b == 'raise':
                    raise RuntimeError('probe fails')
                upd = {self.name: {'payload': [self.idx, runno], 'nested': {'a': [self.idx, runno], 'b': {'c': runno}}}}
                if self.idx in hist.echo:
                    # an incremental task: it returns an amended copy of the record it finds under its own name (clocks and
                    # status of its previous execution included); what the backend records must be this execution's
                    try:
                        upd = {self.name: dict(dict(env[self.name]), **upd[self.name])}
                    except KeyError:
                        pass
                if hist.hasdir[self.idx - 1]:
                    d = os.path.join(hist.root, self.name)
                    os.makedirs(d, exist_ok=True)
                    upd[self.name]['output_dir'] = d
                return upd, (TaskStatus.DONE if b == 'ok' else TaskStatus.FAILED)

        tasks = {t: RTask(t) for t in range(1, self.n + 1) if self.present[t - 1]}
        hard = DepGraph()
        soft = DepGraph()
        # a job may list its tasks in any order (the final task first, say): the node order of the graphs varies
        listing = sorted(tasks)
        if self.listing is not None:
            listing = [t for t in self.listing if t in tasks]
        else:
            self.rng.shuffle(listing)
        for t in listing:
            hard.add_node(tasks[t])
            soft.add_node(tasks[t])
        for i, j, kind in self.edges:
            if i in tasks and j in tasks:
                (hard if kind == 'hard' else soft).add_dependency(tasks[i], on=tasks[j])
        names = [tasks[t].name for t in sorted(tasks)]
        env = read_env(root=self.root, names=names, filename=FILENAME, fmt='pickle')
        from valjean.cosette.scheduler import Scheduler
        try:
            order = [t.idx for t in Scheduler(hard_graph=hard, soft_graph=soft).full_graph.topological_sort()]
        except Exception:  # pylint: disable=broad-except
            order = sorted(tasks)
        self.events.append(dict(type='start', env=[self._entry(env, t) for t in range(1, self.n + 1)], order=order))
        strat = detsched.RandomStrategy(random.Random(self.rng.random())) if schedule_ is None else detsched.Replay(schedule_)
        ctl = detsched.Controller(strat, max_steps=4000)
        ctl.clock = self.clock
        ctl.mono_origin = self.clock        # (the monotonic clocks restart with every run: another process, maybe another boot)
        result = {}

        def master():
            # what `valjean run` does (cambronne.commands.run.schedule), spelled out so that no private helper is needed
            _env_mod, q_mod = schedrun.load()
            result['env'] = Scheduler(hard_graph=hard, soft_graph=soft,
                                      backend=q_mod.QueueScheduling(self.workers)).schedule(env=env, config=None)
        main = ctl.run(master)
        self.clock = ctl.clock
        execs = []
        for t in tasks:
            e = schedrun.env_dict(env).get('t%d' % t)
            if execd[t] > 0 and e is not None and e.get('start_clock') is not None and e.get('end_clock') is not None:
                execs.append(dict(type='exec', t=t, s=int(e['start_clock']), e=int(e['end_clock'])))
        # a task is queued only after its dependencies were published, and reads its start clock after that:
        # ordering by start clock puts every dependency before its dependents
        self.events.extend(sorted(execs, key=lambda x: x['s']))
        verdict = ctl.verdict
        if main.exc is not None:
            verdict = 'raised:%r' % (main.exc,)
        write_env(env, filename=FILENAME, fmt='pickle')
        self.events.append(dict(type='end', env=[self._entry(env, t) for t in range(1, self.n + 1)],
                                execd=[execd[t] for t in range(1, self.n + 1)], verdict=verdict,
                                schedule=[x for x, _ in ctl.trace]))
        return verdict

    def trace(self):
        return dict(cfg=self.cfg, events=self.events, workers=self.workers)


def closed(present, edges):
    return all(present[j - 1] for i, j, _ in edges if present[i - 1])


def systematic_histories(ctx, wd):
    """Every hard/soft graph on 3 tasks x every order in which the job can list them x the loss of each persisted file
    between two runs (all tasks succeed and have an output directory)."""
    import itertools
    traces = []
    k = 0
    pairs = [(2, 1), (3, 1), (3, 2)]
    graphs = list(itertools.product(['none', 'hard', 'soft'], repeat=3))
    if ctx.quick:
        graphs = [g for g in graphs if g.count('none') <= 1]
    for kinds in graphs:
        edges = [[i, j, kd] for (i, j), kd in zip(pairs, kinds) if kd != 'none']
        for listing in itertools.permutations([1, 2, 3]):
            for lost in (1, 2, 3):
                root = os.path.join(wd, 'sys%d' % k)
                k += 1
                os.makedirs(root)
                h = History(3, edges, [True] * 3, [True] * 3, ['ok'] * 3, 1 + k % 2, k, root, listing=list(listing))
                h.do_run()
                if h.has_file(lost):
                    h.lose(lost)
                h.do_run()
                shutil.rmtree(root, ignore_errors=True)
                traces.append(h.trace())
                ctx.count(evaluations=1)
                ctx.distinct(('sys', kinds, listing, lost))
    return traces


def random_history(rng, n, runs, workers, root, p_fault=0.7, behs=('ok', 'ok', 'fail', 'raise')):
    edges = []
    for i in range(2, n + 1):
        for j in range(1, i):
            if rng.random() < 0.5:
                edges.append([i, j, rng.choice(['hard', 'soft'])])
    hasdir = [rng.random() < 0.85 for _ in range(n)]
    present = [rng.random() < 0.8 for _ in range(n)]
    for _ in range(n):   # downward closure
        for i, j, _k in edges:
            if present[i - 1]:
                present[j - 1] = True
    if not any(present):
        present[0] = True
    beh = [rng.choice(behs) for _ in range(n)]
    h = History(n, edges, hasdir, present, beh, workers, rng.random(), root)
    if rng.random() < 0.35:
        h.echo = set(t for t in range(1, n + 1) if rng.random() < 0.6)
        h.cfg['echo'] = sorted(h.echo)
    script = []
    for r in range(runs):
        h.do_run()
        if r == runs - 1:
            break
        for _ in range(rng.choice([0, 1, 1, 2])):
            kind = rng.choice(['flip', 'flip', 'lose', 'add'])
            if kind == 'flip':
                t = rng.choice([t for t in range(1, n + 1) if h.present[t - 1]])
                b = rng.choice([x for x in ('ok', 'fail', 'raise') if x != h.beh[t - 1]])
                h.flip(t, b)
            elif kind == 'lose':
                c = [t for t in range(1, n + 1) if h.has_file(t)]
                if c:
                    h.lose(rng.choice(c))
            else:
                c = [t for t in range(1, n + 1) if not h.present[t - 1] and all(h.present[j - 1] for i, j, _k in edges if i == t)]
                if c:
                    h.add(rng.choice(c))
    return h


# ---------------------------------------------------------------------------
# TLC validation of recorded histories
# ---------------------------------------------------------------------------
def tlc_validate(ctx, wd, traces, n, strict, tag):
    tj = tlc.json_dump(os.path.join(wd, 'rtraces_%s.json' % tag), traces)
    oj = os.path.join(wd, 'rout_%s.json' % tag)
    cfg = tlc.write_cfg(os.path.join(wd, 'rtrace_%s.cfg' % tag), spec='TSpec',
                        constants={'N': n, 'MaxRuns': 1000, 'MaxFaults': 1000, 'Configs': Raw('{}'),
                                   'Behs': frozenset({'ok', 'fail', 'raise'}), 'Strict': strict},
                        deadlock=False, postcondition='Post')
    res = tlc.run(TRACE, cfg, workers=1, coverage=False, env=dict(VERIF_TRACES=tj, VERIF_OUT=oj), timeout=1700)
    ctx.tlc(res, 'RunsTrace/%s/%s' % (tag, 'strict' if strict else 'observer'))
    if not res.ok:
        raise tlc.MachineryError('RunsTrace %s: %s\n%s' % (tag, res.violation, res.out[-2000:]))
    with open(oj) as f:
        out = json.load(f)
    return out['reached'], out['failing']


def classify(tr, names):
    """Finding class: failing invariants + the ingredients of the history."""
    ev = tr['events']
    kinds = sorted(set(e['type'] for e in ev if e['type'] in ('flip', 'lose', 'add')))
    behs = sorted(set(tr['cfg']['beh']) | set(e['b'] for e in ev if e['type'] == 'flip'))
    nodir = 'nodir' if not all(tr['cfg']['hasdir']) else 'alldirs'
    ek = sorted(set(e[2] for e in tr['cfg']['edges']))
    return 'C04/%s/faults=%s;behs=%s;%s;edges=%s' % ('+'.join(names), ','.join(kinds) or 'none', ','.join(behs), nodir, ','.join(ek) or 'none')


def corrupted_twins(traces):
    """Binding self-test: 'drop' = an execution event removed (strict mode must reject), 'stale' = a DONE task made
    older than a DONE dependency in an end-of-run environment (observer mode must report C04_Fresh)."""
    import copy
    out = []
    for tr in traces:
        edges = tr['cfg']['edges']
        ends = [i for i, e in enumerate(tr['events']) if e['type'] == 'end']
        execs = [i for i, e in enumerate(tr['events']) if e['type'] == 'exec']
        hit = None
        for i in ends:
            env = tr['events'][i]['env']
            for a, b, _k in edges:
                if env[a - 1]['st'] == 'DONE' and env[b - 1]['st'] == 'DONE' and env[b - 1]['e'] > 0:
                    hit = (i, a, b)
                    break
            if hit:
                break
        if not hit or not execs or any(e['type'] == 'end' and e['verdict'] != 'ok' for e in tr['events']):
            continue
        t1 = copy.deepcopy(tr)
        del t1['events'][execs[0]]
        out.append(('drop', t1))
        t2 = copy.deepcopy(tr)
        i, a, b = hit
        t2['events'][i]['env'][a - 1]['s'] = t2['events'][i]['env'][b - 1]['e'] - 1
        out.append(('stale', t2))
        break
    return out


def judge(ctx, wd, traces, n, tag):
    if not traces:
        return
    twins = corrupted_twins(traces) if 'tlc_runs' in getattr(ctx, 'cov', {}) else []
    reached, failing = tlc_validate(ctx, wd, traces + [t for _, t in twins], n, False, tag + 'o')
    for (kind, _tw), fl in zip(twins, failing[len(traces):]):
        if kind == 'stale' and 'C04_Fresh' not in fl:
            raise tlc.MachineryError('binding self-test: RunsTrace (observer) accepts an end-of-run environment in which a DONE task '
                                     'started before its DONE dependency ended')
    reached, failing = reached[:len(traces)], failing[:len(traces)]
    for tr, r, fl in zip(traces, reached, failing):
        if r != len(tr['events']) + 2:
            raise tlc.MachineryError('RunsTrace observer did not consume a history (%d of %d events)' % (r, len(tr['events'])))
        bad_verdicts = [e['verdict'] for e in tr['events'] if e['type'] == 'end' and e['verdict'] != 'ok']
        names = sorted(fl)
        if bad_verdicts:
            names.append('run-did-not-complete:%s' % bad_verdicts[0][:40])
        if names:
            ctx.violation(classify(tr, names), 'on a real history of runs the C04 invariants %s of Runs.tla are false '
                          '(history: %s)' % (names, json.dumps([e if e['type'] not in ('start', 'end') else
                                                                  {'type': e['type'], 'st': [x['st'] for x in e['env']]}
                                                                  for e in tr['events']])[:600]),
                          dict(trace=tr), module='conf_runs')
    drops = [t for k, t in twins if k == 'drop']
    reached, _ = tlc_validate(ctx, wd, traces + drops, n, True, tag + 's')
    for tw, r in zip(drops, reached[len(traces):]):
        if r == len(tw['events']) + 2:
            raise tlc.MachineryError('binding self-test: RunsTrace (strict) accepts a history with one execution removed')
        ctx.cov['corrupted_traces_rejected'] = ctx.cov.get('corrupted_traces_rejected', 0) + 1
    reached = reached[:len(traces)]
    ndrift = 0
    for tr, r in zip(traces, reached):
        if r != len(tr['events']) + 2:
            ndrift += 1
            if ndrift <= 2:
                ev = tr['events'][r - 1] if r - 1 < len(tr['events']) else None
                ctx.drift('RunsTrace (strict) rejects event %d of a real history: %s' % (r, json.dumps(ev)[:300]))
    ctx.cov['drift_traces'] = ctx.cov.get('drift_traces', 0) + ndrift
    ctx.count(traces=len(traces))


def replay_case(case):
    """Re-execute the recorded history (same faults, fresh random schedules) and judge it again."""
    tr = case['trace']
    c = tr['cfg']
    root = tlc.workdir('c04replay')
    h = History(c['n'], c['edges'], c['hasdir'], c['present'], c['beh'], tr.get('workers', 1), 12345, root)
    h.echo = set(c.get('echo') or [])
    ends = [e for e in tr['events'] if e['type'] == 'end']
    for e in tr['events']:
        if e['type'] == 'start':
            h.do_run(ends[h.run].get('schedule') if h.run < len(ends) else None)
        elif e['type'] == 'flip':
            h.flip(e['t'], e['b'])
        elif e['type'] == 'lose' and h.has_file(e['t']):
            h.lose(e['t'])
        elif e['type'] == 'add':
            h.add(e['t'])

    class _C:
        cov = {}

        def __init__(self):
            self.v = []

        def tlc(self, *a):
            pass

        def count(self, **k):
            pass

        def drift(self, *a):
            pass

        def violation(self, key, what, case_, module=None):
            self.v.append(what)
    fake = _C()
    judge(fake, tlc.workdir('c04replayw'), [h.trace()], c['n'], 'r')
    if fake.v:
        return False, fake.v[0]
    return True, 'the history no longer violates C04'


# ---------------------------------------------------------------------------
# spec -> code
# ---------------------------------------------------------------------------
def F(x):
    return {i + 1: v for i, v in enumerate(x)} if isinstance(x, tuple) else x


def replay_behaviour(ctx, beh, n, root, seed):
    """Drive the real code along the fault history of a TLC behaviour; compare the environment after each run."""
    s0 = beh[0][1]
    kind = s0['kind']
    edges = [[i, j, kd] for (i, j), kd in sorted(kind.items()) if kd != 'none']
    hasdir = [F(s0['hasdir'])[t] for t in range(1, n + 1)]
    present = [F(s0['present'])[t] for t in range(1, n + 1)]
    behv = [F(s0['beh'])[t] for t in range(1, n + 1)]
    h = History(n, edges, hasdir, present, behv, 1 + seed % 2, seed, root)
    for label, st in beh[1:]:
        if label.startswith('Flip'):
            args = label[label.index('(') + 1:label.index(')')].split(',')
            h.flip(int(args[0]), args[1].strip().strip('"'))
        elif label.startswith('Lose'):
            h.lose(int(label[label.index('(') + 1:label.index(')')]))
        elif label.startswith('Add'):
            h.add(int(label[label.index('(') + 1:label.index(')')]))
        elif label.startswith('StartRun') or label.startswith('StartAny'):
            h.do_run()
        elif label == 'EndRun':
            real = h.events[-1]
            env = F(st['env'])
            ex = F(st['execd'])
            for t in range(1, n + 1):
                m = env[t]
                r = real['env'][t - 1]
                if (m['st'], m['ver'], m['od']) != (r['st'], r['ver'], r['od']) or ex[t] != real['execd'][t - 1]:
                    return ('after run %d task %d is %s (executed %d) in the implementation, %s (executed %d) in Runs.tla'
                            % (h.run, t, r, real['execd'][t - 1], dict(m), ex[t])), h
            # clock relations between dependent tasks
            for i, j, _k in edges:
                mi, mj, ri, rj = env[i], env[j], real['env'][i - 1], real['env'][j - 1]
                if mi['st'] != 'ABSENT' and mj['st'] != 'ABSENT' and mi['s'] != -1 and mj['e'] != -1:
                    if (mj['e'] <= mi['s']) != (rj['e'] <= ri['s']):
                        return 'after run %d the clock order of %d and its dependency %d differs from the model' % (h.run, i, j), h
    return None, h


def simulate_and_replay(ctx, wd, n, configs, num, depth, behs, runs, faults):
    sim = os.path.join(wd, 'rsim')
    os.makedirs(sim, exist_ok=True)
    cfg = tlc.write_cfg(os.path.join(wd, 'rsim.cfg'), constants={'N': n, 'MaxRuns': runs, 'MaxFaults': faults,
                                                                  'Configs': Raw('<- ' + configs), 'Behs': frozenset(behs)}, deadlock=False)
    tlc.run(SPEC_MC, cfg, workers=1, simulate=dict(num=num, file=os.path.join(sim, 'b')), depth=depth, seed=ctx.seed + 3,
            coverage=False, timeout=900)
    behs_ = tlc.read_sim_files(os.path.join(sim, 'b'))
    traces = []
    nmis = 0
    for k, beh in enumerate(behs_):
        root = os.path.join(wd, 'h%d' % k)
        os.makedirs(root)
        mism, h = replay_behaviour(ctx, beh, n, root, ctx.seed * 1000 + k)
        shutil.rmtree(root, ignore_errors=True)
        traces.append(h.trace())
        ctx.count(evaluations=1)
        ctx.distinct(('sim', json.dumps(h.cfg, sort_keys=True), json.dumps([e for e in h.events if e['type'] in ('flip', 'lose', 'add', 'start')], sort_keys=True)))
        if mism:
            # not a drift by itself: which tasks are re-executed can depend on the interleaving of decisions and
            # executions inside a run (e.g. a DONE task whose soft dependency ends SKIPPED is kept if it is decided
            # after the skip, re-run if it was put to WAITING before); the recorded history is judged against ALL
            # interleavings of the model by RunsTrace (strict) below
            nmis += 1
    shutil.rmtree(sim, ignore_errors=True)
    ctx.cov['replayed_behaviours'] = len(behs_)
    ctx.cov['replay_differs_from_simulated_interleaving'] = nmis
    return traces


def run_c04(ctx):
    import schedrun
    schedrun.load()
    wd = tlc.workdir('c04')
    ctx.assume('runs are executed under the deterministic scheduler with a logical clock that continues across runs; '
               'interleavings inside a run are explored by random schedules here and exhaustively in C01-C03')
    ctx.assume('tasks without output directory are never persisted and are legitimately re-executed in every run')
    ctx.rule('model: all histories of Runs.tla for the configurations in tlc_runs; spec->code: fault histories of simulated '
             'TLC behaviours executed on the real read_env/schedule/write_env cycle, environment compared after every run; '
             'code->spec: seeded random histories (up to 6 tasks, 5 runs) validated by TLC against RunsTrace (strict and '
             'observer). distinct_nontrivial = distinct (configuration, fault history) pairs executed on the implementation.')
    # model
    runs = [('chain3', 3, 4, 3, 'MC_Chain3', {'ok', 'fail', 'raise'}),
            ('dirs3', 3, 3, 2, 'MC_Dirs', {'ok', 'fail'})]
    if not ctx.quick:
        runs += [('mixed3', 3, 3, 2, 'MC_MixedDirs', {'ok', 'fail'}), ('dirs3_raise', 3, 3, 2, 'MC_Dirs', {'ok', 'raise'}),
                 ('dirs3_deep', 3, 4, 3, 'MC_Dirs', {'ok', 'fail'})]
    for name, n, mr, mf, configs, behs in runs:
        cfg = tlc.write_cfg(os.path.join(wd, name + '.cfg'), constants={'N': n, 'MaxRuns': mr, 'MaxFaults': mf,
                                                                        'Configs': Raw('<- ' + configs), 'Behs': frozenset(behs)},
                            invariants=INVS)
        res = tlc.run(SPEC_MC, cfg, timeout=1700)
        ctx.tlc(res, 'Runs/' + name)
        if not res.ok:
            raise tlc.MachineryError('Runs/%s: TLC reports %s in the model of the intended behaviour\n%s' % (
                name, res.violation, '\n'.join('%s %s' % (a, s and dict(env=s['env'], file=s['file'])) for a, s in res.trace[-6:])))
        tlc.check_coverage(res, ['StartAny', 'MDecide', 'EndRun', 'Flip', 'Lose'] + (['Add'] if configs != 'MC_Chain3' else []), 'Runs/' + name)
    for wit in ['W_HeadRerunTailDone', 'W_Dropped', 'W_SkippedAfterDone', 'W_Added']:
        cfg = tlc.write_cfg(os.path.join(wd, wit + '.cfg'), constants={'N': 3, 'MaxRuns': 3, 'MaxFaults': 2, 'Configs': Raw('<- MC_Dirs'),
                                                                       'Behs': frozenset({'ok', 'fail'})}, invariants=[wit])
        res = tlc.run(SPEC_MC, cfg, coverage=False, timeout=900)
        ctx.tlc(res, 'Runs/witness/' + wit)
        if res.violation != ('invariant', wit):
            raise tlc.MachineryError('witness %s not reachable in Runs.tla' % wit)
    import conf_decide
    conf_decide.run(ctx, wd, 'C04')
    # spec -> code
    traces3 = simulate_and_replay(ctx, wd, 3, 'MC_MixedDirs', ctx.pick(120, 1200), 60, {'ok', 'fail', 'raise'}, 4, 3)
    judge(ctx, wd, traces3, 3, 'sim3')
    # code -> spec, systematic part
    judge(ctx, wd, systematic_histories(ctx, wd), 3, 'sys3')
    # code -> spec
    rng = random.Random(ctx.seed * 31337 + 5)
    groups = {}
    plan = [(3, 4, ctx.pick(60, 500)), (4, 4, ctx.pick(50, 400)), (5, 5, ctx.pick(30, 300)), (6, 4, ctx.pick(15, 150))]
    for n, nruns, count in plan:
        for k in range(count):
            root = os.path.join(wd, 'r%d_%d' % (n, k))
            os.makedirs(root)
            h = random_history(rng, n, nruns, rng.choice([1, 2, 3]), root)
            shutil.rmtree(root, ignore_errors=True)
            groups.setdefault(n, []).append(h.trace())
            ctx.count(evaluations=1)
            ctx.distinct(('impl', json.dumps(h.cfg, sort_keys=True), json.dumps([e for e in h.events if e['type'] in ('flip', 'lose', 'add', 'start')], sort_keys=True)))
    for n, traces in sorted(groups.items()):
        judge(ctx, wd, traces, n, 'rnd%d' % n)
    ctx.cov['exhaustive'] = True
    ctx.cov['explanation'] = ('exhaustive for the TLC configurations listed in tlc_runs (all histories of the bounded model) and for the '
                              'systematic 3-task family (graph x listing order x lost file); random histories beyond them')
    smp = groups[4][0]
    ctx.sample(dict(cfg=smp['cfg'], events=[e if e['type'] not in ('start', 'end') else dict(type=e['type'], st=[x['st'] for x in e['env']])
                                            for e in smp['events']]))
    # behaviour beyond the listed property (DESIGN 10.6): the configuration objects the runs are given
    import conf_config
    ctx.extra('Config', conf_config.run, tlc.workdir('c04config'))
