"""C12 -- failure marks in rendered reports: binding of specs/Render.tla and specs/TableOps.tla to
valjean.javert (representation.py, table_repr.py, templates.py, rst.py).

spec -> code : TLC enumerates the input domain of Render.tla (result kind x failing pattern x shape x
               verbosity x representer; the constructive rendering family is model-checked against the
               property invariants in the same module).  Every enumerated input is turned into a *real*
               test result whose bins fail exactly as the state says, rendered through
               Rst.format_result, parsed back with docutils, and the projection is judged by TLC
               (RenderTrace.tla evaluates the property-level predicates of Render.tla on it).
               TLC also enumerates table-operation sequences (TableOps.tla); every dumped behaviour is
               re-executed on a real TableTemplate, rendered with RstTable, parsed back and compared
               with the table TLC computed.
code -> spec : seeded random results outside the enumerated domain (3 datasets, larger / 3-d shapes,
               'student fails but correction passes' bins, ...) and random operation sequences on
               random tables (incl. 2-d columns) are executed, recorded and validated by TLC against
               RenderTrace.tla / TableOpsTrace.tla.  Every TableTemplate a representer produced is
               additionally validated as a zero-operation TableOps trace (cells read back as the
               formatted inputs).
layouts      : the expected rendering depends on the numbers of the datasets only, not on how they are stored: every
               enumerated / random dataset case is also presented (in rotation) with Fortran-ordered arrays, transposed
               views, strided slices of a larger buffer, integer dtype, all datasets alike or each its own (case['lay']),
               and judged by the same clauses; random 2-d table-operation cases get Fortran / transposed / strided
               columns and masks.
summaries    : the expected rendering of a statistics summary depends on the counts only, not on what the counted things
               are called or where they come from: every enumerated / random summary is also presented (in rotation) with
               names repeated within / across the status classes (the same task listed twice, one name for everything),
               equally named tests that are different tests, all results in one task's list, two selected labels, tests
               carrying only part of the selected labels; a summary by labels may have no row at all (TLC enumerates it).
               Keys say which: /repeated-names, /same-name-other-test, /one-task, /zero-rows, /two-labels, /partial-labels.
names/orders : the expected rendering does not depend on what the named things of a result are called nor on the order in
               which they were given: one case in five of every pattern (in fifteen for the summaries of tasks / tests) is also presented with its datasets /
               metadata samples and keys / tasks / tests / labels and label values called by names whose insertion order is
               not the alphabetical one ('run9' before 'run10' -- string order differs from numeric order --, 'tripoli' /
               'mcnp' / 'serpent', the plain names in descending order), the items of a summary listed in another order
               (key suffix /order-<which>).  The read-back is judged column-wise too: a column of a per-bin table whose
               header names one dataset shows, of the values and errors of the row's bin, only that dataset's
               (Render!DsCellsOK); a column of a per-key / per-label table headed by the name of a sample / label shows the
               value of that sample / label for the row's key / label row (Render!NamedCellsOK); both are part of rowsOK,
               i.e. of the clauses BinRows / ItemRows.  Which cells of a metadata row are marked is not in the statement
               (rows are): a mark under the header of a sample that agrees with the reference is reported as DRIFT.
cell texts   : the expected rendering does not depend on how the free strings of the cells are written: one case in 2 .. 15
               of every pattern of the kinds with string cells (metadata, statistics of tasks / tests / tests by labels,
               failed evaluation) is also presented with its metadata values and keys / label values / names of tasks and
               tests / message carrying a leading / trailing blank, inner blanks, long, with non-ASCII letters, empty, and
               (metadata) with the differing value differing from the reference value ONLY by a trailing / leading blank or
               by case, or by being empty (key suffix /text-<flavour>; TEXTS_BY_KIND).  A table cell reads back as the string
               without its leading / trailing blanks.  Every other random table-operation case has such strings in its string
               column.  reST markup characters (backquote, asterisk, pipe, backslash ...) are not generated.
table ops of : one case in fourteen (quick) / eight has the tables its representer produced joined with themselves, joined with the
representer    table the same representer produced for another result of the same kind (same headers, another failing
tables         pattern / number of rows), sliced, joined then sliced, on the real TableTemplates; the text of the final table
               is read back and TLC (TableOpsTrace.tla) compares it with what TableOps.tla computes from the formatted
               inputs (keys C12/table-ops/<kind>/<operations>-<operand>/<why>).
"""
import io
import json
import os
import re
from concurrent.futures import ThreadPoolExecutor
from collections import OrderedDict, defaultdict

import numpy as np

import tlc
from tlc import Raw

SPEC = os.path.join(tlc.SPECS, 'Render.tla')
TRACE = os.path.join(tlc.SPECS, 'RenderTrace.tla')
TSPEC = os.path.join(tlc.SPECS, 'TableOps.tla')
TTRACE = os.path.join(tlc.SPECS, 'TableOpsTrace.tla')
MOD = 'conf_render'

DS_KINDS = ('equal', 'approx', 'student', 'bonferroni', 'holm')
KINDS = DS_KINDS + ('metadata', 'stats_tasks', 'stats_tests', 'stats_labels', 'failed')
REPS = ('table', 'fulltable', 'full')
VERBS = ('SILENT', 'SUMMARY', 'DEFAULT', 'INTERMEDIATE', 'FULL_DETAILS', 'DEVELOPMENT')
DIMS = ('dimx', 'dimy', 'dimz')
REF = 'ref'
DSNAMES = ('dsa', 'dsb', 'dsc')
TASK_STATUSES = ('DONE', 'WAITING', 'PENDING', 'FAILED', 'SKIPPED')      # DONE first: the success status
TEST_OUTCOMES = ('SUCCESS', 'FAILURE', 'MISSING')
MID_T = 2.7    # |t| that fails Student at alpha=0.01 (2.576) but passes both corrections (see build_dataset_result)

# names given to the named things of a case (datasets, metadata samples and keys, tasks, tests, labels and their
# values) in an insertion order that is not the alphabetical one: case['ord'] = 'runs' (string order differs from the
# numeric order too), 'codes', 'rev' (the plain names, inserted in descending order)
ORD_POOLS = {'runs': ('run9', 'run10', 'run2', 'run11', 'run1', 'run30'),
             'codes': ('tripoli', 'mcnp', 'serpent', 'apollo', 'openmc', 'geant')}
ORDS = ('runs', 'codes', 'rev')


def _names(case, default, tag=''):
    """The names of len(default) things in insertion order: `default` itself, or what case['ord'] says (tag keeps the
    names of different sorts of things apart)."""
    o = case.get('ord')
    default = list(default)
    if not o:
        return default
    if o == 'rev':
        return sorted(default, reverse=True)
    pool = ORD_POOLS[o]
    return [tag + pool[i % len(pool)] + ('' if i < len(pool) else 'x%d' % (i // len(pool))) for i in range(len(default))]


def _shuffled(case, items):
    """The items in the insertion order case['ord'] asks for: as given, reversed ('rev') or in a fixed shuffle."""
    o = case.get('ord')
    if not o:
        return list(items)
    if o == 'rev':
        return list(items)[::-1]
    import random
    out = list(items)
    random.Random(len(out) * 7 + len(o)).shuffle(out)
    return out


# what the free strings that end up in table cells / texts look like (case['text']): metadata values and keys, label
# values, names of tasks / tests, the message of a failed evaluation.  The first five apply to every such string; the
# others say how the metadata values that differ / agree look (see md_value).  reST markup characters are not generated.
TEXTS = ('lead', 'trail', 'inner', 'long', 'nonascii')
TEXTS_BY_KIND = {'metadata': TEXTS + ('trail-only-diff', 'lead-only-diff', 'case-only-diff', 'empty', 'empty-differs'),
                 'stats_labels': TEXTS, 'stats_tasks': TEXTS, 'stats_tests': TEXTS, 'failed': TEXTS + ('empty',)}
TEXT_STRIDE = {'metadata': 2, 'stats_labels': 3, 'stats_tasks': 15, 'stats_tests': 5, 'failed': 1}


def _tx(case, s, empty_ok=False):
    """The string s as case['text'] wants the free strings: with a leading / trailing blank, with single and double
    inner blanks, long (with blanks), with non-ASCII letters; '' for 'empty' where an empty string makes sense."""
    t = case.get('text')
    if t == 'lead':
        return ' ' + s
    if t == 'trail':
        return s + ' '
    if t == 'inner':
        return s[:3] + ' ' + s[3:] + '  x'
    if t == 'long':
        return s + ' ' + 'lorem ipsum ' * 6 + 'end'
    if t == 'nonascii':
        return 'é' + s + 'ßσ'
    if t == 'empty' and empty_ok:
        return ''
    return s


def _cell(s):
    """What a reader finds in a table cell holding the string s: a reST table cell has no leading / trailing blanks."""
    return str(s).strip()


def ds_names(case):
    """[name of the reference, names of the compared datasets ...]"""
    return _names(case, (REF,) + DSNAMES[:len(case['fail'])])


def md_names(case):
    """Metadata: (sample names in insertion order, [reference sample, compared sample 1, ...], key names in insertion
    order with key k at index k).  The reference is the sample whose name sorts first (TestMetadata compares with
    that one); it is not the first one inserted when the names are not in alphabetical order."""
    nsamp = len(case['fail'][0]) + 1
    names = _names(case, ['samp%d' % s for s in range(nsamp)])
    ref = min(names)
    keys = [_tx(case, k) for k in _names(case, ['key%d' % k for k in range(len(case['fail']))], 'k')]
    return names, [ref] + [n for n in names if n != ref], keys


def label_names(case):
    """Summary by labels: (names of the two selectable labels, values of the first one per row, the two values of the
    second one)."""
    sel = ('zone', 'code') if case.get('ord') else ('lab', 'sub')
    return (sel, [_tx(case, n) for n in _names(case, ['row%d' % r for r in range(len(case['fail']))])],
            [_tx(case, n) for n in _names(case, ['s0', 's1'], 's')])


# --------------------------------------------------------------------------------------------
# building real results with a prescribed pattern
# --------------------------------------------------------------------------------------------
def _nbins(shape):
    return int(np.prod(shape)) if shape else 1


LAYS_ND = ('F', 'T', 'strided', 'int', 'F+C', 'C+T', 'strided+F')     # rotation for >= 2-d datasets
LAYS_1D = ('strided', 'int', 'int+C')                                  # F / T do not change a 1-d array
LAYS_0D = ('int',)


def _lay(arr, lay, is_value=False):
    """The same numbers stored / typed differently: 'F' Fortran order, 'T' a transposed view, 'strided' every other
    element of a larger buffer, 'int' integer values where the numbers allow (errors stay float)."""
    if lay == 'int':
        if is_value and np.all(np.isfinite(arr)) and np.all(np.asarray(arr) == np.round(arr)):
            return np.int64(arr) if np.ndim(arr) == 0 else np.asarray(arr).astype(np.int64)
        return arr
    if np.ndim(arr) == 0 or lay in (None, 'C'):
        return arr
    if lay == 'F':
        return np.asfortranarray(arr)
    if lay == 'T':
        return np.ascontiguousarray(arr.T).T
    if lay == 'strided':
        big = np.zeros(arr.shape[:-1] + (2 * arr.shape[-1],), dtype=arr.dtype)
        big[..., ::2] = arr
        return big[..., ::2]
    raise ValueError('unknown layout %r' % (lay,))


def _lay_of(case, d):
    """Layout of dataset d (0 = the reference): case['lay'] = 'F' (all datasets) or 'F+C' (per dataset, cycled)."""
    lays = (case.get('lay') or 'C').split('+')
    return lays[d % len(lays)]


def _datasets(case):
    """Reference and compared datasets: every (dataset, bin) has its own value / error / edges.  case['lay'] says how
    the arrays are stored (same numbers, other memory layout / dtype): see _lay."""
    from valjean.eponine.dataset import Dataset
    shape = tuple(case['shape'])
    n = _nbins(shape)
    fail = case['fail']
    bins = OrderedDict()
    for k, m in enumerate(shape):
        bins[DIMS[k]] = 100.0 * (k + 1) + np.arange(m + 1, dtype=float)
    rval = 10.0 * (np.arange(n, dtype=float) + 1)
    rerr = 0.5 + np.arange(n, dtype=float) / 8.0
    mk0 = lambda a: a.reshape(shape) if shape else np.float64(a[0])
    lay = _lay_of(case, 0)
    names = ds_names(case)
    ref = Dataset(_lay(mk0(rval), lay, True), _lay(mk0(rerr), lay), bins=OrderedDict((k, v.copy()) for k, v in bins.items()), name=names[0])
    others = []
    for d, row in enumerate(fail):
        val = rval.copy()
        err = 0.25 + np.arange(n, dtype=float) / 16.0 + d / 64.0
        for b, st in enumerate(row):
            if st == 1 and case.get('nan'):
                val[b] = np.nan            # undefined on one side only: the bin fails
            elif st == 1:
                val[b] += 1000.0 * (d + 1)
            elif st == 2:
                val[b] += MID_T * float(np.sqrt(rerr[b] ** 2 + err[b] ** 2))
        lay = _lay_of(case, d + 1)
        others.append(Dataset(_lay(mk0(val), lay, True), _lay(mk0(err), lay), bins=OrderedDict((k, v.copy()) for k, v in bins.items()),
                              name=names[d + 1]))
    return ref, others


def build_dataset_result(case):
    from valjean.gavroche.test import TestEqual, TestApproxEqual
    from valjean.gavroche.stat_tests.student import TestStudent
    from valjean.gavroche.stat_tests.bonferroni import TestBonferroni, TestHolmBonferroni
    ref, others = _datasets(case)
    kind = case['kind']
    if kind == 'equal':
        return TestEqual(ref, *others, name='teq').evaluate()
    if kind == 'approx':
        return TestApproxEqual(ref, *others, name='tapprox').evaluate()
    stud = TestStudent(ref, *others, name='tstudent', alpha=0.01)
    if kind == 'student':
        return stud.evaluate()
    if kind == 'bonferroni':
        return TestBonferroni(name='tbonf', test=stud, alpha=0.01).evaluate()
    return TestHolmBonferroni(name='tholm', test=stud, alpha=0.01).evaluate()


NAME_SCHEMES = ('pairs', 'one', 'pool2', 'across')


def _scheme_name(case, cls, i, g):
    """Name of item i of class `cls` (item g of the whole summary).  case['names']: absent = every item its own name;
    'pairs' = the items of a class go by two (the same task / test listed twice: repetition within the class);
    'one' = one name for everything; 'pool2' = two names in turn over the whole summary (repetition within and across
    the classes); 'across' = item i of every class has the same name (repetition across the classes only)."""
    scheme = case.get('names')
    if not scheme:
        return '%s%d' % (cls, i)
    if scheme == 'pairs':
        return '%s%d' % (cls, i // 2)
    if scheme == 'one':
        return 'item'
    if scheme == 'pool2':
        return 'item%d' % (g % 2)
    if scheme == 'across':
        return 'item%d' % i
    raise ValueError('unknown name scheme %r' % (scheme,))


def _item_names(case, statuses):
    """[(status, name)] of the items of a task / test summary: fail[0][s] items of status s, named by case['names']."""
    out = []
    for st, cnt in zip(statuses, case['fail'][0]):
        out += [(st, _scheme_name(case, 'task' + st.lower(), i, len(out) + i)) for i in range(cnt)]
    return [(st, _tx(case, name)) for st, name in _shuffled(case, _renamed(case, out))]


def _renamed(case, items):
    """items = [(x, name, ...)]: with case['ord'] the distinct names are replaced, in order of first appearance, by the
    names of that order (equal names stay equal, different ones different)."""
    if not case.get('ord'):
        return items
    distinct = list(OrderedDict((it[1], None) for it in items))
    new = dict(zip(distinct, _names(case, distinct, 't')))
    return [(it[0], new[it[1]]) + tuple(it[2:]) for it in items]


def _labels_by(case):
    """Number of selected labels of a summary by labels (a table without rows needs two: with one selected label every
    test that carries it makes a row)."""
    return 2 if not case['fail'] else case.get('by', 1)


def _labels_part(case):
    """[[#ok, #ko] carrying only the first selected label (no label if one is selected), [#ok, #ko] carrying only the
    last].  A summary without rows needs one of each, else the evaluation itself refuses the selection."""
    part = [list(p) for p in case.get('part', [[0, 0], [0, 0]])]
    if not case['fail']:
        part = [p if any(p) else [1, 0] for p in part]
    return part


def md_value(case, k, s):
    """Value of metadata key k in sample s (0 = the reference sample).  case['text']: the differing value is the
    reference value plus a trailing / leading blank ('trail-only-diff', 'lead-only-diff'), the reference value in
    upper case ('case-only-diff'), the empty string ('empty-differs'); 'empty': the reference and the agreeing values
    are empty strings; else two unlike words, written as _tx says."""
    t = case.get('text')
    differs = s > 0 and bool(case['fail'][k][s - 1])
    base, other = 'val%d' % k, 'oth%d%d' % (k, s)
    if t in ('trail-only-diff', 'lead-only-diff', 'case-only-diff', 'empty-differs'):
        return base if not differs else dict(zip(('trail-only-diff', 'lead-only-diff', 'case-only-diff', 'empty-differs'),
                                                 (base + ' ', ' ' + base, base.upper(), '')))[t]
    if t == 'empty':
        return other if differs else ''
    return _tx(case, other if differs else base)


def md_dict(case):
    """{sample name: {key name: value}} in the insertion orders of the case."""
    names, samples, keys = md_names(case)
    return {n: {keys[k]: md_value(case, k, samples.index(n)) for k in range(len(keys))} for n in names}


def build_result(case):
    """The real test result described by `case`."""
    from valjean.cosette.task import TaskStatus
    from valjean.gavroche.test import TestEqual, TestResultFailed
    from valjean.gavroche.diagnostics.metadata import TestMetadata
    from valjean.gavroche.diagnostics.stats import TestStatsTasks, TestStatsTests, TestStatsTestsByLabels
    kind = case['kind']
    if kind in DS_KINDS:
        return build_dataset_result(case)
    if kind == 'metadata':
        # fail[k][s]: metadata key k of sample s+1 differs from the reference sample
        return TestMetadata(md_dict(case), name='tmeta').evaluate()
    if kind == 'stats_tasks':
        names = _item_names(case, TASK_STATUSES)
        tres = [(name, {'status': TaskStatus[st]}) for st, name in names]
        return TestStatsTasks(name='tstats', task_results=tres).evaluate()
    if kind in ('stats_tests', 'stats_labels'):
        from valjean.eponine.dataset import Dataset
        def one(name, ok, labels=None, var=0):
            # var: other numbers, i.e. another test (another fingerprint) with the same name and the same verdict
            a = Dataset(np.float64(1.0 + var), np.float64(0.1), name='a')
            b = Dataset(np.float64((1.0 if ok else 2.0) + var), np.float64(0.1), name='b')
            return TestEqual(a, b, name=name, labels=labels).evaluate()
        def tasks_of(items):
            """items = [(task name, test result | None (the task has no 'result'))] -> task_results; case['group'] =
            'one-task': all the test results are the result list of one task (the first name), else one task each."""
            if case.get('group') == 'one-task' and any(r is not None for _, r in items):
                first = next(n for n, r in items if r is not None)
                return [(first, {'result': [r for _, r in items if r is not None]})] + [(n, {}) for n, r in items if r is None]
            return [(n, {} if r is None else {'result': [r]}) for n, r in items]
        differ = case.get('fp') == 'differ'
        if kind == 'stats_tests':
            items = [(name, None if st == 'MISSING' else one(name, st == 'SUCCESS', var=(k if differ else 0)))
                     for k, (st, name) in enumerate(_item_names(case, TEST_OUTCOMES))]
            return TestStatsTests(name='tstats', task_results=tasks_of(items)).evaluate()
        # by labels: row r = the tests carrying all the selected labels with 'lab' = 'row<r>'; case['part'] = tests that
        # carry only the first / only the last selected label (none of them if one label is selected) and are in no row
        by = _labels_by(case)
        both, rown, subn = label_names(case)
        sel = both[:by]
        rown = rown or ['row0']            # (a summary without rows: the tests carrying only part of the labels)
        groups = [('r%d' % r, cnts, dict(zip(sel, (rown[r], subn[r % 2])))) for r, cnts in enumerate(case['fail'])]
        part = _labels_part(case)
        groups.append(('p0', part[0], dict({} if by == 1 else {both[0]: rown[0]}, oth='x')))
        groups.append(('p1', part[1], dict({} if by == 1 else {both[1]: subn[1]}, oth='y')))
        items = []
        for prefix, (nok, nko), lab in groups:
            if case.get('ord'):            # the labels of a test: not in alphabetical order either
                lab = dict(sorted(lab.items(), reverse=True))
            for ok, cnt in ((True, nok), (False, nko)):
                items += [(ok, _scheme_name(case, prefix + ('ok' if ok else 'ko'), i, len(items) + i), lab) for i in range(cnt)]
        items = [(name, ok, lab) for ok, name, lab in _shuffled(case, _renamed(case, items))]
        tres = tasks_of([(name, one(name, ok, lab, var=(k if differ else 0))) for k, (name, ok, lab) in enumerate(items)])
        return TestStatsTestsByLabels(name='tstats', task_results=tres, by_labels=sel).evaluate()
    if kind == 'failed':
        from valjean.eponine.dataset import Dataset
        a_test = TestEqual(Dataset(np.float64(1.0), np.float64(0.1), name='a'),
                           Dataset(np.float64(1.0), np.float64(0.1), name='b'), name='tfailed')
        return TestResultFailed(a_test, _tx(case, 'boom', empty_ok=True))
    raise ValueError(kind)


def representer(name):
    from valjean.javert import representation as rpr
    return {'table': rpr.TableRepresenter, 'fulltable': rpr.FullTableRepresenter, 'full': rpr.FullRepresenter}[name]()


# --------------------------------------------------------------------------------------------
# what the case *means*: row universes and failing rows (given to TLC with the observation)
# --------------------------------------------------------------------------------------------
def _fmt(x, num_fmt='{:11.6g}'):
    return num_fmt.format(x).strip()


def case_tokens(case):
    """Per bin: the formatted values / errors / bin labels (strings the table must show for that bin)."""
    from valjean.javert.rst import RstTable
    num_fmt = RstTable(None).num_fmt
    ref, others = _datasets(case)
    shape = tuple(case['shape'])
    n = _nbins(shape)
    out = []
    for b in range(n):
        idx = np.unravel_index(b, shape) if shape else ()
        vals = [_fmt(np.float64(ds.value[idx] if shape else ds.value), num_fmt) for ds in [ref] + others]
        errs = [_fmt(np.float64(ds.error[idx] if shape else ds.error), num_fmt) for ds in [ref] + others]
        labels = []
        for k, m in enumerate(shape):
            if m < 2:
                continue
            edges = ref.bins[DIMS[k]]
            labels.append('%s - %s' % ('{:.4g}'.format(edges[idx[k]]), '{:.4g}'.format(edges[idx[k] + 1])))
        out.append(dict(vals=vals, errs=errs, labels=labels))
    return out


# --------------------------------------------------------------------------------------------
# rendering and parsing back
# --------------------------------------------------------------------------------------------
_PARSE_CACHE = {}


def parse_rst(text):
    """docutils doctree of `text`; returns (doctree, [system messages of level >= 3 (ERROR)], [warnings])."""
    if text in _PARSE_CACHE:
        return _PARSE_CACHE[text]
    import docutils.core
    import docutils.nodes as nodes
    from docutils.parsers.rst import roles
    saved = dict(roles._roles)              # `.. role:: hl` registers process-wide: undo it after every parse
    try:
        roles._roles.pop('hl', None)
        err = io.StringIO()
        doc = docutils.core.publish_doctree(
            text, settings_overrides=dict(report_level=2, halt_level=5, warning_stream=err, input_encoding='unicode',
                                          file_insertion_enabled=False, raw_enabled=False))
    finally:
        roles._roles.clear()
        roles._roles.update(saved)
    msgs = [m for m in doc.traverse(nodes.system_message)]
    errors = [m.astext().replace('\n', ' ')[:200] for m in msgs if m['level'] >= 3]
    warns = [m.astext().replace('\n', ' ')[:200] for m in msgs if m['level'] == 2]
    res = (doc, errors, warns)
    if len(_PARSE_CACHE) < 20000:
        _PARSE_CACHE[text] = res
    return res


def _is_hl(node):
    import docutils.nodes as nodes
    return any('hl' in n.get('classes', ()) for n in node.traverse(nodes.inline))


def doc_parts(doc):
    """Flat list of the parts of a parsed fragment: tables (header, rows of (text, hl) cells), paragraphs / list
    items (text, mark), images."""
    import docutils.nodes as nodes
    parts = []
    for node in doc.traverse(lambda n: isinstance(n, (nodes.table, nodes.paragraph, nodes.image))):
        if isinstance(node, nodes.table):
            head = [e.astext().strip() for e in node.traverse(nodes.thead)[0].traverse(nodes.entry)] \
                if node.traverse(nodes.thead) else []
            rows = []
            for body in node.traverse(nodes.tbody):
                for row in body.children:
                    rows.append([(e.astext().strip(), _is_hl(e)) for e in row.children])
            parts.append(dict(type='table', head=head, rows=rows))
        elif isinstance(node, nodes.image):
            parts.append(dict(type='image', uri=node['uri']))
        else:
            p = node.parent
            in_table = False
            while p is not None:
                if isinstance(p, (nodes.table, nodes.system_message)):
                    in_table = True
                    break
                p = p.parent
            if not in_table:
                parts.append(dict(type='text', text=node.astext(), mark=_is_hl(node)))
    return parts


def render(case):
    """-> dict(text=..., templates=[...]) or dict(raised='Type: msg')."""
    from valjean.javert.representation import Representation
    from valjean.javert.rst import Rst
    from valjean.javert.verbosity import Verbosity
    from valjean.javert.templates import TableTemplate
    result = build_result(case)
    verdict = bool(result)
    nested_verdict = bool(result.first_test_res) if case['kind'] in ('bonferroni', 'holm') else True
    verb = Verbosity[case['verb']]
    out = dict(verdict=verdict, nested_verdict=nested_verdict)
    try:
        rst = Rst(Representation(representer(case['rep']), verb))
        lines = rst.format_result(result)
        out['text'] = '\n'.join(lines)
    except Exception as ex:  # pylint: disable=broad-except
        out['raised'] = '%s: %s' % (type(ex).__name__, str(ex)[:160])
        return out
    # the templates behind the text (for the statistics kinds a fresh result: looking at one changes it, see C13)
    try:
        again = build_result(case) if case['kind'].startswith('stats') else result
        templates = Representation(representer(case['rep']), verb)(again)
        out['tables'] = [t for t in templates if isinstance(t, TableTemplate)]
    except Exception:  # pylint: disable=broad-except
        out['tables'] = []
    return out


# --------------------------------------------------------------------------------------------
# projection of a rendering (what RenderTrace.tla consumes)
# --------------------------------------------------------------------------------------------
def _install_sphinx_roles():
    """The report is a Sphinx project: `:ref:` is a Sphinx role unknown to bare docutils."""
    from docutils.parsers.rst import roles
    import docutils.nodes as nodes
    if 'ref' not in roles._roles:
        def ref_role(name, rawtext, text, lineno, inliner, options=None, content=None):
            return [nodes.inline(rawtext, text, classes=['xref'])], []
        roles.register_local_role('ref', ref_role)


def _row_id(case, axis, first):
    """Name the row of a table that is not laid out along bins by its first cell (0 = not a row of the axis)."""
    if axis == 'datasets':
        hits = [d for d, n in enumerate(ds_names(case)) if d and n in first.split()]
        return hits[0] if len(hits) == 1 else 0
    if axis == 'keys':
        names = [_cell(n) for n in md_names(case)[2]]
        return names.index(first) + 1 if first in names else 0
    if axis == 'statuses':
        names = TASK_STATUSES if case['kind'] == 'stats_tasks' else TEST_OUTCOMES
        return names.index(first) + 1 if first in names else 0
    if axis == 'labels':
        names = [_cell(n) for n in label_names(case)[1]]
        return names.index(first) + 1 if first in names else 0
    return 0


def case_item_tokens(case):
    """Tables with one row per metadata key / label row and columns headed by the name of a thing: per row id the
    (header, text) pairs the row has to show IF the table has a column with that header -- the metadata value of that
    key for the sample named by the header, the value of the selected label named by the header."""
    if case['kind'] == 'metadata':
        dmd = md_dict(case)
        keys = md_names(case)[2]
        return [[dict(h=n, s=_cell(md[key])) for n, md in dmd.items()] for key in keys]
    if case['kind'] == 'stats_labels':
        both, rown, subn = label_names(case)
        sel = both[:_labels_by(case)]
        return [[dict(h=h, s=_cell(v)) for h, v in zip(sel, (rown[r], subn[r % 2]))] for r in range(len(case['fail']))]
    return []


_WORD = re.compile(r'[A-Za-z0-9_]+')


def _named_columns(head, names, width):
    """Per column of a table: 1 + index of the only name of `names` that the header of the column mentions (as a
    word), 0 if it mentions none or several (or if the header row does not match the rows)."""
    if len(head) != width:
        return [0] * width
    out = []
    for h in head:
        words = set(_WORD.findall(h))
        hits = [k for k, n in enumerate(names) if n in words]
        out.append(hits[0] + 1 if len(hits) == 1 else 0)
    return out


_ITEM_AXIS = {'bonferroni': 'datasets', 'holm': 'datasets', 'metadata': 'keys', 'stats_tasks': 'statuses',
              'stats_tests': 'statuses', 'stats_labels': 'labels'}


def parse_parts(text):
    """(picklable) parts of a rendered fragment: (parts, errors, warnings)."""
    _install_sphinx_roles()
    doc, errors, warns = parse_rst(text)
    return doc_parts(doc), errors, warns


def project(case, rendered, tokens=None, parsed=None):
    """Observation record for RenderTrace.tla."""
    if 'raised' in rendered:
        return dict(raised=True, invalid=False, parts=[], why=rendered['raised'])
    raw_parts, errors, warns = parsed if parsed is not None else parse_parts(rendered['text'])
    kind = case['kind']
    corrected = kind in ('bonferroni', 'holm')
    refvals = set(t['vals'][0] for t in tokens) if tokens else set()
    item_heads = set(e['h'] for row in case_item_tokens(case) for e in row)
    parts, named, marks_off = [], 0, []
    for p in raw_parts:
        if p['type'] == 'image':
            continue
        if p['type'] == 'text':
            who = 'nested' if corrected and 'Student' in p['text'] else 'main'
            parts.append(dict(who=who, type='text', axis='none', mark=bool(p['mark']), rows=[], ds=[], heads=[]))
            continue
        cells = [[c for c, _ in row] for row in p['rows']]
        hls = [any(h for _, h in row) for row in p['rows']]
        width = len(cells[0]) if cells and all(len(r) == len(cells[0]) for r in cells) else -1
        ds, heads = [], []
        if kind in DS_KINDS and any(c in refvals for row in cells for c in row):
            axis = 'bins'
            ids = [0] * len(cells)
            ds = _named_columns(p['head'], ds_names(case), width) if width > 0 else []     # which dataset a column is headed by
            named += sum(1 for d in ds if d)
        else:
            axis = _ITEM_AXIS.get(kind, 'none')
            ids = [_row_id(case, axis, row[0] if row else '') for row in cells]
            if not any(ids):
                axis = 'none'
            elif width > 0 and len(p['head']) == width:
                names = sorted(item_heads)
                heads = [names[d - 1] if d else '' for d in _named_columns(p['head'], names, width)]   # columns headed by the name of a thing
                named += sum(1 for h in heads if h)
                if kind == 'metadata':     # (not in the statement, reported as drift) the marked cells of a row: the samples that differ
                    samples = md_names(case)[1]
                    marks_off += ['%s/%s' % (row[0][0], h) for i, row in zip(ids, p['rows']) if i for (_, hl), h in zip(row, heads)
                                  if h in samples[1:] and bool(hl) != bool(case['fail'][i - 1][samples.index(h) - 1])]
        who = 'nested' if corrected and axis == 'bins' else 'main'
        keep = lambda c: c if axis == 'bins' else [x if h else '' for x, h in zip(c, heads)]
        rows = [dict(id=i, hl=bool(h), cells=keep(c)) for i, h, c in zip(ids, hls, cells)]
        parts.append(dict(who=who, type='table', axis=axis, mark=any(hls), rows=rows, ds=ds, heads=heads))
    return dict(raised=False, invalid=bool(errors), parts=parts, why='; '.join(errors), warnings=warns, named=named, marks_off=marks_off)


def trace_record(cid, case, obs, tokens):
    return dict(id=cid, kind=case['kind'], verb=case['verb'], rep=case['rep'], shape=list(case['shape']),
                fail=[list(r) for r in case['fail']], tok=tokens or [], itok=case_item_tokens(case),
                raised=obs['raised'], invalid=obs['invalid'],
                parts=[dict(who=p['who'], type=p['type'], axis=p['axis'], mark=p['mark'], rows=p['rows'], ds=p['ds'], heads=p['heads'])
                       for p in obs['parts']])


def observe(case):
    """Build, render, parse back: (obs, tokens, rendered)."""
    tokens = case_tokens(case) if case['kind'] in DS_KINDS else []
    rendered = render(case)
    return project(case, rendered, tokens), tokens, rendered


def judge(records, wd, tag='t'):
    """TLC evaluates the clauses of Render.tla on the recorded renderings -> (result, {id: [failed clauses]})."""
    cj = tlc.json_dump(os.path.join(wd, 'cases_%s.json' % tag), records)
    oj = os.path.join(wd, 'out_%s.json' % tag)
    cfg = tlc.write_cfg(os.path.join(wd, 'trace_%s.cfg' % tag), spec='TSpec', invariants=['C12_Meaning'], deadlock=False,
                        postcondition='Post')
    res = tlc.run(TRACE, cfg, workers=1, env=dict(VERIF_CASES=cj, VERIF_OUT=oj), timeout=3000)
    if not res.ok:
        raise tlc.MachineryError('RenderTrace %s: %s\n%s' % (tag, res.violation, res.out[-2000:]))
    with open(oj) as f:
        bad = json.load(f)['bad']
    return res, {cid: sorted(clauses) for cid, clauses in bad}


# --------------------------------------------------------------------------------------------
# table operations (TableOps.tla / TableOpsTrace.tla)
# --------------------------------------------------------------------------------------------
def _cell_number(t, c, r):
    return 100.0 * t + 10.0 * c + r


def _cell_text(t, c, r, ncols, text=None):
    """Text a reader must find for source cell <<t, c, r>> (column 1 holds strings, the others floats)."""
    return _cell(_tx(dict(text=text), 's%d%d%d' % (t, c, r))) if c == 1 else _fmt(_cell_number(t, c, r))


def make_source(t, nrows, masks, ncols, shape=None, lay=None, text=None):
    """A real TableTemplate for source table t; masks[c] = list of bool per row for column c+1; lay: how the (2-d)
    columns and masks are stored (see _lay; the same for all of them); text: what the strings of column 1 look like
    (see _tx).  Returns (template, json table {cols: [[text]], hls: [[bool]]})."""
    from valjean.javert.templates import TableTemplate
    shp = tuple(shape) if shape else (nrows,)
    cols, hls, jcols = [], [], []
    for c in range(1, ncols + 1):
        if c == 1:
            col = np.array([_tx(dict(text=text), 's%d%d%d' % (t, c, r)) for r in range(1, nrows + 1)]).reshape(shp)
        else:
            col = np.array([_cell_number(t, c, r) for r in range(1, nrows + 1)], dtype=float).reshape(shp)
        cols.append(_lay(col, lay))
        hls.append(_lay(np.array(masks[c - 1], dtype=bool).reshape(shp), lay))
        jcols.append([_cell_text(t, c, r, ncols, text) for r in range(1, nrows + 1)])
    tab = TableTemplate(*cols, headers=['h%d' % c for c in range(1, ncols + 1)], highlights=hls)
    return tab, dict(cols=jcols, hls=[[bool(x) for x in m] for m in masks])


def table_text(template):
    from valjean.javert.rst import RstTable
    return str(RstTable(template))


def rows_of_text(text):
    """(picklable) rows of the single table in `text`: dict(raised/invalid/rows=[[{s, hl}]])."""
    doc, errors, _ = parse_rst(text)
    tables = [p for p in doc_parts(doc) if p['type'] == 'table']
    rows = [[dict(s=s, hl=bool(h)) for s, h in row] for row in tables[0]['rows']] if len(tables) == 1 else []
    if len(rows) == 1 and all(c['s'] == '' and not c['hl'] for c in rows[0]):
        rows = []          # reStructuredText cannot write a body without rows: docutils reads a header-only table as one row of empty cells
    return dict(raised=False, invalid=bool(errors) or len(tables) != 1, rows=rows, why='; '.join(errors))


def read_table(template):
    """Render with RstTable, parse back: dict(raised/invalid/rows=[[{s, hl}]])."""
    try:
        text = table_text(template)
    except Exception as ex:  # pylint: disable=broad-except
        return dict(raised=True, invalid=False, rows=[], why='%s: %s' % (type(ex).__name__, str(ex)[:120]))
    return rows_of_text(text)


def run_table_ops(case):
    """case = dict(ncols, n1, m1, n2, m2, ops=[dict(op, a, b)], shape1/shape2 optional) -> trace record fields."""
    from valjean.javert.templates import join as tjoin
    t1, j1 = make_source(1, case['n1'], case['m1'], case['ncols'], case.get('shape1'), case.get('lay'), case.get('text'))
    t2, j2 = make_source(2, case['n2'], case['m2'], case['ncols'], case.get('shape2'), case.get('lay'), case.get('text'))
    cur = t1
    try:
        for op in case['ops']:
            if op['op'] == 'slice':
                cur = cur[slice(op['a'], op['b'])]
            elif op['op'] == 'join':
                cur = tjoin(cur, t2)
            else:
                cur = cur.copy()
        obs = read_table(cur)
    except Exception as ex:  # pylint: disable=broad-except
        obs = dict(raised=True, invalid=False, rows=[], why='%s: %s' % (type(ex).__name__, str(ex)[:120]))
    return j1, j2, obs


def table_record(cid, j1, j2, ops, obs):
    enc = lambda x: [] if x is None else [x]
    return dict(id=cid, t1=j1, t2=j2, ops=[dict(op=o['op'], a=enc(o.get('a')), b=enc(o.get('b'))) for o in ops],
                raised=obs['raised'], invalid=obs['invalid'], obs=obs['rows'])


def template_as_table(template):
    """The formatted inputs of a TableTemplate a representer produced: {cols: [[text]], hls: [[bool]]}."""
    from valjean.javert.rst import RstTable
    num_fmt = RstTable(template).num_fmt
    def fmt(x):
        if isinstance(x, (float, np.floating)):
            return _fmt(x, num_fmt)
        return str(x).strip()
    cols = [[fmt(x) for x in np.asarray(col).ravel().tolist()] if np.asarray(col).dtype.kind != 'f'
            else [_fmt(x, num_fmt) for x in np.asarray(col).ravel()] for col in template.columns]
    hls = [[bool(x) for x in np.asarray(h).ravel()] for h in template.highlights]
    return dict(cols=cols, hls=hls)


def judge_tables(records, wd, tag='tt'):
    cj = tlc.json_dump(os.path.join(wd, 'tcases_%s.json' % tag), records)
    oj = os.path.join(wd, 'tout_%s.json' % tag)
    cfg = tlc.write_cfg(os.path.join(wd, 'ttrace_%s.cfg' % tag), spec='TSpec', constants={'None': Raw('None')},
                        invariants=['C12_Shape'], deadlock=False, postcondition='Post')
    res = tlc.run(TTRACE, cfg, workers=1, env=dict(VERIF_CASES=cj, VERIF_OUT=oj), timeout=3000)
    if not res.ok:
        raise tlc.MachineryError('TableOpsTrace %s: %s\n%s' % (tag, res.violation, res.out[-2000:]))
    with open(oj) as f:
        bad = json.load(f)['bad']
    return res, {cid: why for cid, why in bad}


_EMPTY = dict(cols=[['-']], hls=[[False]])     # operand of cases without join


# --------------------------------------------------------------------------------------------
# the check
# --------------------------------------------------------------------------------------------
R_INVS = ['C12_NoRaise', 'C12_ValidRst', 'C12_MarkIff', 'C12_NestedMark', 'C12_BinRows', 'C12_ItemRows',
          'C12_NoFalseAlarm', 'C12_Meaning']
R_WITNESSES = ['W_FailShownWithPassingRows', 'W_PassTable', 'W_SilentNothing', 'W_NestedOnlyFails', 'W_TotalRow']
T_INVS = ['C12_Shape', 'C12_RowTogether', 'C12_HlWithCell', 'C12_Replay']
T_WITNESSES = ['W_SliceMovesHighlight', 'W_JoinThenSlice']


def _code(shape):
    return int(''.join(str(x) for x in shape) or 0)


def r_consts(kinds=KINDS, shapes=((), (4,), (2, 2)), maxds=2, fs=(0, 1), verbs=VERBS, reps=REPS, mk=3, ms=2, mc=2, ml=3, mp=1):
    return dict(Kinds=frozenset(kinds), ShapeCodes=frozenset(_code(s) for s in shapes), MaxDs=maxds,
                FailStates=frozenset(fs), Verbs=frozenset(verbs), Reps=frozenset(reps), MaxKeys=mk, MaxSamp=ms,
                MaxCount=mc, MaxLabRows=ml, MaxParts=mp)


def case_of_state(st):
    i = st['inp']
    return dict(kind=i['kind'], verb=i['verb'], rep=i['rep'], shape=list(i['shape']), fail=[list(r) for r in i['fail']])


def _templates(case):
    """The TableTemplates the representer builds for the (freshly built) result of the case."""
    from valjean.javert.representation import Representation
    from valjean.javert.verbosity import Verbosity
    from valjean.javert.templates import TableTemplate
    templates = Representation(representer(case['rep']), Verbosity[case['verb']])(build_result(case))
    return [t for t in templates if isinstance(t, TableTemplate)]


def _sliceable(t):
    """Slicing rows a:b of the table is what TableOps.tla models: one-dimensional array columns and masks, >= 2 rows."""
    return (all(isinstance(c, np.ndarray) and c.ndim == 1 and c.size >= 2 for c in t.columns)
            and all(np.ndim(h) == 1 for h in t.highlights))


OPS_JOIN = [dict(op='join', a=None, b=None)]
OPS_JOIN_SLICE = OPS_JOIN + [dict(op='slice', a=1, b=None)]
OPS_SLICES = ([dict(op='slice', a=1, b=None)], [dict(op='slice', a=None, b=-1)])


class _NotOffered(Exception):
    """The operation is not offered for this table (documented refusal): nothing to judge."""


def apply_table_ops(t, u, ops):
    """The operations on real TableTemplates (u: the operand of joins) -> text of the final table."""
    from valjean.javert.templates import join as tjoin
    cur = t
    for op in ops:
        if op['op'] == 'slice':
            if not isinstance(cur.columns[0], np.ndarray):
                raise _NotOffered()        # slicing is documented for array columns only
            cur = cur[slice(op['a'], op['b'])]
        elif op['op'] == 'join':
            cur = tjoin(cur, u)
        else:
            cur = cur.copy()
    return table_text(cur)


def representer_table_ops(tables, others):
    """What a report writer does with the tables a representer produced: join a table with itself, with the table the
    same representer produced for another result of the same kind (`others`, same headers), slice it, slice the join
    -> [(table index, operand 'self' | 'other' | '-', json table, json operand, ops, text | None, error | None)]."""
    out = []
    for k, t in enumerate(tables):
        try:
            j1 = template_as_table(t)
        except Exception:  # pylint: disable=broad-except
            continue                       # (reported by the plain read-back of the table)
        operands = [('self', t, j1)]
        if k < len(others) and list(others[k].headers) == list(t.headers):
            try:
                operands.append(('other', others[k], template_as_table(others[k])))
            except Exception:  # pylint: disable=broad-except
                pass
        todo = [(who, u, j2, OPS_JOIN) for who, u, j2 in operands]
        if all(np.ndim(c) <= 1 for c in t.columns):
            todo += [(who, u, j2, OPS_JOIN_SLICE) for who, u, j2 in operands[-1:]]
        if _sliceable(t):
            todo += [('-', t, _EMPTY, ops) for ops in OPS_SLICES]
        for who, u, j2, ops in todo:
            try:
                out.append((k, who, j1, j2, ops, apply_table_ops(t, u, ops), None))
            except _NotOffered:
                continue
            except Exception as ex:  # pylint: disable=broad-except
                out.append((k, who, j1, j2, ops, None, '%s: %s' % (type(ex).__name__, str(ex)[:120])))
    return out


def _work(item):
    """(worker process) one case (or (case, partner case): also the table operations, see representer_table_ops)
    -> (rendered without live objects, tokens, [(json inputs | None, table text | error)], [table operations])."""
    case, partner = item if isinstance(item, tuple) else (item, None)
    tokens = case_tokens(case) if case['kind'] in DS_KINDS else []
    rendered = render(case)
    tabs, ops = [], []
    tables = rendered.pop('tables', ())
    for t in tables:
        try:
            tabs.append((template_as_table(t), table_text(t), None))
        except Exception as ex:  # pylint: disable=broad-except
            tabs.append((None, None, '%s: %s' % (type(ex).__name__, str(ex)[:120])))
    if partner is not None and tables:
        try:
            others = _templates(partner)
        except Exception:  # pylint: disable=broad-except
            others = []
        ops = representer_table_ops(tables, others)
    return rendered, tokens, tabs, ops


def _pmap(fn, items, chunk=32):
    import multiprocessing as mp
    items = list(items)
    if len(items) < 64:
        return [fn(x) for x in items]
    with mp.get_context('fork').Pool(min(16, tlc.NCPU)) as pool:
        return pool.map(fn, items, chunksize=chunk)


def observe_all(cases, partners=None):
    """-> [(obs, tokens, [(json inputs, read-back table)])], [(case index, partner, table index, operand, j1, j2, ops,
    read-back table)]: render in parallel, parse every distinct text once.  partners: {case index: partner case} for
    the cases whose tables also undergo operations."""
    partners = partners or {}
    raw = _pmap(_work, [(c, partners[i]) if i in partners else c for i, c in enumerate(cases)])
    texts = sorted(set(r['text'] for r, _, _, _ in raw if 'text' in r))
    parsed = dict(zip(texts, _pmap(parse_parts, texts)))
    ttexts = sorted(set(t for _, _, tabs, _ in raw for _, t, _ in tabs if t is not None)
                    | set(o[5] for _, _, _, ops in raw for o in ops if o[5] is not None))
    tparsed = dict(zip(ttexts, _pmap(rows_of_text, ttexts)))
    failed = lambda err: dict(raised=True, invalid=False, rows=[], why=err)
    out, ops_out = [], []
    for i, (case, (rendered, tokens, tabs, ops)) in enumerate(zip(cases, raw)):
        obs = project(case, rendered, tokens, parsed.get(rendered.get('text')))
        tobs = [(jt, tparsed[t] if t is not None else failed(err)) for jt, t, err in tabs]
        out.append((obs, tokens, tobs))
        ops_out += [(i, partners[i], k, who, j1, j2, o, tparsed[t] if t is not None else failed(err)) for k, who, j1, j2, o, t, err in ops]
    return out, ops_out


def ops_partners(cases, stride):
    """{case index: partner case} for one case in `stride` of every (kind, verbosity, representer, shape, names, number
    of datasets / samples ...): the partner is the previous case that differs in the failing pattern only, so that the
    representer gives it a table with the same headers (and, for some kinds, another number of rows)."""
    last, count, out = {}, defaultdict(int), {}
    for i, c in enumerate(cases):
        if c['verb'] == 'SILENT':
            continue
        width = len(c['fail']) if c['kind'] in DS_KINDS else len(c['fail'][0]) if c['kind'] == 'metadata' else 0
        key = json.dumps([{k: v for k, v in c.items() if k not in ('fail', 'nan', 'part')}, width], sort_keys=True)
        count[key] += 1
        if count[key] % (min(stride, 5) if c.get('text') else stride) == 0 and key in last:     # (few text variants per key)
            out[i] = last[key]
        last[key] = c
    return out


def render_key(case, clauses, obs):
    key = 'C12/%s/%s' % (case['kind'], '+'.join(clauses))
    if clauses == ['NoRaise']:
        key += '/' + obs.get('why', '?').split(':')[0]
    return key + _lay_suffix(case)


VARIANT_FIELDS = ('lay', 'names', 'fp', 'group', 'by', 'part', 'ord', 'text')     # dimensions a case is varied along (see *_variants)


def _base_of(case):
    return {k: v for k, v in case.items() if k not in VARIANT_FIELDS}


def _is_variant(case):
    return any(case.get(k) for k in VARIANT_FIELDS)


def _lay_suffix(case):
    """Suffix of a key naming the dimensions along which the case differs from the plain ones."""
    dims = []
    if case.get('lay'):
        dims.append('lay-' + case['lay'])
    if case.get('names'):
        dims.append('repeated-names')
    if case.get('fp'):
        dims.append('same-name-other-test')
    if case.get('group'):
        dims.append(case['group'])
    if case.get('kind') == 'stats_labels':
        if not case['fail']:
            dims.append('zero-rows')
        elif case.get('by', 1) > 1:
            dims.append('two-labels')
        if any(any(p) for p in case.get('part', ())):
            dims.append('partial-labels')
    if case.get('ord'):
        dims.append('order-' + case['ord'])
    if case.get('text'):
        dims.append('text-' + case['text'])
    return ''.join('/' + d for d in dims)


def stats_variants(cases, start=0):
    """The statistics summaries along the dimensions the counts do not show, in rotation over the cases (the expected
    rendering depends on the counts only: the variants are judged like their base case):
    tasks / tests: how the items are named (NAME_SCHEMES: the same name twice within a class, across classes, one name
    for everything); tests: equally named tests that are different tests (other fingerprint), all the results in the
    result list of one task; by labels: two selected labels, tests that carry only some of the selected labels (passing
    and failing ones), every task listed twice."""
    out, rot = [], defaultdict(lambda: start)          # one rotation per (kind, pattern): each sees every option
    for c in cases:
        if _is_variant(c):
            continue
        opts = []
        if c['kind'] in ('stats_tasks', 'stats_tests'):
            counts = c['fail'][0]
            if sum(counts) >= 2:
                opts += [dict(names='one'), dict(names='pool2')]
                if max(counts) >= 2:
                    opts.append(dict(names='pairs'))
                if sum(1 for x in counts if x) >= 2:
                    opts.append(dict(names='across'))
                if c['kind'] == 'stats_tests' and sum(counts[:2]) >= 2:
                    opts += [dict(names='one', fp='differ'), dict(group='one-task'), dict(names='pairs', group='one-task')]
        elif c['kind'] == 'stats_labels':
            opts = [dict(part=[[1, 0], [0, 1]]), dict(part=[[0, 2], [0, 0]]), dict(names='pairs', group='one-task')]
            if c['fail']:
                opts += [dict(by=2), dict(by=2, part=[[0, 1], [1, 0]]), dict(by=2, part=[[0, 0], [0, 1]], names='pairs')]
        if opts:
            pat = (c['kind'], json.dumps(c['fail']))
            out.append(dict(c, **opts[rot[pat] % len(opts)]))
            rot[pat] += 1
    return out


def order_variants(cases, stride=1, start=0):
    """The same results with their named things -- compared datasets, metadata samples and keys, tasks, tests, labels
    and label values -- called by names whose insertion order is not the alphabetical one (ORDS: 'run9' before 'run10',
    'tripoli' / 'mcnp' / 'serpent', the plain names in descending order) and, for the summaries, listed in another
    order.  The expected rendering is the one of the base case with the names replaced: judged by the same clauses.
    One case in `stride` of every (kind, pattern), the orders in rotation; the offsets move from pattern to pattern so
    that every (verbosity, representer) meets every order."""
    out, seen, groups = [], defaultdict(int), {}
    for c in cases:
        if _is_variant(c) or c.get('nan') or c['verb'] == 'SILENT' or c['kind'] == 'failed':
            continue
        if c['kind'].startswith('stats') and c['kind'] != 'stats_labels' and sum(c['fail'][0]) < 2:
            continue
        pat = (c['kind'], json.dumps(c['fail']), json.dumps(c['shape']))
        g = groups.setdefault(pat, len(groups) + start)
        n = seen[pat]
        seen[pat] += 1
        k = stride * (1 if c['kind'] in DS_KINDS + ('metadata', 'stats_labels') else 3)     # (no column per task / test: fewer of those)
        if (n + g) % k == 0:
            out.append(dict(c, ord=ORDS[((n + g) // k + g // k) % len(ORDS)]))
            if c['kind'] == 'stats_labels' and c['fail'] and len(out) % 2:
                out[-1]['by'] = 2          # two selected labels (two columns headed by a label), their names not in alphabetical order
    return out


def text_variants(cases, dense=False, start=0):
    """The same results with the free strings that end up in cells and texts -- metadata values and keys, label values,
    names of tasks / tests, the message of a failed evaluation -- written differently (TEXTS_BY_KIND: leading / trailing
    / inner blanks, long, non-ASCII letters, empty; metadata values that differ from the reference value by a trailing /
    leading blank or by case only, or by being empty).  What fails is unchanged, a table cell reads back as the string
    without its leading / trailing blanks (_cell): judged by the same clauses.  One case in TEXT_STRIDE[kind] (half of
    it if dense) of every (kind, pattern), the flavours in rotation; the offsets move from pattern to pattern so that
    every (verbosity, representer) meets every flavour."""
    out, seen, groups = [], defaultdict(int), {}
    for c in cases:
        opts = TEXTS_BY_KIND.get(c['kind'])
        if not opts or _is_variant(c) or c['verb'] == 'SILENT' or (c['kind'] == 'stats_labels' and not c['fail']):
            continue
        if c['kind'] == 'metadata' and not any(any(r) for r in c['fail']):
            opts = tuple(o for o in opts if not o.endswith('-diff') and o != 'empty-differs')    # (nothing differs)
        pat = (c['kind'], json.dumps(c['fail']))
        g = groups.setdefault(pat, len(groups) + start)
        n = seen[pat]
        seen[pat] += 1
        k = max(1, TEXT_STRIDE[c['kind']] // (2 if dense else 1))
        if (n + g) % k == 0:
            out.append(dict(c, text=opts[((n + g) // k + g) % len(opts)]))
            if c['kind'] == 'stats_labels' and len(out) % 2:
                out[-1]['by'] = 2          # two selected labels: a second column of label values
    return out


def layout_variants(cases, start=0):
    """The same results with the arrays of the datasets stored differently (Fortran order, transposed view, strided
    slice of a larger buffer, integer dtype; all datasets alike or each its own), in rotation over the cases that can
    show a table.  The expected rendering does not depend on the layout: the variants are judged like their base case."""
    out, k = [], {0: start, 1: start, 2: start}
    for c in cases:
        if c['kind'] not in DS_KINDS or c['verb'] == 'SILENT' or c.get('lay'):
            continue
        nd = min(2, len([m for m in c['shape'] if m > 1]))
        rot = (LAYS_0D, LAYS_1D, LAYS_ND)[nd]
        out.append(dict(c, lay=rot[k[nd] % len(rot)]))
        k[nd] += 1
    return out


def _sig(case):
    return json.dumps(case, sort_keys=True)


def _count_by(items, key):
    out = defaultdict(int)
    for it in items:
        out[key(it)] += 1
    return dict(sorted(out.items()))


def _nontrivial(obs):
    return obs['raised'] or any(p['mark'] or p['type'] == 'table' for p in obs['parts'])


def check_renderings(ctx, cases, wd, n_enum):
    """Render every case on the real code, let TLC judge the projections; returns the representer tables seen.
    cases[:n_enum] were enumerated by TLC, the others are seeded random."""
    results, table_ops = observe_all(cases, ops_partners(cases, ctx.pick(14, 8)))
    records, tables = [], {}
    named, off = defaultdict(lambda: [0, 0]), []
    for cid, (case, (obs, tokens, tabs)) in enumerate(zip(cases, results), 1):
        records.append(trace_record(cid, case, obs, tokens))
        axis_tables = sum(1 for p in obs['parts'] if p['type'] == 'table' and p['axis'] in ('bins', 'keys', 'labels'))
        named[case['kind']][0] += axis_tables
        named[case['kind']][1] += obs.get('named', 0)
        if obs.get('marks_off'):
            off.append(cid)                # (reported below, unless a clause is false on the case anyway)
        if _nontrivial(obs):
            ctx.distinct((case['kind'], tuple(case['shape']), tuple(map(tuple, case['fail'])), case['verb'], case['rep'],
                          json.dumps([case.get(k) for k in VARIANT_FIELDS])))
        for k, (jt, tobs) in enumerate(tabs):
            sig = json.dumps([jt, tobs['raised'], tobs['invalid'], tobs['rows']], sort_keys=True)
            tables.setdefault(sig, (case, k, jt, tobs))
        for w in obs.get('warnings', ())[:1]:
            ctx.drift('docutils warning in the rendering of %s/%s/%s: %s' % (case['kind'], case['verb'], case['rep'], w))
    for kind, (ntab, ncol) in sorted(named.items()):
        if ntab and not ncol:
            ctx.drift('no column of the %d per-bin / per-key / per-label tables of kind %s is headed by the name of a dataset / sample / '
                      'label: the header <-> column clauses of Render.tla were not exercised' % (ntab, kind))
    ctx.cov.setdefault('named_columns', {}).update({k: dict(tables=v[0], columns_headed_by_a_name=v[1]) for k, v in sorted(named.items()) if v[0]})
    step = 15000
    chunks = [(lo, records[lo:lo + step]) for lo in range(0, len(records), step)]
    with ThreadPoolExecutor(max(1, min(4, len(chunks)))) as pool:
        judged = list(pool.map(lambda ch: judge(ch[1], wd, 'b%d' % ch[0]), chunks))
    base_bad = {_sig(cases[cid - 1]): clauses for _, (_, bad) in zip(chunks, judged) for cid, clauses in bad.items()
                if not _is_variant(cases[cid - 1])}
    for (lo, _), (res, bad) in zip(chunks, judged):
        ctx.tlc(res, 'RenderTrace/cases[%d:%d]' % (lo, lo + step))
        for cid, clauses in sorted(bad.items()):
            case, (obs, _, _) = cases[cid - 1], results[cid - 1]
            if _is_variant(case) and base_bad.get(_sig(_base_of(case))) == clauses:
                continue                   # the base case fails in the same way: the layout / naming / ... is not the cause
            ctx.violation(render_key(case, clauses, obs),
                          'clauses %s of Render.tla are false on the rendering (%s); projection %s'
                          % (clauses, obs.get('why', ''), json.dumps(obs['parts'])[:600]),
                          dict(type='render', case=case), module=MOD)
    all_bad = set(cid for _, bad in judged for cid in bad)
    for cid in [c for c in off if c not in all_bad][:3]:
        ctx.drift('metadata table of %s: the marked cells of a row are not the cells of the samples that differ from the '
                  'reference sample (%s)' % (json.dumps(cases[cid - 1]), ', '.join(results[cid - 1][0]['marks_off'][:4])))
    ctx.count(evaluations=len(cases), traces=len(cases))
    for k in (0, n_enum // 2, n_enum, len(cases) - 1):
        if 0 <= k < len(cases):
            ctx.sample(dict(source='TLC-enumerated input' if k < n_enum else 'seeded random input', case=cases[k],
                            parts=[dict(p, rows=len(p['rows'])) for p in results[k][0]['parts']]))
    return tables, results, table_ops


def _report_table_ops(ctx, meta, bad, bad_tables=()):
    """Violations of the operation traces of check_representer_tables: meta[cid] for the ids in bad; bad_tables: the
    (json) tables that do not read back even without any operation (reported as such: the shortest failing prefix)."""
    opname = lambda ops: '+'.join(o['op'] for o in ops)
    failing = set((json.dumps(meta[cid][0], sort_keys=True), meta[cid][2], meta[cid][3], opname(meta[cid][6])) for cid in bad)
    for cid, why in sorted(bad.items()):
        case, partner, k, who, j1, j2, ops, tobs = meta[cid]
        if len(ops) > 1 and (json.dumps(case, sort_keys=True), k, who, opname(ops[:-1])) in failing:
            continue                       # blame the shortest failing prefix only
        if json.dumps(j1, sort_keys=True) in bad_tables or (who == 'other' and json.dumps(j2, sort_keys=True) in bad_tables):
            continue                       # (the table / the operand itself does not read back: reported by its plain read-back)
        ctx.violation('C12/table-ops/%s/%s%s/%s%s' % (case['kind'], opname(ops), '' if who == '-' else '-' + who, why, _lay_suffix(case)),
                      'table %d of the rendering, after %s (operand: %s), does not read back as what TableOps.tla computes from the '
                      'formatted inputs (%s %s): table %s, operand %s, read back %s'
                      % (k, ops, who, why, tobs.get('why', ''), json.dumps(j1)[:300], json.dumps(j2)[:200], json.dumps(tobs['rows'])[:300]),
                      dict(type='tableops-of', case=case, partner=partner, table=k, operand=who, ops=ops), module=MOD)
    ometa = list(meta.values())
    ctx.cov['representer_table_ops'] = dict(distinct_operation_traces=len(ometa),
                                            by_operations=_count_by(ometa, lambda m: opname(m[6]) + ('' if m[3] == '-' else '-' + m[3])),
                                            by_kind=_count_by(ometa, lambda m: m[0]['kind']))


def check_representer_tables(ctx, tables, wd, tag, cases=(), table_ops=()):
    """Every distinct TableTemplate a representer produced, as a zero-operation TableOps trace; and (table_ops, see
    representer_table_ops) the tables joined / sliced like a report writer may do: the operations were executed on the
    real TableTemplates, the final table read back from its text, and TLC compares it with what TableOps.tla computes
    from the formatted inputs."""
    recs, meta, ometa, seen = [], {}, {}, set()
    for case, k, jt, tobs in tables.values():
        if jt is None:
            ctx.violation('C12/table-readback/%s/raised%s' % (case['kind'], _lay_suffix(case)), tobs['why'], dict(type='readback', case=case, table=k), module=MOD)
            continue
        recs.append(table_record(len(recs) + 1, jt, _EMPTY, [], tobs))
        meta[len(recs)] = (case, k, jt, tobs)
    for i, partner, k, who, j1, j2, ops, tobs in table_ops:
        sig = json.dumps([j1, j2, ops, tobs['raised'], tobs['invalid'], tobs['rows']], sort_keys=True)
        if sig not in seen:
            seen.add(sig)
            recs.append(table_record(len(recs) + 1, j1, j2, ops, tobs))
            ometa[len(recs)] = (cases[i], partner, k, who, j1, j2, ops, tobs)
    if not recs:
        return
    res, bad = judge_tables(recs, wd, tag)
    ctx.tlc(res, 'TableOpsTrace/' + tag)
    for cid, why in sorted(bad.items()):
        if cid not in meta:
            continue
        case, k, jt, tobs = meta[cid]
        ctx.violation('C12/table-readback/%s/%s%s' % (case['kind'], why, _lay_suffix(case)),
                      'table %d of the rendering does not read back as its formatted inputs (%s): inputs %s, read back %s'
                      % (k, why, json.dumps(jt)[:300], json.dumps(tobs['rows'])[:300]),
                      dict(type='readback', case=case, table=k), module=MOD)
    if ometa:
        bad_tables = set(json.dumps(meta[cid][2], sort_keys=True) for cid in bad if cid in meta)
        _report_table_ops(ctx, ometa, {cid: why for cid, why in bad.items() if cid in ometa}, bad_tables)
    ctx.count(evaluations=len(recs), traces=len(recs))


def random_render_cases(rng, n):
    """Inputs outside the domain TLC enumerates."""
    shapes = [(3,), (5,), (2, 3), (3, 2), (2, 2, 2), (1, 3), (4, 1), (6,), (2,), ()]
    squeezed = [s for s in shapes if 1 not in s]        # the plot representers want squeezed datasets
    out = []
    while len(out) < n:
        kind = rng.choice(KINDS[:-1])
        verb, rep = rng.choice(VERBS), rng.choice(REPS)
        if kind in DS_KINDS:
            shape = rng.choice(squeezed if rep == 'full' else shapes)
            nds = rng.choice([1, 2, 3, 3])
            states = [0, 0, 1] + ([2] if kind in ('student', 'bonferroni', 'holm') else [])
            p = rng.random()
            fail = [[(rng.choice(states) if rng.random() < p else 0) for _ in range(_nbins(shape))] for _ in range(nds)]
            case = dict(kind=kind, shape=list(shape), fail=fail)
        elif kind == 'metadata':
            nk, ns = rng.randint(1, 5), rng.randint(1, 3)
            case = dict(kind=kind, shape=[], fail=[[int(rng.random() < 0.3) for _ in range(ns)] for _ in range(nk)])
        elif kind in ('stats_tasks', 'stats_tests'):
            n_st = 5 if kind == 'stats_tasks' else 3
            counts = [rng.choice([0, 0, 1, 2, 3]) for _ in range(n_st)]
            if not any(counts):
                counts[rng.randrange(n_st)] = 1
            case = dict(kind=kind, shape=[], fail=[counts])
            if rng.random() < 0.5:         # how the items are named / grouped (any combination), after the plain case
                out.append(dict(case, verb=verb, rep=rep))
                case['names'] = rng.choice(NAME_SCHEMES)
                if kind == 'stats_tests':
                    case.update({k: v for k, v in (('fp', rng.choice([None, 'differ'])), ('group', rng.choice([None, 'one-task']))) if v})
        else:
            rows = []
            for _ in range(rng.choice([0, 1, 1, 2, 3, 4, 5])):
                ok, ko = rng.choice([(1, 0), (3, 0), (2, 1), (0, 1), (0, 3), (1, 2)])
                rows.append([ok, ko])
            case = dict(kind=kind, shape=[], fail=rows)
            if rng.random() < 0.5 or not rows:   # selected labels, tests outside every row, naming / grouping (after the plain case)
                out.append(dict(case, verb=verb, rep=rep))
                case.update(by=rng.choice([1, 2]), part=[[rng.choice([0, 0, 1, 2]) for _ in range(2)] for _ in range(2)])
                case.update({k: v for k, v in (('names', rng.choice((None,) + NAME_SCHEMES)), ('group', rng.choice([None, 'one-task']))) if v})
        out.append(dict(case, verb=verb, rep=rep))
    return out


def _state_table(tab):
    """TLC table value -> rows [[(text, hl)]] a reader must find."""
    ncols = len(tab['cols'])
    nrows = len(tab['cols'][0]) if ncols else 0
    return [[(_cell_text(*tab['cols'][c][r], ncols), bool(tab['hls'][c][r])) for c in range(ncols)] for r in range(nrows)]


def _src_masks(tab):
    return [[bool(x) for x in col] for col in tab['hls']]


def _ops_of_state(st):
    from tlaval import MV
    b = lambda x: None if isinstance(x, MV) else int(x)
    return [dict(op=o['op'], a=b(o['a']), b=b(o['b'])) for o in st['ops']]


def replay_table_states(ctx, states):
    """spec -> code: every dumped state of TableOps.tla is re-executed on real TableTemplates."""
    failing, seen = {}, 0
    for st in states:
        ops = _ops_of_state(st)
        case = dict(ncols=len(st['src']['cols']), n1=len(st['src']['cols'][0]), m1=_src_masks(st['src']),
                    n2=len(st['oth']['cols'][0]), m2=_src_masks(st['oth']), ops=ops)
        _, _, obs = run_table_ops(case)
        seen += 1
        exp = sorted(map(tuple, _state_table(st['tab'])))
        got = sorted(tuple((c['s'], c['hl']) for c in row) for row in obs['rows'])
        if obs['raised'] or obs['invalid'] or exp != got:
            failing[json.dumps(case, sort_keys=True)] = (case, obs, exp)
        if ops and (seen % 499 == 0):
            ctx.distinct(('tableops', json.dumps(case, sort_keys=True)))
    for sig, (case, obs, exp) in failing.items():
        parent = dict(case, ops=case['ops'][:-1])
        if case['ops'] and json.dumps(parent, sort_keys=True) in failing:
            continue                       # blame the shortest failing prefix only
        last = case['ops'][-1]['op'] if case['ops'] else 'render'
        why = 'raised' if obs['raised'] else 'invalid-rst' if obs['invalid'] else 'rows'
        ctx.violation('C12/table/%s/%s' % (last, why),
                      'after %s the rendered rows are %s, TableOps.tla computes %s %s'
                      % (case['ops'], [[(c['s'], c['hl']) for c in r] for r in obs['rows']], exp, obs.get('why', '')),
                      dict(type='tableops', case=case), module=MOD)
    ctx.count(evaluations=seen, traces=seen)
    return seen, len(failing)


def random_table_cases(rng, n):
    out = []
    for _ in range(n):
        ncols = rng.randint(2, 4)
        two_d = rng.random() < 0.3
        if two_d:
            sh1 = (rng.randint(1, 3), rng.randint(2, 3))
            sh2 = (sh1[0], rng.randint(1, 3))           # hstack of 2-d arrays: same first axis
            n1, n2 = sh1[0] * sh1[1], sh2[0] * sh2[1]
        else:
            sh1 = sh2 = None
            n1, n2 = rng.randint(1, 8), rng.randint(1, 4)
        p = rng.choice([0.0, 0.2, 0.5])
        mask = lambda m: [[rng.random() < p for _ in range(m)] for _ in range(ncols)]
        ops, rows = [], n1
        for _ in range(rng.randint(1, 4)):
            kind = rng.choice(['join', 'copy'] if two_d else ['slice', 'slice', 'join', 'copy'])
            if kind == 'slice':
                for _try in range(20):
                    a = rng.choice([None] + list(range(-rows - 1, rows + 2)))
                    b = rng.choice([None] + list(range(-rows - 1, rows + 2)))
                    kept = len(range(rows)[slice(a, b)])
                    if kept:
                        break
                else:
                    a, b, kept = None, None, rows
                ops.append(dict(op='slice', a=a, b=b))
                rows = kept
            elif kind == 'join':
                ops.append(dict(op='join', a=None, b=None))
                rows += n2
            else:
                ops.append(dict(op='copy', a=None, b=None))
        case = dict(ncols=ncols, n1=n1, m1=mask(n1), n2=n2, m2=mask(n2), ops=ops)
        if two_d:
            case.update(shape1=list(sh1), shape2=list(sh2))
            lay = (None, 'F', 'T', 'strided')[len(out) % 4]
            if lay:
                case['lay'] = lay
        if len(out) % 2:                   # what the strings of column 1 look like (no random number drawn for it)
            case['text'] = TEXTS[(len(out) // 2) % len(TEXTS)]
        out.append(case)
    return out


def check_random_tables(ctx, cases, wd):
    """code -> spec: random operation sequences; every prefix is a record so that the first failing operation is
    blamed."""
    recs, meta = [], []
    for case in cases:
        for k in range(1, len(case['ops']) + 1):
            sub = dict(case, ops=case['ops'][:k])
            j1, j2, obs = run_table_ops(sub)
            recs.append(table_record(len(recs) + 1, j1, j2, sub['ops'], obs))
            meta.append((sub, obs, k))
        ctx.distinct(('tableops', json.dumps(case, sort_keys=True)))
    res, bad = judge_tables(recs, wd, 'rnd')
    ctx.tlc(res, 'TableOpsTrace/random')
    for cid, why in sorted(bad.items()):
        sub, obs, k = meta[cid - 1]
        if k > 1 and (cid - 1) in bad:
            continue
        ctx.violation('C12/table/%s/%s%s%s' % (sub['ops'][-1]['op'], why, '/2d' if 'shape1' in sub else '', _lay_suffix(sub)),
                      'after %s the rows read back differ from what TableOps.tla computes (%s): %s %s'
                      % (sub['ops'], why, [[(c['s'], c['hl']) for c in r] for r in obs['rows']], obs.get('why', '')),
                      dict(type='tableops', case=sub), module=MOD)
    ctx.count(evaluations=len(recs), traces=len(recs))
    return len(recs), len(bad)


def _enumerate_inputs(ctx, wd, name, consts):
    cfg = tlc.write_cfg(os.path.join(wd, name + '.cfg'), init='Init', next_='NoNext', constants=consts, deadlock=False)
    dump = os.path.join(wd, name)
    res = tlc.run(SPEC, cfg, dump=dump, coverage=False)
    ctx.tlc(res, 'Render/inputs-' + name)
    if not res.ok or res.distinct == 0:
        raise tlc.MachineryError('Render.tla %s: no inputs (%s)' % (name, res.violation))
    cases = [case_of_state(st) for st in tlc.read_dump(dump)]
    os.remove(dump + '.dump')
    return cases


def _tick(ctx, what, t0=[None]):
    import time
    now = time.time()
    if t0[0] is not None:
        ctx.cov.setdefault('phase_wall_s', []).append([what, round(now - t0[0], 1)])
    t0[0] = now


def run_c12(ctx):
    _tick(ctx, 'start')
    ctx.rule('spec->code: TLC enumerates the inputs of Render.tla (kind x failing pattern x shape x verbosity x '
             'representer); each is built as a real result failing exactly in those bins/rows, rendered with '
             'Rst.format_result, parsed back with docutils and judged by TLC (clauses of Render.tla); every dumped '
             'state of TableOps.tla (operation sequences) is re-executed on real TableTemplates and the table read '
             'back from RstTable text is compared with the TLC value.  code->spec: seeded random results / '
             'operation sequences outside those domains validated by RenderTrace.tla / TableOpsTrace.tla; every '
             'TableTemplate a representer produced is validated as a zero-operation trace.  Dataset cases that can '
             'show a table are repeated with the same numbers stored differently (Fortran order, transposed view, '
             'strided slice, integer dtype; per dataset or all alike), in rotation; statistics summaries are repeated '
             'with the same counts and their items named alike within / across the classes, equally named but different '
             'tests, all results in one task, two selected labels, tests carrying only part of the selected labels (by '
             'labels: also no row at all), in rotation; one case in five of every pattern is repeated with its '
             'datasets / samples / keys / tasks / tests / labels named and inserted in an order that is not the alphabetical '
             'one (and not the numeric one), columns headed by such a name are judged cell by cell; one case in fourteen / eight '
             'has the tables of its representer joined (with themselves, with the table of another result) and sliced, '
             'judged by TableOpsTrace.tla; the metadata / statistics / failed-evaluation cases are repeated (one in 2 .. 15 of every '
             'pattern, flavours in rotation) with the strings of their cells -- metadata values and keys, label values, names of '
             'tasks / tests, the message -- carrying leading / trailing / inner blanks, long, with non-ASCII letters, empty, '
             'metadata values differing from the reference by a trailing / leading blank or by case only (key suffix '
             '/text-<flavour>); every other random table-operation case has such strings in its string column.  distinct_nontrivial = '
             'distinct inputs whose rendering carries a mark or a table (or raises) + distinct random operation '
             'sequences (+ 1 in 499 of the enumerated ones).')
    ctx.assume('marks shown for the Student test underlying a Bonferroni / Holm result are attributed to that Student '
               'result (it may fail where the corrected test passes)')
    ctx.assume('valid reStructuredText = docutils 0.18 reports no system message of level ERROR or above; the Sphinx role '
               ':ref: is registered as a plain inline role; the hl role must be declared by the text itself')
    ctx.assume('strings put into tables by the binding (names, labels, metadata values and keys, messages) contain no '
               'reStructuredText markup characters (backquote, asterisk, pipe, backslash, trailing underscore, :role:); blanks, '
               'long / empty strings and non-ASCII letters are generated (text variants); the names in the headers of columns are '
               'plain alphanumerics; a cell reads back as its string without leading / trailing blanks; '
               'statistics over zero tasks / tests are not generated (a summary by labels without any row is); names may '
               'repeat; table operations yielding empty tables are not generated')
    ctx.assume('errors are required in a per-bin row only if the table shows errors at all (the equal / approx-equal '
               'tests ignore them)')
    wd = tlc.workdir('c12')

    # 1. the constructive family of allowed renderings satisfies the clauses (and is not vacuous)
    fam = [('family', r_consts(kinds=[k for k in KINDS if k not in ('bonferroni', 'holm')], shapes=((), (2,)), maxds=ctx.pick(1, 2),
                               verbs=('SILENT', 'DEFAULT'), reps=('table',), mk=2, ms=ctx.pick(1, 2), ml=2, mp=2)),
           ('family-corrected', r_consts(kinds=('bonferroni', 'holm'), shapes=((), (2,)), maxds=2, fs=(0, 1, 2),
                                         verbs=('SILENT', 'DEFAULT'), reps=('table',), mp=1))]
    wconsts = r_consts(shapes=((), (2,)), maxds=1, fs=(0, 1, 2), verbs=('SILENT', 'DEFAULT'), reps=('table',), mk=2, ms=1, ml=2)
    tq = dict(NCols=2, MaxRows=3, MaxRows2=1, MaxB=2, MaxOps=2, **{'None': Raw('None')})
    jobs = [(SPEC, 'Render/' + name, consts, R_INVS, True) for name, consts in fam]
    jobs += [(SPEC, wit, wconsts, [wit], False) for wit in R_WITNESSES]
    jobs += [(TSPEC, wit, tq, [wit], False) for wit in T_WITNESSES]

    def one(job):
        spec, name, consts, invs, cov = job
        cfg = tlc.write_cfg(os.path.join(wd, name.replace('/', '_') + '.cfg'), constants=consts, invariants=invs, deadlock=False)
        return tlc.run(spec, cfg, coverage=cov, workers=4)
    with ThreadPoolExecutor(len(jobs)) as pool:
        results = list(pool.map(one, jobs))
    for (spec, name, consts, invs, cov), res in zip(jobs, results):
        if cov:
            ctx.tlc(res, name)
            if not res.ok:
                raise tlc.MachineryError('Render.tla %s: %s\n%s' % (name, res.violation, res.out[-1500:]))
            tlc.check_coverage(res, ['RenderMain'] + (['RenderNested'] if 'corrected' in name else []), name)
        elif res.violation != ('invariant', name):
            raise tlc.MachineryError('witness %s not reachable in %s' % (name, os.path.basename(spec)))
    _tick(ctx, 'family+witnesses')
    # 2. spec -> code: enumerated inputs rendered by the implementation, judged by TLC
    if ctx.quick:
        domains = [('one-dataset', r_consts(maxds=1, mk=3, ms=2, mc=2, ml=3)),
                   ('two-datasets', r_consts(kinds=DS_KINDS, shapes=((), (2,)), maxds=2)),
                   ('mid', r_consts(kinds=('student', 'bonferroni', 'holm'), shapes=((), (2,)), maxds=1, fs=(0, 1, 2),
                                    verbs=('SUMMARY', 'DEFAULT', 'FULL_DETAILS'), reps=('fulltable', 'full')))]
    else:
        domains = [('full', r_consts(maxds=2, mk=3, ms=2, mc=2, ml=3)),
                   ('mid', r_consts(kinds=('student', 'bonferroni', 'holm'), shapes=((), (4,), (2, 2)), maxds=1, fs=(0, 1, 2))),
                   ('mid-two', r_consts(kinds=('bonferroni', 'holm'), shapes=((), (2,)), maxds=2, fs=(0, 1, 2)))]
    with ThreadPoolExecutor(len(domains)) as pool:
        enumerated = list(pool.map(lambda d: _enumerate_inputs(ctx, wd, d[0], d[1]), domains))
    cases, seen = [], set()
    for lst in enumerated:
        for c in lst:
            sig = json.dumps(c, sort_keys=True)
            if sig not in seen:
                seen.add(sig)
                cases.append(c)
    # failing bins that fail because the compared value is undefined (NaN on one side): same expected rendering
    twins = [dict(c, nan=True) for c in cases
             if c['kind'] in DS_KINDS and c['verb'] != 'SILENT' and len(c['shape']) >= 1
             and any(any(x == 1 for x in r) for r in c['fail'])]
    if ctx.quick:
        twins = [c for c in twins if len(c['fail']) == 1][::2]
    cases += twins
    # the same results with the arrays stored differently (memory layout / dtype), in rotation over the cases
    order = sorted(cases, key=lambda c: json.dumps(c, sort_keys=True))
    lays = layout_variants(order)
    if ctx.quick:
        lays = [c for c in lays if len(c['shape']) >= 2 or len(c['fail']) == 1]
        lays = [c for k, c in enumerate(lays) if len(c['shape']) >= 2 or k % 3 == 0]    # all >= 2-d ones, a third of the others
    else:
        lays = lays[::2]                   # (rotations of 7 / 3 layouts: a stride of 2 keeps every layout)
    cases += lays
    # the statistics summaries with their items named / grouped / labelled differently (same counts), in rotation
    svars = stats_variants(order)
    cases += svars
    # the same results with their datasets / samples / keys / tasks / tests / labels named and inserted in an order
    # that is not the alphabetical one
    ovars = order_variants(order, stride=5)
    cases += ovars
    # the same results with the strings of their cells written differently (blanks, long, non-ASCII, empty ...)
    tvars = text_variants(order, dense=not ctx.quick)
    cases += tvars
    n_enum = len(cases)
    # 3. code -> spec: random results outside the enumerated domain (rendered and judged in the same batches)
    rnd = [c for c in random_render_cases(ctx.rng, ctx.pick(1000, 20000)) if json.dumps(c, sort_keys=True) not in seen]
    rnd_lays = layout_variants(rnd, start=1)
    rnd_svars = stats_variants(rnd, start=1)
    rnd_ovars = order_variants(rnd, stride=2, start=1)
    rnd_tvars = text_variants(rnd, dense=True, start=1)
    cases += rnd + rnd_lays + rnd_svars + rnd_ovars + rnd_tvars
    tables, results, table_ops = check_renderings(ctx, cases, wd, n_enum)
    dispatch = {}
    for case, (obs, _, _) in zip(cases[:n_enum], results):
        verdict = 'fail' if any(any(x == 1 for x in r) for r in case['fail']) and case['kind'] in DS_KINDS else '-'
        form = 'raise' if obs['raised'] else '+'.join(sorted(set(
            ('%s-table' % p['axis'] if p['type'] == 'table' else 'text') + ('*' if p['mark'] else '') for p in obs['parts']))) or 'nothing'
        dispatch.setdefault('%s/%s/%s/%s' % (case['kind'], case['verb'], case['rep'], verdict), set()).add(form)
    ctx.cov['dispatch_observed'] = {k: sorted(v) for k, v in sorted(dispatch.items())}
    ctx.cov['inputs'] = dict(enumerated_by_tlc=n_enum, seeded_random=len(cases) - n_enum,
                             of_which_layout_variants=[len(lays), len(rnd_lays)],
                             of_which_statistics_variants=[len(svars), len(rnd_svars)],
                             of_which_order_variants=[len(ovars), len(rnd_ovars)],
                             of_which_text_variants=[len(tvars), len(rnd_tvars)],
                             text_variants_by_kind_and_flavour=_count_by(tvars + rnd_tvars, lambda c: '%s/%s' % (c['kind'], c['text'])),
                             text_variants_distinct_kind_verbosity_representer_flavour=len(set((c['kind'], c['verb'], c['rep'], c['text']) for c in tvars + rnd_tvars)),
                             order_variants_by_kind_and_order=_count_by(ovars + rnd_ovars, lambda c: '%s/%s' % (c['kind'], c['ord'])),
                             order_variants_distinct_kind_verbosity_representer_order=len(set((c['kind'], c['verb'], c['rep'], c['ord']) for c in ovars + rnd_ovars)),
                             statistics_variants_by_dimension={d: sum(1 for c in cases if c['kind'].startswith('stats') and d in _lay_suffix(c).split('/'))
                                                               for d in ('repeated-names', 'same-name-other-test', 'one-task', 'zero-rows', 'two-labels', 'partial-labels')},
                             layout_variants_by_layout={l: sum(1 for c in lays + rnd_lays if c['lay'] == l)
                                                        for l in sorted(set(LAYS_0D + LAYS_1D + LAYS_ND))})
    _tick(ctx, 'renderings (enumerated + random)')
    check_representer_tables(ctx, tables, wd, 'representer-tables', cases, table_ops)
    _tick(ctx, 'representer tables')

    # 4. table operations: model, replay of every dumped state, witnesses
    tt = dict(NCols=2, MaxRows=4, MaxRows2=2, MaxB=2, MaxOps=2, **{'None': Raw('None')})
    tconsts = ctx.pick(tq, tt)
    cfg = tlc.write_cfg(os.path.join(wd, 'tops.cfg'), constants=tconsts, invariants=T_INVS, deadlock=False)
    dump = os.path.join(wd, 'tops')
    res = tlc.run(TSPEC, cfg, dump=dump)
    ctx.tlc(res, 'TableOps/replayed')
    if not res.ok:
        raise tlc.MachineryError('TableOps.tla: %s\n%s' % (res.violation, res.out[-1500:]))
    tlc.check_coverage(res, ['DoSlice', 'DoJoin', 'DoCopy'], 'TableOps')
    replay_table_states(ctx, tlc.read_dump(dump))
    os.remove(dump + '.dump')
    if not ctx.quick:
        deep = dict(NCols=2, MaxRows=3, MaxRows2=2, MaxB=2, MaxOps=3, **{'None': Raw('None')})
        cfg = tlc.write_cfg(os.path.join(wd, 'tdeep.cfg'), constants=deep, invariants=T_INVS, deadlock=False)
        res = tlc.run(TSPEC, cfg)
        ctx.tlc(res, 'TableOps/three-operations')
        if not res.ok:
            raise tlc.MachineryError('TableOps.tla (3 operations): %s' % (res.violation,))
    _tick(ctx, 'table ops model + replay')
    # 5. random operation sequences (longer, wider, 2-d columns)
    check_random_tables(ctx, random_table_cases(ctx.rng, ctx.pick(300, 6000)), wd)
    _tick(ctx, 'random table ops')
    ctx.cov['exhaustive'] = True
    ctx.cov['explanation'] = ('exhaustive for the TLC configurations listed in tlc_runs (every enumerated input rendered, every '
                              'dumped table state re-executed); random beyond them')
    # behaviour beyond the listed property (DESIGN 10.6): the plot templates
    import conf_plottmpl
    ctx.extra('PlotTmpl', conf_plottmpl.run, tlc.workdir('c12plottmpl'))


def replay_case(rep):
    kind = rep.get('type')
    wd = tlc.workdir('c12r')
    if kind == 'render':
        case = rep['case']
        obs, tokens, _ = observe(case)
        _, bad = judge([trace_record(1, case, obs, tokens)], wd, 'r')
        if 1 in bad:
            return False, 'clauses %s false; %s; parts %s' % (bad[1], obs.get('why', ''), json.dumps(obs['parts'])[:500])
        return True, 'all clauses of Render.tla hold on the rendering'
    if kind == 'readback':
        rendered = render(rep['case'])
        tabs = rendered.get('tables', [])
        if rep['table'] >= len(tabs):
            return True, 'the rendering no longer has table %d' % rep['table']
        t = tabs[rep['table']]
        jt, tobs = template_as_table(t), read_table(t)
        _, bad = judge_tables([table_record(1, jt, _EMPTY, [], tobs)], wd, 'r')
        return (1 not in bad), 'inputs %s read back %s -> %s' % (json.dumps(jt)[:300], json.dumps(tobs['rows'])[:300], bad.get(1, 'ok'))
    if kind == 'tableops-of':
        tables = _templates(rep['case'])
        if rep['table'] >= len(tables):
            return True, 'the rendering no longer has table %d' % rep['table']
        hits = [o for o in representer_table_ops(tables, _templates(rep['partner']) if rep['operand'] == 'other' else [])
                if o[0] == rep['table'] and o[1] == rep['operand'] and o[4] == rep['ops']]
        if not hits:
            return True, 'the operations %s no longer apply to table %d' % (rep['ops'], rep['table'])
        _, _, j1, j2, ops, text, err = hits[0]
        tobs = rows_of_text(text) if text is not None else dict(raised=True, invalid=False, rows=[], why=err)
        _, bad = judge_tables([table_record(1, j1, j2, ops, tobs)], wd, 'r')
        return (1 not in bad), 'table %s after %s with operand %s reads back %s -> %s %s' % (
            json.dumps(j1)[:300], ops, json.dumps(j2)[:200], json.dumps(tobs['rows'])[:300], bad.get(1, 'ok'), tobs.get('why', ''))
    if kind == 'tableops':
        case = rep['case']
        j1, j2, obs = run_table_ops(case)
        _, bad = judge_tables([table_record(1, j1, j2, case['ops'], obs)], wd, 'r')
        return (1 not in bad), 'ops %s read back %s -> %s %s' % (case['ops'], json.dumps(obs['rows'])[:400], bad.get(1, 'ok'), obs.get('why', ''))
    raise ValueError('unknown replay type %r' % kind)
