"""PyTask.tla <-> valjean.cosette.pythontask.PythonTask / valjean.gavroche.eval_test_task.EvalTestTask (extra module).

What a Python task may and may not do to the state it shares with the other tasks (the environment, the objects the
caller passed as arguments, the configuration) and how the result of `do` is formed.  Not one of the listed properties:
a disagreement between the real classes and PyTask.tla is an OBSERVATION (recorded in ctx.cov['pytask'], exit code
unaffected), never a VIOLATION.

spec -> code : every operation sequence TLC enumerates for PyTask (Variant = "doc"; construct / the caller mutates his
               own objects / do with one of 14 function behaviours / apply the returned update / later use of a kept
               environment; 2 tasks, up to MaxOps operations) is replayed on real PythonTask, EvalTestTask, Env and
               Config objects; the projection of the real objects (what can be read through every root, and which roots
               hold the very same object, measured with `is`) is compared with the state TLC computed.
code -> spec : (a) the last step of every replay, (b) seeded random longer sequences over 3 tasks from random initial
               environments, (c) one run of the whole repertoire through the real Scheduler with one worker (what `do`
               returns is what ends up in the environment), all recorded as (state before, operation, state after) and
               judged by TLC through PyTaskTrace.tla, clause by clause.
The two judgements of the replays must agree on the first diverging step of every sequence (MachineryError otherwise).
Negative self-tests: the variants "impl" and "shared" of the model must violate the documented invariants under TLC;
conforming recorded steps with one corrupted field must be rejected by PyTaskTrace with the expected clause.

The real objects live in a fresh process (`--worker`): the host check may have imported valjean.cosette.env under the
controlled threading of detsched, and the scheduler leg needs the real one.
"""
import concurrent.futures
import json
import os
import subprocess
import sys

import tlc

SPEC = os.path.join(tlc.SPECS, 'PyTask.tla')
TRACE = os.path.join(tlc.SPECS, 'PyTaskTrace.tla')
SRC = 't0'
INVS = ['TypeOK', 'ArgsIsolated', 'ArgsAsConstructed', 'KwargsAsConstructed', 'SrcUntouched', 'EnvHandedOver', 'TaskExcFails', 'Published']
PROPS = ['EnvOnlyThroughUpdates']
WITNESSES = ['W_SecondDo', 'W_CallerAfter', 'W_Tamper', 'W_SeenApplied', 'W_KeptUsed', 'W_SharedCells', 'W_WhyRecorded', 'W_EvalStored', 'W_Full']
# (variant, invariant or property that must be violated on it)
NEGATIVE = [('impl', 'ArgsAsConstructed', 'inv'), ('impl', 'KwargsAsConstructed', 'inv'), ('impl', 'SrcUntouched', 'inv'),
            ('impl', 'EnvOnlyThroughUpdates', 'prop'), ('shared', 'ArgsIsolated', 'inv'), ('shared', 'ArgsAsConstructed', 'inv')]
BASIC = ['update', 'taskexc', 'taskexc0', 'otherexc', 'mutarg', 'nontuple']
NEEDENV = ['fwd', 'assign', 'delete', 'assign2', 'delete2', 'nested', 'keep']
HOWS = ['read', 'assign', 'nested']
# which sentence of the documentation a clause of PyTaskTrace.Clauses stands for
CLAUSE_DOC = {
    'args-isolated-from-caller': "[D1] args / kwargs are copied when the task is constructed: what the caller does to his objects afterwards does not reach the task",
    'caller-objects-untouched': "[D1] the task works on copies: nothing the task or its function does reaches the objects of the caller",
    'args-as-constructed': "[D1] the arguments a task holds are the ones given at construction (the documentation says they are copied; it is silent about a function that modifies its own argument)",
    'same-args-every-do': "[D1] every do() hands the function the arguments given at construction",
    'kwargs-as-constructed': "[D1] ':param dict kwargs: A dictionary of keyword arguments to func' -- env / config are 'passed to the wrapped function as a keyword argument', they are not arguments of the task: do() leaves task.kwargs as constructed",
    'env-only-through-updates': "[D2] do(): 'wrap the environment in MappingProxyType, so that self.func cannot modify it'; docstring: the function may 'query the task environment and retrieve any additional information from there' and has 'to return an environment update'",
    'env-handed-over': "[D2][D5] the environment / the config given to do() are what the function receives as env_kwarg / config_kwarg",
    'taskexception-failed-why': "[D3] TaskException(reason) 'causes the task to fail': ({name: {'why': reason}}, FAILED)",
    'do-returns-function-result': "[D4] 'do simply returns the result of the wrapped function'; other exceptions 'are not caught by the task'",
    'evaltests-results': "[D6] EvalTestTask 'evaluates a list of tests and stores the resulting TestResult objects in the environment'",
    'apply-publishes-update': "[D7] the worker applies the returned update (Env.apply) and sets the status",
    'sharing': "which roots hold the very same object (environment cells, returned update, the caller's objects)",
    'bookkeeping': "harness bookkeeping (task made / mode, kept set, operation label)",
}


def blank(**kw):
    d = dict(op='', t='', x='', argseen=[], kwseen=[], hasenv=False, envseen={}, cfgseen='')
    d.update(kw)
    return d


# ---------------------------------------------------------------------------------------------
# worker side: the real objects

class _Impl:
    """Everything that touches valjean (worker process only)."""

    def __init__(self, scratch):
        import core
        core.use_repo()
        from valjean.cosette.pythontask import PythonTask, TaskException
        from valjean.cosette.task import TaskStatus
        from valjean.cosette.env import Env
        from valjean.config import Config
        from valjean.gavroche.eval_test_task import EvalTestTask
        from valjean.gavroche.test import Test, TestResult, TestResultFailed
        self.PythonTask, self.TaskException, self.TaskStatus, self.Env, self.EvalTestTask = PythonTask, TaskException, TaskStatus, Env, EvalTestTask
        self.TestResultFailed = TestResultFailed
        self.out_root = os.path.join(scratch, 'output')
        self.Config = lambda: Config({'path': {'output-root': self.out_root}})

        class Res(TestResult):
            def __init__(self, test, ok):
                super().__init__(test)
                self.ok = ok

            def __bool__(self):
                return self.ok

        class Tok(Test):
            """An element of a list: a token that is also a test (so that any list can be handed to EvalTestTask)."""
            def __init__(self, name):
                super().__init__(name=name)

            def evaluate(self):
                if self.name.startswith('e'):
                    raise ValueError('test %s raises' % self.name)
                return Res(self, not self.name.startswith('b'))
        self.Tok, self.Res = Tok, Res

    def tokname(self, x):
        if isinstance(x, self.Tok):
            return x.name
        if isinstance(x, self.TestResultFailed):
            return 'E:' + getattr(x.test, 'name', '?')
        if isinstance(x, self.Res):
            return ('T:' if x else 'F:') + getattr(x.test, 'name', '?')
        if isinstance(x, str):
            return x
        return '#' + type(x).__name__

    def names(self, lst):
        if not isinstance(lst, list):
            return ['#' + type(lst).__name__]
        return [self.tokname(x) for x in lst]


class NotEnabled(Exception):
    """The model can take this operation, the real objects cannot (the replay diverged earlier)."""


def env_dict(env):
    """The mapping behind an Env, whatever the attribute is called (the few lines of schedrun.env_dict: this process must
    not import detsched).  When it cannot be told, the Env itself: it is a mapping, read through its public interface."""
    d = getattr(env, 'dictionary', None)
    if isinstance(d, dict):
        return d
    cands = [v for v in vars(env).values() if isinstance(v, dict)]
    return cands[0] if len(cands) == 1 else env


def held(task, name):
    """What a PythonTask holds as `args` / `kwargs`: the documented attribute, its private spellings, else the one attribute
    of that type (a task has a name, two sets of dependencies, a function, two keyword names, one tuple and one dict)."""
    for attr in (name, '_' + name, '_PythonTask__' + name):
        if hasattr(task, attr):
            return getattr(task, attr)
    cands = [v for v in vars(task).values() if isinstance(v, dict(args=tuple, kwargs=dict)[name])]
    if len(cands) == 1:
        return cands[0]
    raise AttributeError('what a PythonTask holds cannot be observed: its %s are neither .%s nor ._%s nor the one %s among %s'
                         % (name, name, name, 'tuple' if name == 'args' else 'dict', sorted(vars(task))))


class World:
    """The real objects of one operation sequence, and the harness-side bookkeeping PyTask.tla has variables for."""

    def __init__(self, impl, tasks, src_result=('x', 'e'), src_extra=None, orig=None, sched=False):
        self.I = impl
        T = impl.Tok
        self.config = impl.Config()
        entry = {'result': [T(n) for n in src_result] if isinstance(src_result, (list, tuple)) else src_result,
                 'status': impl.TaskStatus.DONE}
        entry.update(src_extra or {})
        self.env = impl.Env({SRC: entry})
        self.orig = {t: {'a': [T(n) for n in (orig or {}).get(t, (['a'], ['k']))[0]],
                         'k': [T(n) for n in (orig or {}).get(t, (['a'], ['k']))[1]]} for t in tasks}
        self.task, self.meta, self.plan, self.rec, self.keptenv = {}, {}, {}, {}, {}
        self.pend = dict(kind='none', t='', status='')
        self.pend_obj = None
        self.last = blank()
        self.sched = sched

    # -- reading the environment the way a function does (through whatever mapping it was handed)
    def leaf(self, v, t=None):
        TS = self.I.TaskStatus
        if isinstance(v, TS):
            return v.name
        if isinstance(v, str):
            if t is not None and v == os.path.join(self.I.out_root, t):
                return 'outdir' if os.path.isdir(v) else 'outdir-missing'
            return v
        return '#' + type(v).__name__

    def _entries(self, mapping):
        final = ('DONE', 'FAILED', 'SKIPPED')
        out = []
        for T in list(mapping):
            entry = mapping[T]
            if not hasattr(entry, 'items'):
                out.append((T, {'#entry': '#' + type(entry).__name__}))
                continue
            items = {K: v for K, v in list(entry.items()) if K not in ('start_clock', 'end_clock')}
            if self.sched and self.leaf(items.get('status')) not in final:
                continue            # scheduler leg: tasks that are waiting / running are not part of the picture
            out.append((T, items))
        return sorted(out, key=lambda p: p[0])

    def view(self, mapping):
        def _view(_env=None):
            return {T: {K: (dict(t='list', v='', c=self.I.names(v)) if isinstance(v, list) else dict(t='leaf', v=self.leaf(v, T), c=[]))
                        for K, v in items.items()} for T, items in self._entries(mapping)}
        return self.env.atomically(_view)

    # -- the operations
    def construct(self, t, mode):
        I = self.I
        self.plan[t] = None
        self.rec[t] = {}
        if mode == 'eval':
            task = I.EvalTestTask(t, SRC)
        else:
            kw = dict(args=(self.orig[t]['a'],), kwargs={'k': self.orig[t]['k']})
            if mode in ('env', 'envcfg'):
                kw['env_kwarg'] = 'env'
            if mode == 'envcfg':
                kw['config_kwarg'] = 'config'
            task = I.PythonTask(t, self._func(t), **kw)
        self.task[t] = task
        self.meta[t] = dict(mode=mode, a0=I.names(self.orig[t]['a']), k0=I.names(self.orig[t]['k']))
        self.last = blank(op='construct', t=t, x=mode)

    def _func(self, t):
        w, I = self, self.I
        DONE = I.TaskStatus.DONE

        def attempt(action):
            try:
                action()
            except Exception:  # pylint: disable=broad-except
                pass

        def func(*args, **kwargs):
            rec = w.rec[t]
            rec.clear()
            env = kwargs.get('env')
            rec['argseen'] = I.names(args[0]) if len(args) == 1 else ['#args=%d' % len(args)]
            rec['kwseen'] = I.names(kwargs['k']) if 'k' in kwargs else ['#missing']
            rec['hasenv'] = 'env' in kwargs
            rec['envseen'] = w.view(env) if 'env' in kwargs else {}
            rec['cfgseen'] = 'none' if 'config' not in kwargs else ('same' if kwargs['config'] is w.config else 'other')
            b = w.plan[t]
            if b == 'update':
                return {t: {'result': [I.Tok('u')]}}, DONE
            if b == 'fwd':
                return {t: {'result': env[SRC]['result']}}, DONE
            if b == 'taskexc':
                raise I.TaskException('boom')
            if b == 'taskexc0':
                raise I.TaskException()
            if b == 'otherexc':
                raise ValueError('some other exception')
            if b == 'mutarg':
                args[0].append(I.Tok('f'))
                return {t: {'result': 'm'}}, DONE
            if b == 'nontuple':
                return 42
            if b == 'assign':
                attempt(lambda: env.__setitem__(SRC, {'result': 'z'}))
            elif b == 'delete':
                attempt(lambda: env.__delitem__(SRC))
            elif b == 'assign2':
                attempt(lambda: env[SRC].__setitem__('new', 'z'))
            elif b == 'delete2':
                attempt(lambda: env[SRC].__delitem__('result'))
            elif b == 'nested':
                attempt(lambda: env[SRC]['result'].append(I.Tok('n')))
            elif b == 'keep':
                w.keptenv[t] = env
            return {}, DONE
        return func

    def do(self, t, beh, call=None):
        """task.do(env, config); returns ('ok', result) or ('exc', exception) for the scheduler wrapper."""
        I = self.I
        task = self.task[t]
        self.plan[t] = beh
        rec = self.rec[t]
        rec.clear()
        mode = self.meta[t]['mode']
        before = self.view(self.env) if mode == 'eval' else None
        self.pend_obj = None
        try:
            res = call() if call is not None else task.do(self.env, self.config)
        except Exception as ex:  # pylint: disable=broad-except
            out = ('exc', ex)
            self.pend = dict(kind='raised:' + type(ex).__name__, t=t, status='')
        else:
            out = ('ok', res)
            if isinstance(res, tuple) and len(res) == 2 and isinstance(res[0], dict) and isinstance(res[1], I.TaskStatus):
                self.pend = dict(kind='pair', t=t, status=res[1].name)
                self.pend_obj = res
            else:
                self.pend = dict(kind='value', t=t, status='')
        if mode == 'eval':
            self.last = blank(op='do', t=t, x=beh, hasenv=True, envseen=before, cfgseen='na')
        else:
            self.last = blank(op='do', t=t, x=beh, argseen=rec.get('argseen', ['#not-called']), kwseen=rec.get('kwseen', ['#not-called']),
                              hasenv=rec.get('hasenv', False), envseen=rec.get('envseen', {}), cfgseen=rec.get('cfgseen', '#not-called'))
        return out

    def apply(self):
        """What the worker does with the pair returned by do()."""
        if self.pend_obj is None:
            raise NotEnabled('apply: the last do() did not return a pair')
        upd, status = self.pend_obj
        t = self.pend['t']
        self.env.apply(upd)
        self.env.set_status(self.task[t], status)
        self.published(t)

    def published(self, t):
        self.pend = dict(kind='none', t='', status='')
        self.pend_obj = None
        self.last = blank(op='apply', t=t)

    def caller(self, t, which):
        self.orig[t][which].append(self.I.Tok('c'))
        self.last = blank(op='caller', t=t, x=which)

    def use(self, t, how):
        if t not in self.keptenv:
            raise NotEnabled('use: no kept environment')
        kept = self.keptenv[t]
        self.last = blank(op='use', t=t, x=how)
        try:
            if how == 'read':
                self.last.update(hasenv=True, envseen=self.view(kept))
            elif how == 'assign':
                kept[SRC] = {'result': 'z'}
            else:
                kept[SRC]['result'].append(self.I.Tok('n'))
        except Exception:  # pylint: disable=broad-except
            pass

    def run(self, op):
        o, t, x = op['op'], op['t'], op['x']
        if o == 'construct':
            self.construct(t, x)
        elif o == 'caller':
            self.caller(t, x)
        elif o == 'do':
            self.do(t, x)
        elif o == 'apply':
            self.apply()
        else:
            self.use(t, x)

    # -- the state of the real objects in the vocabulary of PyTask.tla
    def observe(self):
        return self.env.atomically(self._observe)

    def _observe(self, _env=None):
        I = self.I
        addr, heap = {}, []
        keep = []

        def a(obj):
            i = addr.get(id(obj))
            if i is None:
                heap.append(I.names(obj))
                keep.append(obj)
                i = addr[id(obj)] = len(heap)
            return i

        def val(v, T):
            return dict(t='ref', v='', a=a(v)) if isinstance(v, list) else dict(t='leaf', v=self.leaf(v, T), a=0)
        orig = {t: dict(a=a(o['a']), k=a(o['k'])) for t, o in sorted(self.orig.items())}
        task = {}
        for t in sorted(self.orig):
            m = self.meta.get(t)
            if m is None:
                task[t] = dict(made=False, mode='', a=0, k=0, a0=[], k0=[], kw=[])
                continue
            tk_args, tk_kwargs = held(self.task[t], 'args'), held(self.task[t], 'kwargs')
            kw = sorted(str(k) for k in tk_kwargs)
            if m['mode'] == 'eval':
                task[t] = dict(made=True, mode='eval', a=0, k=0, a0=[], k0=[], kw=kw)
            else:
                arg = tk_args[0] if len(tk_args) == 1 else ['#args=%d' % len(tk_args)]
                task[t] = dict(made=True, mode=m['mode'], a=a(arg), k=a(tk_kwargs.get('k', ['#missing'])), a0=m['a0'], k0=m['k0'], kw=kw)
        env = {T: {K: val(v, T) for K, v in items.items()} for T, items in self._entries(env_dict(self.env))}
        upd = {}
        if self.pend_obj is not None:
            upd = {T: {K: val(v, T) for K, v in ent.items()} for T, ent in self.pend_obj[0].items()}
        pend = dict(self.pend, upd=upd)
        return dict(heap=heap, env=env, orig=orig, task=task, pend=pend, kept=sorted(self.keptenv), last=dict(self.last))


def _replay_enumerated(impl, job):
    """spec -> code: one fresh World per history; the state after the last operation is recorded; the state before it
    is the recorded state of the parent history (replays are deterministic, numbering by identity included)."""
    tasks = job['tasks']
    states = [World(impl, tasks).observe()]
    index = {(): 0}
    cases = []
    stuck = []
    for hid, hist in enumerate(job['histories'], 1):
        key = tuple((o['op'], o['t'], o['x']) for o in hist)
        if key[:-1] not in index:
            stuck.append(hid)
            continue
        w = World(impl, tasks)
        try:
            for op in hist:
                w.run(op)
        except NotEnabled:
            stuck.append(hid)           # the real objects left the model at an earlier step (reported there)
            continue
        states.append(w.observe())
        index[key] = len(states) - 1
        cases.append(dict(id=hid, pre=index[key[:-1]] + 1, post=len(states), op=hist[-1]))
    return dict(states=states, cases=cases, stuck=stuck)


def _random_sequences(impl, job):
    """code -> spec: seeded random longer sequences, every step recorded."""
    import random
    rng = random.Random(job['seed'])
    tasks = ['t1', 't2', 't3']
    toks = ['x', 'y', 'e', 'b']
    states, cases, seqs = [], [], []
    for sid in range(job['random']):
        r = rng.random()
        src_result = 'leafresult' if r < 0.08 else [rng.choice(toks) for _ in range(rng.randint(0, 3))]
        extra = {'aux': [impl.Tok('y')]} if rng.random() < 0.3 else None
        orig = {t: ([rng.choice('apq') for _ in range(rng.randint(0, 2))], [rng.choice('kr') for _ in range(rng.randint(0, 2))]) for t in tasks}
        w = World(impl, tasks, src_result=src_result, src_extra=extra, orig=orig)
        states.append(w.observe())
        ops = []
        for _ in range(rng.randint(5, 14)):
            made = [t for t in tasks if t in w.meta]
            choices = [('caller', 2)]
            if len(made) < len(tasks) or rng.random() < 0.1:
                choices.append(('construct', 3 if not made else 1.5))
            if made:
                choices.append(('do', 6))
            if w.pend_obj is not None:
                choices.append(('apply', 4))
            if w.keptenv:
                choices.append(('use', 2))
            kind = rng.choices([c[0] for c in choices], [c[1] for c in choices])[0]
            if kind == 'construct':
                cand = [t for t in tasks if t not in w.meta] or tasks
                op = dict(op='construct', t=rng.choice(cand), x=rng.choice(['plain', 'env', 'envcfg', 'envcfg', 'eval']))
            elif kind == 'caller':
                op = dict(op='caller', t=rng.choice(tasks), x=rng.choice('ak'))
            elif kind == 'do':
                t = rng.choice(made)
                mode = w.meta[t]['mode']
                behs = ['evaltests'] if mode == 'eval' else BASIC if mode == 'plain' else BASIC + NEEDENV
                op = dict(op='do', t=t, x=rng.choice(behs))
            elif kind == 'apply':
                op = dict(op='apply', t=w.pend['t'], x='')
            else:
                op = dict(op='use', t=rng.choice(sorted(w.keptenv)), x=rng.choice(HOWS))
            w.run(op)
            ops.append(op)
            states.append(w.observe())
            cases.append(dict(id=len(cases) + 1, pre=len(states) - 1, post=len(states), op=op, seq=sid, step=len(ops)))
        seqs.append(dict(src_result=src_result, extra=bool(extra), orig=orig, ops=ops))
    return dict(states=states, cases=cases, seqs=seqs)


def _scheduler_leg(impl):
    """The repertoire through the real Scheduler (QueueScheduling, one worker): one task per behaviour, chained by soft
    dependencies.  do() of every task is wrapped on the instance to record the state around it; the state at the start
    of the next do() (or at the end of the run) is the state after the worker published the result."""
    from valjean.cosette.depgraph import DepGraph
    from valjean.cosette.scheduler import Scheduler
    from valjean.cosette.backends.queue import QueueScheduling
    plan = ([('plain', 'update'), ('envcfg', 'update'), ('env', 'fwd'), ('eval', 'evaltests')]
            + [('envcfg', b) for b in ['taskexc', 'taskexc0', 'otherexc', 'mutarg', 'nontuple', 'keep', 'assign', 'delete', 'nested', 'assign2', 'delete2']]
            + [('envcfg', 'fwd'), ('eval', 'evaltests'), ('envcfg', 'update')])       # after the tampering: what a later task finds
    names = ['s%02d_%s' % (i, b) for i, (_m, b) in enumerate(plan)]
    w = World(impl, names, sched=True)
    states, cases = [w.observe()], []

    def snap(op):
        states.append(w.observe())
        cases.append(dict(id=len(cases) + 1, pre=len(states) - 1, post=len(states), op=op))
    for name, (mode, _b) in zip(names, plan):
        op = dict(op='construct', t=name, x=mode)
        w.run(op)
        snap(op)
    skipped = []
    state = dict(prev=None)

    def publish_seen():
        """The previous task has been published by the worker by now."""
        prev = state['prev']
        if prev is None:
            return
        if w.pend['kind'] == 'pair':
            w.published(prev)
            snap(dict(op='apply', t=prev, x=''))
        else:
            # raised / not a pair: what the worker does with it is the business of the listed property C02, not judged here
            skipped.append(prev)
            w.published(prev)
            states.append(w.observe())
        state['prev'] = None

    def wrap(name, beh):
        task = w.task[name]
        real_do = task.do

        def do(env, config):
            publish_seen()
            if env is not w.env or config is not w.config:
                raise RuntimeError('scheduler handed another env / config to do()')
            # the state recorded last is the state before this do()
            kind, val = w.do(name, beh, call=lambda: real_do(env, config))
            snap(dict(op='do', t=name, x=beh))
            state['prev'] = name
            if kind == 'exc':
                raise val
            return val
        task.do = do
    for name, (_m, beh) in zip(names, plan):
        wrap(name, beh)
    hard = DepGraph.from_dependency_dictionary({w.task[n]: [] for n in names})
    soft = DepGraph.from_dependency_dictionary({w.task[b]: [w.task[a]] for a, b in zip(names, names[1:])})
    final = Scheduler(hard_graph=hard, soft_graph=soft, backend=QueueScheduling(n_workers=1)).schedule(env=w.env, config=w.config)
    if final is not w.env:
        raise RuntimeError('schedule() returned another environment')
    publish_seen()
    statuses = {n: w.leaf(env_dict(w.env).get(n, {}).get('status')) for n in names}
    import copy
    try:        # a consequence of what do() leaves in task.kwargs, recorded for the report
        copy.deepcopy(w.task[names[1]])
        copyable = ''
    except Exception as ex:  # pylint: disable=broad-except
        copyable = '%s: %s' % (type(ex).__name__, ex)
    return dict(states=states, cases=cases, skipped=skipped, statuses=statuses, deepcopy_of_task_after_do=copyable, order=[c['op']['t'] for c in cases if c['op']['op'] == 'do'])


def _worker(inp, outp):
    with open(inp) as f:
        job = json.load(f)
    impl = _Impl(job['scratch'])
    res = {}
    for name, data in (('enum', _replay_enumerated(impl, job)), ('random', _random_sequences(impl, job)), ('sched', _scheduler_leg(impl))):
        path = os.path.join(job['scratch'], 'cases_%s.json' % name)
        with open(path, 'w') as f:
            json.dump(data, f)
        res[name] = path
    with open(outp, 'w') as f:
        json.dump(res, f)


def impl_runs(wd, job):
    inp, outp = os.path.join(wd, 'pytask.in.json'), os.path.join(wd, 'pytask.out.json')
    scratch = os.path.join(wd, 'pytask.scratch')
    os.makedirs(scratch, exist_ok=True)
    with open(inp, 'w') as f:
        json.dump(dict(job, scratch=scratch), f)
    try:
        p = subprocess.run([sys.executable, os.path.abspath(__file__), '--worker', inp, outp], capture_output=True, text=True,
                           timeout=1500, env=dict(os.environ, PYTHONHASHSEED='0'))
    except subprocess.TimeoutExpired as ex:
        raise tlc.MachineryError('conf_pytask worker timed out') from ex
    if p.returncode != 0 or not os.path.exists(outp):
        why = ([l for l in p.stderr.strip().splitlines() if l.strip()] or ['no output'])[-1].strip()      # the exception line of the traceback
        raise tlc.MachineryError('conf_pytask worker failed (rc=%s): %s\n%s' % (p.returncode, why[:250], (p.stdout + p.stderr)[-3000:]))
    with open(outp) as f:
        paths = json.load(f)
    out = {}
    for name, path in paths.items():
        with open(path) as f:
            out[name] = json.load(f)
    return out, paths


# ---------------------------------------------------------------------------------------------
# parent side

def _plain(x):
    if isinstance(x, dict):
        return {str(k): _plain(v) for k, v in x.items()}
    if isinstance(x, (tuple, list)):
        return [_plain(v) for v in x]
    if isinstance(x, (set, frozenset)):
        return sorted(_plain(v) for v in x)
    if isinstance(x, (bool, int)):
        return x
    return str(x)


def _d(x):
    """TLC prints the empty function as <<>>."""
    return x if isinstance(x, dict) else {}


def project(s):
    """Address-free picture of a state (a recorded one or one computed by TLC): what can be read through every root and
    which roots are the same object.  The same information PyTaskTrace.Clauses compares."""
    heap = s['heap']
    roots = {}
    for t, o in _d(s['orig']).items():
        roots['orig', t, 'a'], roots['orig', t, 'k'] = o['a'], o['k']
    for t, r in _d(s['task']).items():
        if r['made'] and r['mode'] != 'eval':
            roots['arg', t, 'a'], roots['arg', t, 'k'] = r['a'], r['k']
    env, upd = _d(s['env']), _d(s['pend']['upd'])
    for kind, m in (('env', env), ('pend', upd)):
        for T, ent in m.items():
            for K, v in _d(ent).items():
                if v['t'] == 'ref':
                    roots[kind, T, K] = v['a']
    groups = {}
    for r, a in roots.items():
        groups.setdefault(a, []).append(r)

    def vw(m):
        return {T: {K: (('list', tuple(heap[v['a'] - 1])) if v['t'] == 'ref' else ('leaf', v['v'])) for K, v in _d(ent).items()} for T, ent in m.items()}
    last = s['last']
    return dict(content={r: tuple(heap[a - 1]) for r, a in roots.items()},
                same=sorted(tuple(sorted(g)) for g in groups.values() if len(g) > 1),
                env=vw(env), pend=(s['pend']['kind'], s['pend']['t'], s['pend']['status'], vw(upd)),
                task={t: (r['made'], r['mode'], tuple(r['a0']), tuple(r['k0']), tuple(sorted(r['kw']))) for t, r in _d(s['task']).items()},
                kept=sorted(s['kept']),
                last=(last['op'], last['t'], last['x'], tuple(last['argseen']), tuple(last['kwseen']), last['hasenv'],
                      {T: {K: (v['t'], v['v'], tuple(v['c'])) for K, v in _d(ent).items()} for T, ent in _d(last['envseen']).items()}, last['cfgseen']))


def diff_fields(p, q):
    return [k for k in p if p[k] != q[k]]


def _tlc_small(wd, name, consts, invs=(), props=()):
    cfg = tlc.write_cfg(os.path.join(wd, name + '.cfg'), constants=consts, invariants=list(invs), properties=list(props), deadlock=False)
    return tlc.run(SPEC, cfg, workers=2, coverage=False, metadir=os.path.join(wd, 'meta_' + name), timeout=900)


def judge(ctx, wd, path, tag, variant='doc'):
    oj = os.path.join(wd, 'pytask_%s_out.json' % tag)
    cfg = tlc.write_cfg(os.path.join(wd, 'pytask_%s.cfg' % tag), spec='TSpec', constants={'Tasks': frozenset({'t1'}), 'MaxOps': 0, 'Variant': variant},
                        deadlock=False, postcondition='Post')
    res = tlc.run(TRACE, cfg, workers=1, coverage=False, env=dict(VERIF_CASES=path, VERIF_OUT=oj), timeout=1500,
                  metadir=os.path.join(wd, 'meta_judge_' + tag))
    if not res.ok or not os.path.exists(oj):
        raise tlc.MachineryError('PyTaskTrace %s: %s\n%s' % (tag, res.violation, res.out[-2500:]))
    with open(oj) as f:
        out = json.load(f)
    return res, out


def _chunks(wd, name, data, size=4000):
    """Split the cases of one leg into files of at most `size` cases, each with the states it needs (re-indexed)."""
    out = []
    cases = data['cases']
    for k in range(0, len(cases), size):
        part = cases[k:k + size]
        remap, states = {}, []
        for c in part:
            for f in ('pre', 'post'):
                if c[f] not in remap:
                    states.append(data['states'][c[f] - 1])
                    remap[c[f]] = len(states)
        path = tlc.json_dump(os.path.join(wd, 'cases_%s_%d.json' % (name, k // size)),
                             dict(states=states, cases=[dict(id=c['id'], pre=remap[c['pre']], post=remap[c['post']], op=c['op']) for c in part]))
        out.append((path, len(part)))
    return out


def _opstr(op):
    return '%s(%s%s)' % (op['op'], op['t'], (',' + op['x']) if op['x'] else '')


def _what(clause, pre, post, t):
    """Human-readable core of a disagreement: the parts of the picture that changed across the step."""
    p, q = project(pre), project(post)
    parts = []
    for T in sorted(set(p['env']) | set(q['env'])):
        if p['env'].get(T) != q['env'].get(T):
            parts.append('env[%r] %s -> %s' % (T, _show(p['env'].get(T)), _show(q['env'].get(T))))
    if clause in ('args-isolated-from-caller', 'caller-objects-untouched', 'args-as-constructed', 'same-args-every-do', 'sharing'):
        held = lambda pr: {'%s.%s' % (r[0], r[2]): list(c) for r, c in pr['content'].items() if r[0] in ('arg', 'orig') and r[1] == t}
        parts.append('objects of %s (orig = the caller\'s, arg = held by the task; a = args[0], k = kwargs[\'k\']) %s -> %s, constructed with a=%s k=%s, function saw a=%s k=%s, same object: %s'
                     % (t, held(p), held(q), list(q['task'][t][2]), list(q['task'][t][3]), list(q['last'][3]), list(q['last'][4]), q['same']))
    if clause == 'kwargs-as-constructed':
        parts.append('keys of %s.kwargs %s -> %s' % (t, list(p['task'][t][4]), list(q['task'][t][4])))
    if clause in ('taskexception-failed-why', 'do-returns-function-result', 'evaltests-results', 'apply-publishes-update'):
        parts.append('do() returned %s' % (q['pend'],))
    if clause == 'env-handed-over':
        parts.append('function saw env=%s config=%s' % (q['last'][6], q['last'][7]))
    return '; '.join(parts)[:900]


def _show(entry):
    if entry is None:
        return 'absent'
    return '{%s}' % ', '.join('%s: %s' % (K, list(v[1]) if v[0] == 'list' else repr(v[1])) for K, v in sorted(entry.items()))


def run(ctx, wd):
    observations = {}
    tasks = ['t1', 't2']
    maxops = ctx.pick(3, 4)
    consts = {'Tasks': frozenset(tasks), 'MaxOps': maxops, 'Variant': 'doc'}

    # ---- the model: documented invariants over every sequence; witnesses and negative variants run beside it
    small = dict(consts, MaxOps=4)
    side = concurrent.futures.ThreadPoolExecutor(max_workers=4)
    side_futs = {w: side.submit(_tlc_small, wd, w, small, [w]) for w in WITNESSES}
    for variant, name, kind in NEGATIVE:
        side_futs[variant, name] = side.submit(_tlc_small, wd, 'neg_%s_%s' % (variant, name), dict(small, MaxOps=3, Variant=variant),
                                          [name] if kind == 'inv' else [], [name] if kind == 'prop' else [])
    side.shutdown(wait=False)

    def check_side():
        done = {k: f.result() for k, f in side_futs.items()}
        for w in WITNESSES:
            ctx.tlc(done[w], 'PyTask/' + w)
            if done[w].violation != ('invariant', w):
                raise tlc.MachineryError('witness %s not reachable in PyTask.tla: %s' % (w, done[w].violation))
        for variant, name, kind in NEGATIVE:
            r = done[variant, name]
            ctx.tlc(r, 'PyTask/negative-%s-%s' % (variant, name))
            want = ('invariant', name) if kind == 'inv' else ('property', name)
            if r.violation != want:
                raise tlc.MachineryError('negative self-test: variant %r of PyTask.tla is not rejected by %s (%s)' % (variant, name, r.violation))
    cfg = tlc.write_cfg(os.path.join(wd, 'pytask.cfg'), constants=consts, invariants=INVS, properties=PROPS, deadlock=False)
    dump = os.path.join(wd, 'pytask')
    res = tlc.run(SPEC, cfg, dump=dump, timeout=1500)
    ctx.tlc(res, 'PyTask/sequences')
    if not res.ok:
        raise tlc.MachineryError('PyTask.tla (documented behaviour) does not satisfy its own invariants: %s\n%s' % (res.violation, res.out[-2000:]))
    tlc.check_coverage(res, ['Construct', 'Caller', 'Do', 'Apply', 'Use'], 'PyTask')

    # ---- spec -> code
    tstates = {}
    for st in tlc.read_dump(dump):
        p = _plain(st)
        hist = p.pop('hist')
        tstates[tuple((h['op'], h['t'], h['x']) for h in hist)] = p
    os.remove(dump + '.dump')
    keys = sorted((k for k in tstates if k), key=lambda k: (len(k), k))
    if len(tstates) != res.distinct or () not in tstates:
        raise tlc.MachineryError('PyTask dump: %d states parsed, TLC reports %d' % (len(tstates), res.distinct))
    histories = [[dict(op=o, t=t, x=x) for o, t, x in k] for k in keys]
    out, paths = impl_runs(wd, dict(tasks=tasks, histories=histories, seed=ctx.seed, random=ctx.pick(120, 1500)))
    enum = out['enum']
    if project(enum['states'][0]) != project(tstates[()]):
        raise tlc.MachineryError('the initial world of the harness is not the initial state of PyTask.tla: %s' % diff_fields(project(enum['states'][0]), project(tstates[()])))
    mismatch = {(): []}
    case_of = {c['id']: c for c in enum['cases']}
    for hid, k in enumerate(keys, 1):
        if hid in case_of:
            mismatch[k] = diff_fields(project(tstates[k]), project(enum['states'][case_of[hid]['post'] - 1]))
        elif mismatch[k[:-1]]:
            mismatch[k] = ['not-replayable']        # an operation of the model is not possible on the real objects any more
        else:
            raise tlc.MachineryError('replay of %s stops although the real objects agree with the model up to the last step' % (k,))
    if sorted(set(range(1, len(keys) + 1)) - set(case_of)) != sorted(enum['stuck']):
        raise tlc.MachineryError('replay bookkeeping: stuck histories do not match the missing cases')
    ctx.count(evaluations=len(enum['cases']))
    nbeh = len({(k[-1][0], k[-1][2]) for k in keys})

    # ---- code -> spec: every recorded step judged by TLC
    legs = [('enum', out['enum'], 'doc'), ('random', out['random'], 'doc'), ('sched', out['sched'], 'doc'),
            # informative only: the same replays against the variant that describes the implementation as it is today
            ('enum-impl', out['enum'], 'impl')]
    jobs = [(name, variant, path, n) for name, data, variant in legs for path, n in _chunks(wd, name, data)]
    with concurrent.futures.ThreadPoolExecutor(max_workers=6) as ex:
        futs = [(name, n, ex.submit(judge, ctx, wd, path, os.path.basename(path)[:-5], variant)) for name, variant, path, n in jobs]
        results = [(name, n, f.result()) for name, n, f in futs]
    bad = {name: {} for name, _d, _v in legs}
    for name, n, (r, o) in results:
        ctx.tlc(r, 'PyTaskTrace/' + name)
        if o['done'] != n:
            raise tlc.MachineryError('PyTaskTrace %s judged %s of %d cases' % (name, o['done'], n))
        for cid, clause in o['bad']:
            bad[name].setdefault(cid, []).append(clause)
    impl_bad = bad.pop('enum-impl')
    for name in bad:
        ctx.count(traces=len(out[name]['cases']))
    ctx.count(evaluations=len(out['random']['cases']) + len(out['sched']['cases']))

    # the two judgements of the replays must agree on the first diverging step
    for hid, k in enumerate(keys, 1):
        if mismatch[k[:-1]]:
            continue
        flagged = sorted(bad['enum'].get(hid, []))
        if hid not in case_of or bool(flagged) != bool(mismatch[k]):
            raise tlc.MachineryError('judgements disagree on %s: direct comparison with the TLC state differs in %s, PyTaskTrace reports %s'
                                     % ([_opstr(dict(op=o, t=t, x=x)) for o, t, x in k], mismatch[k], flagged))

    def note(leg, case, clause, prefix, states):
        op = case['op']
        post = states[case['post'] - 1]
        if clause == 'kwargs-as-constructed':       # what is injected depends on the keywords the task was constructed with
            detail = 'mode=' + post['task'][op['t']]['mode']
        elif clause in ('same-args-every-do', 'env-handed-over'):
            detail = op['op'] + (':read' if op['op'] == 'use' else '')
        else:
            detail = op['op'] + ((':' + op['x']) if op['op'] in ('do', 'use') else '')
        key = 'PyTask/%s/%s' % (clause, detail)
        o = observations.setdefault(key, dict(count=0, legs={}, clause=clause, documentation=CLAUSE_DOC[clause], example=None))
        o['count'] += 1
        o['legs'][leg] = o['legs'].get(leg, 0) + 1
        ex = o['example']
        if ex is None or len(prefix) < len(ex['ops']):
            o['example'] = dict(leg=leg, ops=[_opstr(p) for p in prefix], what=_what(clause, states[case['pre'] - 1], post, op['t']))

    for hid, k in enumerate(keys, 1):
        for clause in bad['enum'].get(hid, []):
            note('enumerated', case_of[hid], clause, histories[hid - 1], enum['states'])
    rnd = out['random']
    for case in rnd['cases']:
        for clause in bad['random'].get(case['id'], []):
            note('random', case, clause, rnd['seqs'][case['seq']]['ops'][:case['step']], rnd['states'])
    sch = out['sched']
    for n, case in enumerate(sch['cases']):
        for clause in bad['sched'].get(case['id'], []):
            note('scheduler', case, clause, [c['op'] for c in sch['cases'][:n + 1] if c['op']['t'] == case['op']['t']], sch['states'])
    napply = sum(1 for c in sch['cases'] if c['op']['op'] == 'apply')
    if napply < 10 or len(sch['order']) < 17:
        raise tlc.MachineryError('scheduler leg: only %d tasks ran, %d published pairs' % (len(sch['order']), napply))

    # ---- negative self-test on the recorded side: a conforming step with one corrupted field must be rejected
    neg = _corrupt(enum, bad['enum'])
    npath = tlc.json_dump(os.path.join(wd, 'cases_neg.json'), dict(states=neg['states'], cases=neg['cases']))
    r, o = judge(ctx, wd, npath, 'neg')
    ctx.tlc(r, 'PyTaskTrace/corrupted')
    got = {}
    for cid, clause in o['bad']:
        got.setdefault(cid, set()).add(clause)
    for case in neg['cases']:
        if case['expect'] not in got.get(case['id'], ()):
            raise tlc.MachineryError('negative self-test: corrupted field %s of a recorded step %s is not rejected with clause %s (got %s)'
                                     % (case['what'], case['op'], case['expect'], sorted(got.get(case['id'], ()))))
    if len(neg['cases']) < 5:
        raise tlc.MachineryError('negative self-test: only %d corruptions could be built' % len(neg['cases']))

    check_side()
    ctx.cov['pytask'] = dict(sequences_enumerated=len(keys), sequences_not_replayable_after_divergence=len(enum['stuck']), max_ops=maxops, tasks=len(tasks), last_step_kinds=nbeh,
                             replays_differing_from_tlc_state=sum(1 for k in keys if mismatch[k]),
                             steps_judged=dict(enumerated=len(enum['cases']), random=len(rnd['cases']), scheduler=len(sch['cases'])),
                             random_sequences=len(rnd['seqs']), scheduler_order=sch['order'], scheduler_statuses=sch['statuses'],
                             scheduler_not_judged_C02=sch['skipped'], deepcopy_of_task_after_do=sch['deepcopy_of_task_after_do'] or 'ok', corrupted_steps_rejected=len(neg['cases']),
                             steps_differing_from_impl_variant=len(impl_bad),
                             negative_variants_rejected=['%s/%s' % (v, n) for v, n, _ in NEGATIVE],
                             observations={k: v for k, v in sorted(observations.items())})
    print_summary('PyTask', 'pytask', observations, strip='PyTask/')


def print_summary(module, name, observations, strip=''):
    """The ONE line an extra module prints per run (nothing when there is nothing to observe): the classes with their counts,
    most frequent first, at most 300 characters.  Count and smallest example of every class stay in the evidence
    (ctx.cov[name]['observations'])."""
    if not observations:
        return
    try:
        '\u2014\u2026'.encode(getattr(sys.stdout, 'encoding', None) or 'ascii')
        dash, dots = '\u2014', '\u2026'
    except (UnicodeError, LookupError):
        dash, dots = '--', '...'
    head = 'OBSERVATION (%s, outside the listed properties) %d classes, %d cases: ' % (
        module, len(observations), sum(v['count'] for v in observations.values()))
    tail = ' %s details in evidence coverage.%s.observations' % (dash, name)
    items = ['%s (%d)' % (k[len(strip):] if strip and k.startswith(strip) else k, v['count'])
             for k, v in sorted(observations.items(), key=lambda kv: (-kv[1]['count'], kv[0]))]
    room = 300 - len(head) - len(tail)
    shown = []
    for n, item in enumerate(items):
        if len(', '.join(shown + [item])) + (len(dots) + 2 if n + 1 < len(items) else 0) > room:
            shown.append(dots)
            break
        shown.append(item)
    print(head + ', '.join(shown) + tail)


def _corrupt(enum, flagged):
    """Take steps of the replays that PyTaskTrace accepted and damage one recorded field of the state after."""
    import copy
    states, cases = [], []
    wanted = [('env-cell', 'env-only-through-updates', lambda c: c['op']['op'] == 'do' and c['op']['x'] == 'update'),
              ('why', 'taskexception-failed-why', lambda c: c['op']['x'] == 'taskexc'),
              ('status', 'taskexception-failed-why', lambda c: c['op']['x'] == 'taskexc0'),
              ('argseen', 'same-args-every-do', lambda c: c['op']['op'] == 'do' and c['op']['x'] == 'update'),
              ('alias-arg', 'args-isolated-from-caller', lambda c: c['op']['op'] == 'construct' and c['op']['x'] == 'env'),
              ('kw', 'kwargs-as-constructed', lambda c: c['op']['op'] == 'caller'),
              ('applied', 'apply-publishes-update', lambda c: c['op']['op'] == 'apply'),
              ('envseen', 'env-handed-over', lambda c: c['op']['op'] == 'do' and c['op']['x'] == 'fwd'),
              ('results', 'evaltests-results', lambda c: c['op']['x'] == 'evaltests'),
              ('value', 'do-returns-function-result', lambda c: c['op']['x'] == 'nontuple')]
    for what, expect, pred in wanted:
        for case in enum['cases']:
            if case['id'] in flagged or not pred(case):
                continue
            pre, post = copy.deepcopy(enum['states'][case['pre'] - 1]), copy.deepcopy(enum['states'][case['post'] - 1])
            if not _damage(what, post, case['op']['t']):
                continue
            states += [pre, post]
            cases.append(dict(id=len(cases) + 1, pre=len(states) - 1, post=len(states), op=case['op'], what=what, expect=expect))
            break
    return dict(states=states, cases=cases)


def _damage(what, post, t):
    if what == 'env-cell':
        post['heap'][post['env'][SRC]['result']['a'] - 1].append('n')
    elif what == 'why':
        post['pend']['upd'][t]['why']['v'] = 'other'
    elif what == 'status':
        post['pend']['status'] = 'DONE'
    elif what == 'argseen':
        post['last']['argseen'] = post['last']['argseen'] + ['f']
    elif what == 'alias-arg':
        post['task'][t]['a'] = post['orig'][t]['a']
    elif what == 'kw':
        made = [u for u, r in sorted(post['task'].items()) if r['made']]
        if not made:
            return False
        post['task'][made[0]]['kw'] = sorted(post['task'][made[0]]['kw'] + ['env'])
    elif what == 'applied':
        post['env'][t].pop('status')
    elif what == 'envseen':
        post['last']['envseen'] = {}
    elif what == 'results':
        if post['pend']['kind'] != 'pair':
            return False
        post['heap'][post['pend']['upd'][t]['result']['a'] - 1].reverse()
    elif what == 'value':
        post['pend']['kind'] = 'pair'
    return True


if __name__ == '__main__':
    if len(sys.argv) == 4 and sys.argv[1] == '--worker':
        sys.path.insert(0, os.path.dirname(os.path.abspath(__file__)))
        _worker(sys.argv[2], sys.argv[3])
