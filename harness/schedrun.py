"""Run the real valjean scheduler on a probe configuration under the deterministic scheduler.

A configuration (JSON-able):
  n        number of tasks 1..n  (task i may depend on j only if ... any pair; cyclic allowed)
  edges    list of [i, j, kind]  task i depends on task j, kind in hard|soft
  outcome  {str(i): ok|fail|raise|none|notpair|badstatus|badupdate}
  workers  number of worker threads
  init     {str(i): DONE|FAILED|SKIPPED}   pre-populated initial environment (optional)
"""
import enum
import threading as _real_threading

import detsched

ENV_MOD, Q_MOD = None, None
_Task = None
_TaskStatus = None
_DepGraph = None
_Scheduler = None


def load():
    global ENV_MOD, Q_MOD, _Task, _TaskStatus, _DepGraph, _Scheduler
    if ENV_MOD is None:
        ENV_MOD, Q_MOD = detsched.load_controlled()
        from valjean.cosette.task import Task, TaskStatus
        from valjean.cosette.depgraph import DepGraph
        from valjean.cosette.scheduler import Scheduler
        _Task, _TaskStatus, _DepGraph, _Scheduler = Task, TaskStatus, DepGraph, Scheduler
    return ENV_MOD, Q_MOD


OUTCOMES = ('ok', 'fail', 'raise', 'none', 'notpair', 'badstatus', 'badupdate', 'nonfinal', 'reshape')
# 'reshape': a normal DONE result whose nested values have another shape than those of an entry carried in by the initial
# environment (a mapping where there was a list, a number where there was a mapping); for Sched.tla it is 'ok'
MODEL_OUTCOME = {'reshape': 'ok'}

# ---------------------------------------------------------------------------
# opaque leaves: cfg['opaque'] = dict(kind=<one of OPAQUE_KINDS>, tasks=[task indices]).  The update of such a task (and
# its entry in the initial environment, if it is carried in DONE) holds -- directly under the task's key, in its nested
# mapping and in a mapping of its own inside the nested mapping -- one object that is not data: a well-formed update may
# carry any Python object (a lock, an open file, a generator, a handle).  Such an object can only be handed on, by
# reference: it cannot be copied, pickled, compared (identity only) and, for one kind, not even printed.
# ---------------------------------------------------------------------------
OPAQUE_KINDS = ('lock', 'nocopy', 'gen', 'norepr')


class _NoCopy:
    """Our own lock-like handle: falsy, identity is its only equality, cannot be copied nor pickled."""

    def __bool__(self):
        return False

    def __eq__(self, other):
        return NotImplemented

    __hash__ = object.__hash__

    def __copy__(self):
        raise TypeError("cannot copy '%s' object" % type(self).__name__)

    def __deepcopy__(self, memo):
        raise TypeError("cannot copy '%s' object" % type(self).__name__)

    def __reduce_ex__(self, protocol):
        raise TypeError("cannot pickle '%s' object" % type(self).__name__)

    def __reduce__(self):
        raise TypeError("cannot pickle '%s' object" % type(self).__name__)


class _NoRepr(_NoCopy):
    """The same, and it has no printable form either."""

    def __repr__(self):
        raise TypeError("'%s' object has no printable form" % type(self).__name__)

    __str__ = __repr__

    def __format__(self, spec):
        raise TypeError("'%s' object has no printable form" % type(self).__name__)


def make_leaf(kind):
    if kind == 'lock':
        return _real_threading.Lock()       # the real thing (this module sees the stock threading module)
    if kind == 'gen':
        return (x for x in ())
    if kind == 'nocopy':
        return _NoCopy()
    if kind == 'norepr':
        return _NoRepr()
    raise AssertionError(kind)


_SCALARS = (bool, int, float, str, bytes, enum.Enum)


def plain(obj, rs):
    """A private JSON-like copy of (a part of) an environment entry: containers are copied, data leaves kept, and a leaf
    that is not data is NOT copied but mapped, by identity, to the token ['opaque', task, version] of the object the
    probe of that task created (['foreign', type name] for an object no probe created, e.g. a copy of one)."""
    if obj is None or isinstance(obj, _SCALARS):
        return obj
    if isinstance(obj, dict):
        return {k: plain(v, rs) for k, v in obj.items()}
    if isinstance(obj, list):
        return [plain(v, rs) for v in obj]
    if isinstance(obj, tuple):
        return tuple(plain(v, rs) for v in obj)
    who = rs.leaf_ids.get(id(obj)) if rs is not None else None
    if who is not None and rs.leaves[who] is obj:
        return ['opaque', who[0], who[1]]
    return ['foreign', type(obj).__name__]


class RunState:
    """What the probes record during one execution."""

    def __init__(self, cfg):
        self.cfg = cfg
        self.execs = {i: 0 for i in range(1, cfg['n'] + 1)}
        self.seen = {}        # task -> {dep: snapshot of env[dep] at start of do()}
        self.seen_step = {}   # task -> controller step index at which do() started
        self.updates = {}     # task -> update returned by its (last) execution
        self.events = []      # ('start'|'end', task, step)
        self.leaves = {}      # (task, version) -> the opaque object created for that update (kept alive: ids stay unique)
        self.leaf_ids = {}    # id(object) -> (task, version)

    def opaque_kind(self, idx):
        """The kind of opaque leaf task idx publishes in the run in progress, or None."""
        opq = self.cfg.get('opaque')
        return opq['kind'] if opq and idx in opq['tasks'] else None

    def leaf(self, idx, version):
        """The opaque object of update `version` of task idx (created on first use), None if the task publishes plain data."""
        kind = self.opaque_kind(idx)
        if kind is None:
            return None
        obj = self.leaves.get((idx, version))
        if obj is None:
            obj = self.leaves[(idx, version)] = make_leaf(kind)
            self.leaf_ids[id(obj)] = (idx, version)
        return obj


def entry_body(idx, version, leaf, reshaped=False):
    """The data a probe publishes under its own key."""
    if reshaped:
        nested = {'a': {'deep': [idx, version]}, 'b': version}
    else:
        nested = {'a': [idx, version], 'b': {'c': version}}
    body = {'payload': [idx, version], 'nested': nested}
    if leaf is not None:
        nested['res'] = {'h': leaf}
        nested['h'] = leaf
        body['handle'] = leaf
    return body


def make_probe_class():
    load()

    class Probe(_Task):
        def __init__(self, idx, rs, deps_idx):
            super().__init__('t%d' % idx)
            self.idx = idx
            self.rs = rs
            self.deps_idx = deps_idx

        def __hash__(self):
            # deterministic node order in DepGraph.from_dependency_dictionary (which goes through a set)
            return self.idx

        def __eq__(self, other):
            return self is other

        def payload(self, reshaped=False):
            v = self.rs.execs[self.idx]
            return {self.name: entry_body(self.idx, v, self.rs.leaf(self.idx, v), reshaped)}

        def do(self, env, config):
            rs = self.rs
            detsched.yield_(('dostart', self.idx))
            ctl = detsched.CTL
            rs.execs[self.idx] += 1
            snap = {}
            for d in self.deps_idx:
                try:
                    snap[d] = plain(dict(env['t%d' % d]), rs)
                except KeyError:
                    snap[d] = None
            rs.seen[self.idx] = snap
            rs.seen_step[self.idx] = len(ctl.trace) if ctl is not None else -1
            out = rs.cfg['outcome'].get(str(self.idx), 'ok')
            upd = self.payload()
            if out == 'ok':
                rs.updates[self.idx] = upd
                return upd, _TaskStatus.DONE
            if out == 'reshape':
                upd = self.payload(reshaped=True)
                rs.updates[self.idx] = upd
                return upd, _TaskStatus.DONE
            if out == 'fail':
                return upd, _TaskStatus.FAILED
            if out == 'raise':
                raise RuntimeError('probe %s fails' % self.name)
            if out == 'none':
                return None
            if out == 'notpair':
                return (upd, _TaskStatus.DONE, 'extra')
            if out == 'badstatus':
                return upd, 'not-a-status'
            if out == 'badupdate':
                return 42, _TaskStatus.DONE
            if out == 'nonfinal':
                return upd, _TaskStatus.PENDING
            raise AssertionError(out)
    return Probe


_PROBE = None
_FALSY = []


def _falsy_probe_class():
    """A task class whose instances are falsy (a task that is also a container, empty at the moment): the scheduler only
    requires a do() method of its tasks."""
    if not _FALSY:
        class FalsyProbe(_PROBE):
            def __len__(self):
                return 0
        _FALSY.append(FalsyProbe)
    return _FALSY[0]


def build(cfg, rs, tasks=None):
    """tasks: reuse these task objects (a graph over the same objects as an earlier one)."""
    global _PROBE
    load()
    if _PROBE is None:
        _PROBE = make_probe_class()
    n = cfg['n']
    deps = {i: [] for i in range(1, n + 1)}
    for i, j, _kind in cfg['edges']:
        if j not in deps[i]:
            deps[i].append(j)
    if tasks is None:
        falsy = set(cfg.get('falsy') or ())
        tasks = {i: (_falsy_probe_class() if i in falsy else _PROBE)(i, rs, sorted(deps[i])) for i in range(1, n + 1)}
    hard = {tasks[i]: [] for i in tasks}
    soft = {tasks[i]: [] for i in tasks}
    for i, j, kind in cfg['edges']:
        (hard if kind == 'hard' else soft)[tasks[i]].append(tasks[j])
    nested = cfg.get('nested')
    if nested:
        # the hard graph is given with nested DepGraph nodes (groups of tasks); cfg['edges'] holds the flat edges the
        # documented grafting rule yields (terminal nodes of a group depend on its dependencies, its dependees
        # depend on its initial nodes) -- see conf_sched.nested_cfg
        units = {}
        for g, members in enumerate(nested['groups']):
            sub = {tasks[i]: [] for i in members}
            for i, j in nested['intra']:
                if i in members and j in members:
                    sub[tasks[i]].append(tasks[j])
            units['g%d' % g] = _DepGraph.from_dependency_dictionary(sub)
        for i in tasks:
            if not any(i in m for m in nested['groups']):
                units['t%d' % i] = tasks[i]
        hard_graph = _DepGraph()
        soft_graph = _DepGraph()
        for name in nested['unit_order']:
            hard_graph.add_node(units[name])
        for edge in nested['uedges']:
            a, b = edge[0], edge[1]
            kind = edge[2] if len(edge) > 2 else 'hard'
            (hard_graph if kind == 'hard' else soft_graph).add_dependency(units[a], on=units[b])
        for i, j in nested.get('tsoft', [[i, j] for i, j, k in cfg['edges'] if k == 'soft']):
            soft_graph.add_dependency(tasks[i], on=tasks[j])
        return tasks, hard_graph, soft_graph
    hard_graph = _DepGraph.from_dependency_dictionary(hard)
    soft_graph = _DepGraph.from_dependency_dictionary(soft)
    return tasks, hard_graph, soft_graph


def initial_env(cfg, rs=None):
    load()
    d = {}
    for k, st in (cfg.get('init') or {}).items():
        i = int(k)
        if st == 'ABSENT':
            continue
        entry = {'status': getattr(_TaskStatus, st)}
        if st == 'DONE':
            # what an earlier run of the same probe left (an opaque leaf included, if the task publishes one)
            entry.update(entry_body(i, 0, rs.leaf(i, 0) if rs is not None else None))
            entry.update({'start_clock': -2 * (cfg['n'] - i + 1), 'end_clock': -2 * (cfg['n'] - i + 1) + 1})
        d['t%d' % i] = entry
    return ENV_MOD.Env(d)


class Execution:
    """Result of one controlled execution."""

    def __init__(self):
        self.rs = None
        self.ctl = None
        self.env = None
        self.returned = False
        self.raised = None
        self.tasks = None


def execute(cfg, strategy, on_step=None, max_steps=None, attach=None):
    load()
    rs = RunState(cfg)
    ex = Execution()
    ex.rs = rs
    holder = {}

    tasks, hard_graph, soft_graph = build(cfg, rs)
    holder['tasks'] = tasks
    env = initial_env(cfg, rs)
    holder['env'] = env
    backend = Q_MOD.QueueScheduling(n_workers=cfg['workers'])
    sched = _Scheduler(hard_graph=hard_graph, soft_graph=soft_graph, backend=backend)
    holder['backend'] = backend
    # cfg['prior'] = dict(edges, outcome): before the run that is recorded, the same backend object serves another
    # scheduler whose graph has other edges over the same task objects, from an empty environment.  What the backend
    # did before must not matter to the recorded run.
    prior = cfg.get('prior')
    if prior:
        pcfg = dict(n=cfg['n'], workers=cfg['workers'], edges=prior['edges'], outcome=prior['outcome'])
        _t, phard, psoft = build(pcfg, rs, tasks=tasks)
        psched = _Scheduler(hard_graph=phard, soft_graph=psoft, backend=backend)
        holder['recording'] = False

    def master():
        if prior:
            rs.cfg = pcfg
            try:
                psched.schedule(env=ENV_MOD.Env())
            except Exception:  # pylint: disable=broad-except
                pass
            rs.cfg = cfg
            rs.execs = {i: 0 for i in range(1, cfg['n'] + 1)}
            rs.seen.clear()
            rs.seen_step.clear()
            rs.updates.clear()
            holder['recording'] = True
            holder['prior_steps'] = len(detsched.CTL.trace)
        res = None
        for _ in range(cfg.get('calls', 1)):
            res = sched.schedule(env=env)
        return res

    ctl = detsched.Controller(strategy, max_steps=max_steps or (60 + 40 * cfg['n'] + 10 * cfg['workers']) * 4, on_step=on_step)
    ctl.holder = holder
    if cfg.get('interrupt'):
        # an exception delivered to the master (Ctrl-C) at its n-th scheduling point, if that point lies inside the try
        # block of execute_tasks: before it takes a lock, queues a task (the condition variable is then its own), waits
        # or joins the queue -- not while it is already stopping the workers
        def allow(op):
            kind = op[0] if isinstance(op, tuple) else op
            if kind in ('acq', 'wait', 'qjoin'):
                return True
            if kind == 'put':
                conds = getattr(ctl, 'conds', [])
                return bool(conds) and conds[-1].lock.owner is ctl.threads[0]
            return False
        ctl.main_inject = dict(at=int(cfg['interrupt']), exc=KeyboardInterrupt('delivered by the harness'), allow=allow)
    if attach is not None:
        attach(ctl, rs)
    try:
        ex.order = sched.full_graph.topological_sort()
    except Exception:  # pylint: disable=broad-except
        ex.order = None
    ex.ctl = ctl
    main = ctl.run(master)
    ex.env = holder.get('env')
    ex.tasks = holder.get('tasks')
    ex.backend = holder.get('backend')
    ex.returned = main.finished and main.exc is None and ctl.verdict in ('ok', 'leak')
    ex.raised = main.exc
    return ex


def env_dict(env):
    """The mapping behind an Env, read without going through its (lock-taking) public methods: the recorder runs
    between two steps of the controlled threads.  The attribute is called `dictionary` today; any other name is found by
    looking for the one dict-valued attribute."""
    d = getattr(env, 'dictionary', None)
    if isinstance(d, dict):
        return d
    cands = [v for v in vars(env).values() if isinstance(v, dict)]
    if len(cands) == 1:
        return cands[0]
    # several dict-valued attributes: the environment is the one holding task entries (mappings with a 'status')
    entries = [c for c in cands if any(isinstance(x, dict) and 'status' in x for x in c.values())]
    if len(entries) == 1:
        return entries[0]
    if cands and not entries:            # nothing stored yet anywhere: read through the public interface
        return {k: env[k] for k in list(env)} if not _lock_held(env) else cands[0]
    raise RuntimeError('cannot find the mapping of the environment object')


def _lock_held(env):
    return any(getattr(v, 'owner', None) is not None for v in vars(env).values() if hasattr(v, 'owner'))


def status_name(env, i):
    e = env_dict(env).get('t%d' % i)
    if e is None or 'status' not in e:
        return 'ABSENT'
    try:
        return _TaskStatus(e['status']).name
    except ValueError:
        return 'BOGUS'


# ---------------------------------------------------------------------------
# projection of the real state onto the variables of specs/Sched.tla
# ---------------------------------------------------------------------------
def _is_leaf(x, want, who):
    """x is the very object `want` (live entry) or the token plain() gave it (snapshot taken by a probe)."""
    return x is want or (type(x) is list and x == ['opaque', who[0], who[1]])


def _pay_version(entry, i, rs=None):
    """0 none, 1 carried in by the initial environment, 2 produced in this run, 3 torn / inconsistent.  `entry` is a live
    environment entry or a snapshot made by plain().  If update v of task i carried an opaque leaf, the update is
    complete only if the very object the task created sits at the three places it was published at."""
    if entry is None:
        return 0
    keys = [k for k in ('payload', 'nested') if k in entry]
    if not keys:
        return 0
    try:
        p = entry.get('payload')
        nst = entry.get('nested')
        if p is None or nst is None:
            return 3
        v = p[1]
        reshaped = nst.get('a') == {'deep': [i, v]} and nst.get('b') == v
        if p[0] != i or not (reshaped or (nst.get('a') == [i, v] and nst.get('b') == {'c': v})):
            return 3
        want = rs.leaves.get((i, v)) if rs is not None else None
        if want is not None:
            res = nst.get('res')
            if not (isinstance(res, dict) and _is_leaf(res.get('h'), want, (i, v)) and _is_leaf(nst.get('h'), want, (i, v))
                    and _is_leaf(entry.get('handle'), want, (i, v))):
                return 3
        return 1 if v == 0 else 2
    except Exception:  # pylint: disable=broad-except
        return 3


def _clk_class(entry):
    if entry is None:
        return 'none'
    s, e = entry.get('start_clock'), entry.get('end_clock')
    if s is None and e is None:
        return 'none'
    if s is None or e is None:
        return 'torn'
    return 'init' if e < 0 else 'run'


def view_of(entry, i, execs, rs=None):
    """Projection of one environment entry as a dependent sees it (Sched!View)."""
    if entry is None or 'status' not in entry:
        stn = 'ABSENT'
    else:
        try:
            stn = _TaskStatus(entry['status']).name
        except ValueError:
            stn = 'BOGUS'
    return dict(st=stn, pay=_pay_version(entry, i, rs), clk=_clk_class(entry) not in ('none', 'torn'), ex=execs)


class Recorder:
    """on_step callback: records one event per controller step with the projected state."""

    def __init__(self, cfg, rs):
        self.cfg = cfg
        self.rs = rs
        self.events = []
        self.cur = {}
        self.lastpc = {}
        self.execs_at_seen = {}

    def __call__(self, ctl):
        cfg, rs = self.cfg, self.rs
        n, nw = cfg['n'], cfg['workers']
        tid, op = ctl.trace[-1]
        env = ctl.holder['env']
        backend = ctl.holder['backend']
        d = env_dict(env)
        st, pay, clk = [], [], []
        for i in range(1, n + 1):
            e = d.get('t%d' % i)
            v = view_of(e, i, 0, rs)
            st.append(v['st'])
            pay.append(v['pay'])
            clk.append(_clk_class(e))
        q = ctl.queues[-1] if getattr(ctl, 'queues', None) else backend.queue     # the queue of the call in progress
        queue = [getattr(x, 'idx', 0) for x in q.items]      # 0 = a stop sentinel, whatever object it is
        conds = getattr(ctl, 'conds', [])
        cv = conds[-1] if conds else None
        threads = ctl.threads
        master = threads[0]
        call = max(1, (len(threads) - 1 + nw - 1) // nw) if nw else 1
        base = (call - 1) * nw          # workers of the call in progress are threads[base + 1 .. base + nw]
        if call != getattr(self, 'call', 1):
            self.cur = {}
            self.lastpc = {}
        self.call = call

        def owner_id(o):
            if o is None:
                return 0
            if o is master:
                return -1
            return (o.tid - base) if hasattr(o, 'tid') else 99
        cv_owner = owner_id(cv.lock.owner) if cv else 0
        cv_wait = bool(cv and master in cv.waiters)
        cv_not = bool(cv and master in cv.notified)
        # program counters
        if master.finished:
            mpc = 'raised' if master.exc is not None else 'returned'
        else:
            p = master.pending.op
            if isinstance(p, tuple) and p[0] == 'intr':     # an exception is about to be delivered instead of this operation
                p = p[1:] if len(p) > 2 else (p[1] if len(p) == 2 and not isinstance(p[1], tuple) else p[1:])
                if isinstance(p, str):
                    p = (p,)
            if p == 'start':
                mpc = 'start'
            elif p[0] == 'acq':
                mpc = 'acqcv' if p[1] == 'cv' else 'decide'
            elif p[0] == 'put':
                mpc = 'put' if cv_owner == -1 else 'stop'
            elif p[0] == 'wait':
                mpc = 'wait'
            elif p[0] == 'qjoin':
                mpc = 'qjoin'
            elif p[0] == 'join':
                mpc = 'join'
            else:
                mpc = 'other:%s' % (p,)
        wpc = []
        cur = []
        for w in range(1, nw + 1):
            if base + w >= len(threads):
                wpc.append('none')
                cur.append(self.cur.get(w, 0))
                continue
            t = threads[base + w]
            if t.finished:
                wpc.append('exited' if t.exc is None else 'dead')
            else:
                p = t.pending.op
                if p == 'start':
                    wpc.append('start')
                elif p[0] == 'get':
                    wpc.append('get')
                elif p[0] == 'dostart':
                    wpc.append('dostart')
                    self.cur[w] = p[1]
                elif p[0] == 'acq':
                    wpc.append('notify' if p[1] == 'cv' else 'publish')
                elif p[0] == 'task_done':
                    wpc.append('stopdone' if self.lastpc.get(w) in ('get', 'stopdone') else 'taskdone')
                else:
                    wpc.append('other:%s' % (p,))
            cur.append(self.cur.get(w, 0))
            self.lastpc[w] = wpc[-1]
        # history
        seen = []
        for i in range(1, n + 1):
            snap = rs.seen.get(i)
            if snap is None:
                seen.append([])
                continue
            if i not in self.execs_at_seen:
                self.execs_at_seen[i] = {dd: rs.execs[dd] for dd in snap}
            seen.append([dict(d=dd, **view_of(snap[dd], dd, self.execs_at_seen[i][dd], rs)) for dd in sorted(snap)])
        self.events.append(dict(thr=(tid - base if tid > 0 else 0), op=_opname(op), st=st, pay=pay, clk=clk, queue=queue, unfinished=q.unfinished,
                                mpc=mpc, wpc=wpc, cur=cur, cvOwner=cv_owner, cvWaiting=cv_wait, cvNotified=cv_not,
                                seen=seen, execs=[rs.execs[i] for i in range(1, n + 1)]))


def _opname(op):
    return op if isinstance(op, str) else ':'.join(str(x) for x in op)


def record(cfg, strategy, max_steps=None, hook=None):
    """Execute and return (Execution, trace dict for SchedTrace)."""
    load()
    rec_holder = {}

    def attach(ctl, rs):
        rec_holder['rec'] = Recorder(cfg, rs)
        ctl.recorder_events = rec_holder['rec'].events
        if hook is not None:
            hook(ctl, rec_holder['rec'])

    def on_step(ctl):
        if ctl.holder.get('recording', True):
            rec_holder['rec'](ctl)
            if len(rec_holder['rec'].events) == 1 and cfg.get('prior'):
                rec_holder['rec'].events[0]['op'] = 'start'      # the step that leaves the earlier run enters this one
    ex = execute(cfg, strategy, on_step=on_step, max_steps=max_steps, attach=attach)
    rec = rec_holder.get('rec')
    events = rec.events if rec else []
    order = [t.idx for t in ex.order] if ex.order else list(range(1, cfg['n'] + 1))
    trace = dict(cfg=dict(n=cfg['n'], workers=cfg['workers'], edges=[list(e) for e in cfg['edges']],
                          outcome=[MODEL_OUTCOME.get(cfg['outcome'].get(str(i), 'ok'), cfg['outcome'].get(str(i), 'ok'))
                                   for i in range(1, cfg['n'] + 1)],
                          outcome_real=[cfg['outcome'].get(str(i), 'ok') for i in range(1, cfg['n'] + 1)],
                          init=[(cfg.get('init') or {}).get(str(i), 'ABSENT') for i in range(1, cfg['n'] + 1)],
                          order=order, calls=cfg.get('calls', 1), nested=cfg.get('nested') or {}, prior=cfg.get('prior') or {},
                          interrupt=int(cfg.get('interrupt') or 0), falsy=sorted(cfg.get('falsy') or []), opaque=cfg.get('opaque') or {}),
                 events=events, verdict=ex.ctl.verdict, raised=repr(ex.raised) if ex.raised is not None else '',
                 schedule=[t for t, _ in ex.ctl.trace])
    return ex, trace
