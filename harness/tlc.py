"""Run SANY / TLC and parse what comes back (stats, coverage, traces, dumps, simulation files)."""
import json
import os
import re
import shutil
import subprocess
import tempfile
import time

from tlaval import parse_state, parse_value, to_tla

HERE = os.path.dirname(os.path.abspath(__file__))
VERIF = os.path.dirname(HERE)
SPECS = os.path.join(VERIF, 'specs')
JAR = '/opt/veriftools/tla/tla2tools.jar'
DEPS = '/opt/veriftools/tla/CommunityModules-deps.jar'
NCPU = os.cpu_count() or 4


class MachineryError(Exception):
    """TLC / SANY / harness failure (exit code 2, never a finding)."""


class Raw(str):
    """Literal text for a cfg constant (`Raw('<- Def')` for a substitution)."""


_WORK = []


def workdir(prefix='vj'):
    d = tempfile.mkdtemp(prefix='verif-%s-' % prefix)
    _WORK.append(d)
    return d


def cleanup():
    while _WORK:
        shutil.rmtree(_WORK.pop(), ignore_errors=True)


def write_cfg(path, *, spec='Spec', init=None, next_=None, constants=None, invariants=(), properties=(),
              constraints=(), action_constraints=(), view=None, deadlock=True, postcondition=None,
              symmetry=None):
    lines = []
    if init:
        lines += ['INIT %s' % init, 'NEXT %s' % next_]
    else:
        lines.append('SPECIFICATION %s' % spec)
    for k, v in (constants or {}).items():
        if isinstance(v, Raw):
            lines.append('CONSTANT %s %s' % (k, v) if v.startswith('<-') else 'CONSTANT %s = %s' % (k, v))
        else:
            lines.append('CONSTANT %s = %s' % (k, to_tla(v)))
    for i in invariants:
        lines.append('INVARIANT %s' % i)
    for p in properties:
        lines.append('PROPERTY %s' % p)
    for c in constraints:
        lines.append('CONSTRAINT %s' % c)
    for c in action_constraints:
        lines.append('ACTION_CONSTRAINT %s' % c)
    if view:
        lines.append('VIEW %s' % view)
    if symmetry:
        lines.append('SYMMETRY %s' % symmetry)
    if postcondition:
        lines.append('POSTCONDITION %s' % postcondition)
    lines.append('CHECK_DEADLOCK %s' % ('TRUE' if deadlock else 'FALSE'))
    with open(path, 'w') as f:
        f.write('\n'.join(lines) + '\n')
    return path


class TLCResult:
    def __init__(self):
        self.rc = None
        self.out = ''
        self.generated = 0
        self.distinct = 0
        self.depth = 0
        self.coverage = {}        # action name -> [distinct, total]
        self.violation = None     # None | ('invariant'|'deadlock'|'property'|'assert'|'postcondition'|'error', name/msg)
        self.trace = []           # list of (action label, state dict)
        self.wall = 0.0
        self.cmd = ''

    @property
    def ok(self):
        return self.rc == 0 and self.violation is None

    def summary(self):
        return dict(generated=self.generated, distinct=self.distinct, depth=self.depth,
                    violation=self.violation, wall_s=round(self.wall, 2))


_RE_STATS = re.compile(r'(\d+) states generated, (\d+) distinct states found')
_RE_DEPTH = re.compile(r'The depth of the complete state graph search is (\d+)')
_RE_COV = re.compile(r'^<([A-Za-z_][A-Za-z0-9_]*) line \d+, col \d+ to line \d+, col \d+ of module (\w+)>: (\d+):(\d+)', re.M)
_RE_STATE = re.compile(r'^State (\d+): (.*)$', re.M)


def _parse_trace(out):
    """Parse `State n: <label>` blocks from TLC's stdout (the error trace)."""
    trace = []
    heads = list(_RE_STATE.finditer(out))
    for i, m in enumerate(heads):
        end = heads[i + 1].start() if i + 1 < len(heads) else len(out)
        body = out[m.end():end]
        # body ends at first blank line
        body = body.split('\n\n')[0]
        label = m.group(2).strip()
        lm = re.match(r'<(.*?) line \d+', label)
        label = lm.group(1) if lm else label.strip('<>')
        if label.startswith('Initial predicate'):
            label = 'Init'
        if 'Stuttering' in label:
            trace.append(('Stuttering', None))
            continue
        try:
            trace.append((label, parse_state(body)))
        except ValueError:
            trace.append((label, {'#unparsed': body}))
    return trace


def java_cmd(extra_props=()):
    cmd = ['java', '-XX:+UseParallelGC', '-Xmx12g']
    for p in extra_props:
        cmd.append(p)
    cmd += ['-cp', JAR + ':' + DEPS]
    return cmd


def sany(module_path):
    r = subprocess.run(java_cmd(['-DTLA-Library=' + SPECS]) + ['tla2sany.SANY', module_path],
                       capture_output=True, text=True, cwd=os.path.dirname(module_path) or '.')
    txt = r.stdout + r.stderr
    if r.returncode != 0 or 'rror' in txt.replace('Semantic errors:\n\n', ''):
        if 'Semantic processing of module' in txt and 'rror' not in txt:
            return txt
        raise MachineryError('SANY failed on %s:\n%s' % (module_path, txt[-3000:]))
    return txt


def run(module, cfg, **kw):
    """Run TLC (see _run_once).  A run that dies without any verdict of its own (no violated invariant / property /
    deadlock / assertion: the JVM could not get its threads or memory while many other JVMs were starting, say) is
    tried once more after a pause before it is reported as a machinery failure."""
    try:
        return _run_once(module, cfg, **kw)
    except MachineryError as ex:
        if 'TLC failed' not in str(ex):
            raise
        time.sleep(5)
        try:
            return _run_once(module, cfg, **kw)
        except MachineryError as ex2:
            raise MachineryError('%s\n(second attempt after: %s)' % (ex2, str(ex)[:300])) from ex2


def _run_once(module, cfg, *, workers=None, simulate=None, depth=None, seed=None, dump=None, coverage=True,
        env=None, timeout=900, extra=(), deque=False, metadir=None, continue_=False, allow_violation=True,
        maxsetsize=None, cwd=None):
    """Run TLC on `module` (path to .tla) with config file `cfg`.

    simulate: None or dict(num=, file=) for -simulate
    """
    wd = metadir or workdir('tlc')
    jtmp = os.path.join(wd, 'jtmp')          # TLC leaves an empty tlc-<n> directory in java.io.tmpdir at every start
    os.makedirs(jtmp, exist_ok=True)
    props = ['-DTLA-Library=' + SPECS, '-Djava.io.tmpdir=' + jtmp]
    if deque:
        props.append('-Dtlc2.tool.queue.IStateQueue=StateDeque')
    cmd = java_cmd(props) + ['tlc2.TLC', '-metadir', os.path.join(wd, 'meta'), '-noGenerateSpecTE', '-nowarning']
    cmd += ['-workers', str(workers or NCPU)]
    if coverage:
        cmd += ['-coverage', '1']
    if simulate is not None:
        parts = []
        if simulate.get('file'):
            parts.append('file=%s' % simulate['file'])
        if simulate.get('num') is not None:
            parts.append('num=%d' % simulate['num'])
        cmd += ['-simulate'] + ([','.join(parts)] if parts else [])
        if depth:
            cmd += ['-depth', str(depth)]
        if seed is not None:
            cmd += ['-seed', str(seed)]
    if dump:
        cmd += ['-dump', dump]
    if continue_:
        cmd += ['-continue']
    if maxsetsize:
        cmd += ['-maxSetSize', str(maxsetsize)]
    cmd += list(extra)
    cmd += ['-config', cfg, module]
    e = dict(os.environ)
    if env:
        e.update({k: str(v) for k, v in env.items()})
    res = TLCResult()
    res.cmd = ' '.join(cmd)
    t0 = time.time()
    try:
        # (a harness may have capped its own address space for a moment, see conf_persist._MemCap: the JVM must not inherit that)
        p = subprocess.run(['sh', '-c', 'ulimit -v unlimited 2>/dev/null; exec "$@"', 'sh'] + cmd, capture_output=True, text=True, env=e, timeout=timeout,
                           cwd=cwd or os.path.dirname(os.path.abspath(module)))
    except subprocess.TimeoutExpired as ex:
        if metadir is None:
            shutil.rmtree(wd, ignore_errors=True)
        raise MachineryError('TLC timed out after %ss: %s' % (timeout, res.cmd)) from ex
    res.wall = time.time() - t0
    if metadir is None:            # the state files of this run are not needed any more
        shutil.rmtree(wd, ignore_errors=True)
        if wd in _WORK:
            _WORK.remove(wd)
    res.rc = p.returncode
    out = p.stdout + ('\n' + p.stderr if p.stderr.strip() else '')
    res.out = out
    for m in _RE_STATS.finditer(out):
        res.generated, res.distinct = int(m.group(1)), int(m.group(2))
    m = _RE_DEPTH.search(out)
    if m:
        res.depth = int(m.group(1))
    for m in _RE_COV.finditer(out):
        cur = res.coverage.setdefault(m.group(1), [0, 0])
        cur[0] += int(m.group(3))
        cur[1] += int(m.group(4))
    # violations
    m = re.search(r'Error: Invariant (\S+) is violated', out)
    if m:
        res.violation = ('invariant', m.group(1))
    elif 'Error: Deadlock reached' in out:
        res.violation = ('deadlock', 'deadlock')
    elif re.search(r'Error: Action property (\S+) is violated', out):
        res.violation = ('property', re.search(r'Error: Action property (\S+) is violated', out).group(1))
    elif 'Temporal properties were violated' in out:
        res.violation = ('property', 'temporal')
    elif re.search(r'Error: The postcondition (\S+)|POSTCONDITION.*(violated|false)', out):
        res.violation = ('postcondition', 'postcondition')
    elif 'The first argument of Assert evaluated to FALSE' in out or 'Assumption' in out and 'is false' in out:
        res.violation = ('assert', (re.search(r'The error message[^\n]*\n([^\n]*)', out) or [None, ''])[1])
    elif p.returncode != 0:
        res.violation = ('error', out[-2500:])
    if res.violation and res.violation[0] in ('invariant', 'deadlock', 'property'):
        res.trace = _parse_trace(out)
    if res.violation and res.violation[0] == 'error':
        first = [l for l in out.splitlines() if re.match(r'\s*(Error|.*Exception|.*OutOfMemory|.*unable to create|# )', l)][:6]
        raise MachineryError('TLC failed (rc=%s): %s\n%s\n%s' % (p.returncode, res.cmd, '\n'.join(first), out[-2000:]))
    return res


def read_dump(path):
    """Yield state dicts from a `-dump` file (TLC appends .dump)."""
    if not os.path.exists(path) and os.path.exists(path + '.dump'):
        path = path + '.dump'
    with open(path) as f:
        txt = f.read()
    for block in re.split(r'^State \d+:\n', txt, flags=re.M)[1:]:
        yield parse_state(block)


def read_sim_files(prefix):
    """Parse behaviours written by -simulate file=prefix: list of [(label, state)]."""
    d = os.path.dirname(prefix)
    base = os.path.basename(prefix)
    out = []
    for name in sorted(os.listdir(d)):
        if not name.startswith(base + '_'):
            continue
        with open(os.path.join(d, name)) as f:
            txt = f.read()
        beh = []
        # blocks:  \* <Action ...>\nSTATE_n == \n/\ ...
        parts = re.split(r'^STATE_\d+ ==\s*', txt, flags=re.M)
        labels = re.findall(r'^\\\* (.*)$', txt, flags=re.M)
        # first comment lines may be headers; align from the end
        for i, body in enumerate(parts[1:]):
            body = body.split('\n\n')[0]
            body = re.sub(r'^\\\*.*$', '', body, flags=re.M)
            st = parse_state(body)
            beh.append(st)
        labs = []
        for l in labels:
            lm = re.match(r'<(.*?) line \d+', l)
            if lm:
                labs.append(lm.group(1))
            elif 'Initial predicate' in l:
                labs.append('Init')
        if len(labs) == len(beh):
            out.append(list(zip(labs, beh)))
        else:
            out.append([(None, s) for s in beh])
    return out


def check_coverage(res, required_actions, where=''):
    """Vacuity guard: every required action must have been taken at least once."""
    missing = [a for a in required_actions if res.coverage.get(a, [0, 0])[1] == 0]
    if missing:
        raise MachineryError('vacuous model %s: actions never taken: %s' % (where, missing))


def json_dump(path, obj):
    with open(path, 'w') as f:
        json.dump(obj, f)
    return path
