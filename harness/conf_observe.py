"""C13 -- looking at a test result never changes it: binding of specs/Observe.tla (+ ObserveImpl.tla,
ObserveTrace.tla) to the result classes of valjean.gavroche and the representers of valjean.javert.

spec -> code : every operation sequence TLC generates from Observe.tla (-dump: all sequences up to the bound,
               -simulate: longer ones) is executed on a fresh real result of every kind (equal, approx-equal,
               Student, Bonferroni, Holm, chi2, metadata, stats-tasks, stats-tests, stats-by-labels, failed,
               external; passing and failing inputs) obtained in every way TLC enumerates (`origin`: returned by
               evaluate(), constructed directly from the recorded statistics with the optional arguments of the
               result class left to their documented defaults, loaded back from a pickle); after every operation
               a deep snapshot (verdict, every recorded attribute, the pickle, test parameters, dataset bytes, and
               every object the test was constructed from: datasets, dictionaries / environment sections with their
               key sets, lists, templates) is compared with the abstract state of the TLC state, which never changes.
               The baseline of the inputs is taken BEFORE the test is constructed and evaluated, so that the
               evaluation itself is one of the operations that must leave them alone.  The operation `sibling`
               evaluates OTHER tests constructed over the very same input objects (rotating order) and reads their
               results: the result under observation, its inputs and a later `reeval` must not notice.
               Every operation NAME of the model stands for the whole family of public read-only calls of that
               sort: explicit lists for the accessors the classes document, introspection (public properties and
               methods without required argument, explicit deny list / argument table) for the rest, every
               representer class of valjean.javert for the representations.
design level : ObserveImpl.tla models the hidden state of the summaries (key set of the defaultdict behind
               `classify`); TLC checks that it refines Observe when the counting helper does not insert, and --
               negative self-test -- refutes the refinement for the inserting look-up found in the code; the
               counterexample is replayed on the code.  The key sets predicted by the model are compared with
               the real ones (a mismatch is drift).
code -> spec : seeded random longer sequences are executed, the abstract state recorded after every operation,
               and the batch of traces is walked by TLC as behaviours of Observe (ObserveTrace.tla).
"""
import copy
import inspect
import json
import os
import pickle
import zlib
from concurrent.futures import ThreadPoolExecutor
from collections import OrderedDict

import numpy as np

import tlc
from conf_browser import read_dump_fast

SPEC = os.path.join(tlc.SPECS, 'Observe.tla')
IMPL = os.path.join(tlc.SPECS, 'ObserveImpl.tla')
TRACE = os.path.join(tlc.SPECS, 'ObserveTrace.tla')
MODULE = 'conf_observe'

KINDS = ['equal', 'approx', 'student', 'bonferroni', 'holm', 'chi2', 'metadata', 'stats-tasks', 'stats-tests',
         'stats-bylabels', 'failed', 'external']
ALWAYS_BAD = ['failed']
CLASSIFIED = ['stats-tasks', 'stats-tests']
ORIGINS = ['evaluate', 'direct', 'unpickled']      # how the result object is obtained, see obtain()
PLAIN_OPS = ['bool', 'oracles', 'counts', 'data', 'fingerprint', 'copy', 'pickle', 'reeval', 'sibling']
VERB_OPS = ['table', 'plot', 'full', 'rst']
DRAW_OPS = ['draw']      # representation drawn by matplotlib: expensive, kept out of the exhaustive alphabets
NOVERB = 9


# ---------------------------------------------------------------------------------------------
# building a fresh result of every kind

# Degenerate but legal binnings (edges of n bins), rotated over the inputs of every kind that is built on datasets / has a
# plot representation; '+zerr' in the flavour: the first bin has a zero error on both sides and equal values (the documented
# 0/0 -> t = 0, success, of the Student test).  Flavour = '<1d|2d-nan>[+<binning>][+zerr]'.
def _rep(n, k):
    edges = np.arange(n + 1, dtype=float)
    edges[k + 1] = edges[k]
    return edges


BINNINGS = {
    'uniform': lambda n: np.arange(n + 1, dtype=float),
    'rep2': lambda n: _rep(n, 1),                  # repeated edge: the second bin has no width
    'rep-2': lambda n: _rep(n, n - 2),             # ... the second-to-last bin
    'repmid': lambda n: _rep(n, n // 2),           # ... a bin in the middle
    'single': lambda n: np.array([0.0, 1.0]),      # one bin
    'huge': lambda n: np.concatenate(([-1e12], np.arange(1, n, dtype=float), [1e12])),      # width ratio ~1e12 at both ends
    'decr': lambda n: np.arange(n, -1, -1, dtype=float),       # decreasing edges
}
BINNING_ROT = ['uniform', 'rep2+zerr', 'uniform', 'rep-2+zerr', 'uniform', 'repmid+zerr', 'huge', 'uniform', 'single+zerr', 'decr+zerr']
NO_ZERR = [False]      # set while the inputs of a kind whose expected verdict a zero error would change are built (chi2: 0/0 fails)


def _flavour():
    parts = FLAVOUR[0].split('+')
    binning = next((p for p in parts[1:] if p in BINNINGS), 'uniform')
    return parts[0], binning, 'zerr' in parts[1:] and not NO_ZERR[0]


def with_binning(n, k):
    """Flavour number k of the rotation on top of the base flavour."""
    base = n.split('+')[0]
    return base if BINNING_ROT[k % len(BINNING_ROT)] == 'uniform' else base + '+' + BINNING_ROT[k % len(BINNING_ROT)]


def _degenerate(vals, errs, name, binning, zerr, rows):
    vals, errs = list(vals), list(errs)
    if binning != 'uniform':      # two more bins (so that second / middle / second-to-last are different bins), or a single one
        vals, errs = vals + [vals[0] * 2.5, vals[1] * 0.75], errs + errs[:2]
        if binning == 'single':
            vals, errs = vals[:rows], errs[:rows]
    if zerr:
        errs[0] = 0.0
        if name != 'far':
            vals[0] = 1.0
    return vals, errs


def _ds(vals, errs, name):
    from valjean.eponine.dataset import Dataset
    _, binning, zerr = _flavour()
    vals, errs = _degenerate(vals, errs, name, binning, zerr, 1)
    bins = OrderedDict([('e', BINNINGS[binning](len(vals)))])
    return Dataset(np.array(vals, dtype=float), np.array(errs, dtype=float), bins=bins, name=name, what='flux')


FLAVOUR = ['1d']      # '1d' (default) or '2d-nan': 2-d datasets, the failing one with a cell undefined on one side


def _ds2(vals, errs, name):
    from valjean.eponine.dataset import Dataset
    _, binning, zerr = _flavour()
    if binning == 'single':      # a 2-d dataset with a single bin along one axis is squeezed by the plot representation, which then raises
        binning = 'uniform'
    vals, errs = _degenerate(vals, errs, name, binning, zerr, 2)
    bins = OrderedDict([('e', BINNINGS[binning](len(vals) // 2)), ('t', np.arange(3, dtype=float) * 10.0)])
    return Dataset(np.array(vals, dtype=float).reshape(-1, 2), np.array(errs, dtype=float).reshape(-1, 2), bins=bins, name=name, what='flux')


def _datasets(good):
    if _flavour()[0] == '2d-nan':
        ref = _ds2([1.0, 2.0, 3.0, 4.0], [0.1, 0.1, 0.1, 0.1], 'ref')
        if good:
            return ref, _ds2([1.01, 2.02, 2.97, 4.03], [0.1, 0.1, 0.1, 0.1], 'close')
        return ref, _ds2([5.0, float('nan'), 9.0, 0.5], [0.1, 0.1, 0.1, 0.1], 'far')
    ref = _ds([1.0, 2.0, 3.0, 4.0], [0.1, 0.1, 0.1, 0.1], 'ref')
    if good:
        return ref, _ds([1.01, 2.02, 2.97, 4.03], [0.1, 0.1, 0.1, 0.1], 'close')
    return ref, _ds([5.0, 1.0, 9.0, 0.5], [0.1, 0.1, 0.1, 0.1], 'far')


class Built:
    """A test ready to be evaluated, with everything it was constructed from.

    inputs    every object handed to the constructor(s): datasets, dictionaries, lists of (task name, environment
              section) pairs, result lists, templates, the inner test of a correction
    pre       digest of the inputs taken BEFORE the constructor saw them, fingerprint and digest of the test taken
              before it was evaluated: the baseline of the `data` component of the abstract state (see Tracker)
    finish    test -> result (evaluate(), or the wrapping of a failed evaluation)
    siblings  () -> other tests constructed over the very same input objects (other classes of the same family,
              other options, the same class a second time), see apply_op('sibling')"""

    def __init__(self, make, inputs, siblings, finish=None):
        from valjean.fingerprint import fingerprint
        self.inputs = inputs
        with _OneSnapshot():
            before = _dig(inputs)
        self.test = make()
        with _OneSnapshot():
            self.pre = (fingerprint(self.test), _dig(self.test), before)
        self.siblings = siblings
        self.finish = finish or (lambda test: test.evaluate())

    def result(self):
        return self.finish(self.test)


def build_test(kind, good):
    """A freshly constructed test of the given kind on inputs that pass (good) or fail, not evaluated yet."""
    from valjean.gavroche.test import TestEqual, TestApproxEqual, TestResultFailed
    from valjean.gavroche.stat_tests.student import TestStudent
    from valjean.gavroche.stat_tests.bonferroni import TestBonferroni, TestHolmBonferroni
    from valjean.gavroche.stat_tests.chi2 import TestChi2
    from valjean.gavroche.diagnostics.metadata import TestMetadata
    from valjean.gavroche.diagnostics.stats import TestStatsTasks, TestStatsTests, TestStatsTestsByLabels
    from valjean.cosette.task import TaskStatus
    NO_ZERR[0] = kind == 'chi2'
    try:
        return _build_test(kind, good)
    finally:
        NO_ZERR[0] = False


def _build_test(kind, good):
    from valjean.gavroche.test import TestEqual, TestApproxEqual, TestResultFailed
    from valjean.gavroche.stat_tests.student import TestStudent
    from valjean.gavroche.stat_tests.bonferroni import TestBonferroni, TestHolmBonferroni
    from valjean.gavroche.stat_tests.chi2 import TestChi2
    from valjean.gavroche.diagnostics.metadata import TestMetadata
    from valjean.gavroche.diagnostics.stats import TestStatsTasks, TestStatsTests, TestStatsTestsByLabels
    from valjean.cosette.task import TaskStatus
    ref, other = _datasets(good)

    def on_datasets(dsa, dsb):
        return lambda: [TestEqual(dsa, dsb, name='sib-equal'), TestApproxEqual(dsa, dsb, name='sib-approx', rtol=0.01),
                        TestStudent(dsa, dsb, name='sib-student', ndf=20, alpha=0.05), TestChi2(dsa, dsb, name='sib-chi2', alpha=0.05),
                        TestBonferroni(name='sib-bonferroni', alpha=0.05, test=TestStudent(dsa, dsb, name='sib-inner', ndf=20, alpha=0.05))]

    if kind == 'equal':
        same = (_ds if _flavour()[0] == '1d' else _ds2)([1.0, 2.0, 3.0, 4.0], [0.2, 0.2, 0.2, 0.2], 'same')
        second = same if good else other
        return Built(lambda: TestEqual(ref, second, name='equal', description='equality'), [ref, second], on_datasets(ref, second))
    if kind == 'approx':
        return Built(lambda: TestApproxEqual(ref, other, name='approx', description='approx', rtol=0.05), [ref, other], on_datasets(ref, other))
    if kind == 'student':
        return Built(lambda: TestStudent(ref, other, name='student', description='t-test', ndf=20, alpha=0.05), [ref, other], on_datasets(ref, other))
    if kind in ('bonferroni', 'holm'):
        inner = TestStudent(ref, other, name='student', ndf=20, alpha=0.05)
        cls = TestBonferroni if kind == 'bonferroni' else TestHolmBonferroni
        sibs = on_datasets(ref, other)
        return Built(lambda: cls(name=kind, description=kind[:4], alpha=0.05, test=inner), [ref, other, inner],
                     lambda: [inner, TestBonferroni(name='sib-bonferroni', alpha=0.01, test=inner),
                              TestHolmBonferroni(name='sib-holm', alpha=0.01, test=inner)] + sibs())
    if kind == 'chi2':
        return Built(lambda: TestChi2(ref, other, name='chi2', description='chi2', alpha=0.05), [ref, other], on_datasets(ref, other))
    if kind == 'metadata':
        md1 = {'code': 'T4', 'version': 11, 'results': 'ignored'}
        md2 = dict(md1) if good else {'code': 'T4', 'version': 12, 'extra': 'x'}
        dmd = {'first': md1, 'second': md2}
        return Built(lambda: TestMetadata(dmd, name='metadata', description='md'), [dmd, md1, md2],
                     lambda: [TestMetadata(dmd, name='sib-metadata'), TestMetadata(dmd, name='sib-all', exclude=()),
                              TestMetadata({'b': md2, 'a': md1}, name='sib-swapped')])

    def on_sections(trs):
        return lambda: [TestStatsTasks(name='sib-tasks', task_results=trs), TestStatsTests(name='sib-tests', task_results=trs),
                        TestStatsTestsByLabels(name='sib-bylabels', task_results=trs, by_labels=('day',)),
                        TestStatsTestsByLabels(name='sib-bylabels2', task_results=trs, by_labels=('meal', 'day'))]

    if kind == 'stats-tasks':
        trs = [('task_a', {'status': TaskStatus.DONE}), ('task_b', {'status': TaskStatus.DONE, 'result': 3})]
        if not good:
            trs.append(('task_c', {'status': TaskStatus.FAILED}))
        return Built(lambda: TestStatsTasks(name='stats-tasks', description='tasks', task_results=trs), [trs], on_sections(trs))
    if kind in ('stats-tests', 'stats-bylabels'):
        ref2, close = _datasets(True)
        r1 = TestApproxEqual(ref2, close, name='r1', rtol=0.05, labels={'day': 'mon', 'meal': 'lunch'}).evaluate()
        r2 = TestStudent(ref2, close, name='r2', ndf=20, alpha=0.05, labels={'day': 'mon', 'meal': 'dinner'}).evaluate()
        r3 = TestApproxEqual(ref, other, name='r3', rtol=0.05, labels={'day': 'tue'}).evaluate()
        trs = [('task_a', {'status': TaskStatus.DONE, 'result': [r1, r2]}), ('task_b', {'status': TaskStatus.DONE, 'result': [r3]})]
        if kind == 'stats-bylabels' or not good:
            # a task that produced no result at all (its section has no 'result' key): counted as missing by the summary of
            # the tests (hence only in its failing variant), not counted by the per-label summary
            trs.append(('task_c', {'status': TaskStatus.FAILED}))
        if kind == 'stats-tests':
            return Built(lambda: TestStatsTests(name='stats-tests', description='tests', task_results=trs), [trs], on_sections(trs))
        return Built(lambda: TestStatsTestsByLabels(name='stats-bylabels', description='labels', task_results=trs, by_labels=('day',)),
                     [trs], on_sections(trs))
    if kind == 'failed':
        return Built(lambda: TestEqual(ref, other, name='failed', description='raises'), [ref, other], on_datasets(ref, other),
                     finish=lambda test: TestResultFailed(test, 'boom: division by zero'))
    if kind == 'external':
        from valjean.javert.test_external import TestExternal
        from valjean.javert.templates import TableTemplate, PlotTemplate, TextTemplate, CurveElements, SubPlotElements
        table = TableTemplate(ref.bins['e'][:-1].copy(), ref.value.ravel()[:len(ref.bins['e']) - 1].copy(), other.value.ravel()[:len(ref.bins['e']) - 1].copy(),
                              headers=['e', 'ref', 'other'], highlights=[np.zeros(len(ref.bins['e']) - 1, dtype=bool)] * 2 + [np.array([True] + [False] * (len(ref.bins['e']) - 2))])
        curve = CurveElements(values=np.array([1.0, 4.0, 2.0]), bins=[BINNINGS[_flavour()[1] if _flavour()[1] != 'single' else 'uniform'](3)], legend='user curve',
                              errors=np.array([0.1, 0.2, 0.1]))
        plot = PlotTemplate(subplots=[SubPlotElements(curves=[curve], axnames=['x', 'user quantity'])])
        text = TextTemplate('The user ran this comparison elsewhere.\n\n')
        return Built(lambda: TestExternal(text, table, plot, name='external', description='user-defined', success=bool(good)),
                     [text, table, plot],
                     lambda: [TestExternal(text, table, plot, name='sib-external', success=not good), TestExternal(plot, table, name='sib-fewer')])
    raise ValueError(kind)


def build(kind, good):
    """A freshly evaluated result of the given kind on inputs that pass (good) or fail."""
    return build_test(kind, good).result()


class CannotConstruct(Exception):
    """The constructor of the result class cannot be fed from the recorded attributes of an evaluated result."""


def construct_directly(res):
    """The same result built by calling its class directly: every required parameter of the constructor receives the
    attribute of the evaluated result recorded under the parameter's name, every OPTIONAL parameter (one with a
    documented default) is left out."""
    cls = type(res)
    have = vars(res)
    kwargs = {}
    for par in list(inspect.signature(cls.__init__).parameters.values())[1:]:
        if par.kind in (par.VAR_POSITIONAL, par.VAR_KEYWORD) or par.default is not par.empty:
            continue
        if par.name not in have:
            raise CannotConstruct('%s.__init__ parameter %r is not an attribute of the evaluated result' % (cls.__name__, par.name))
        kwargs[par.name] = have[par.name]
    return cls(**kwargs)


def same_object(res, other):
    """The two results are the same class holding the very same attribute objects: everything done to one is what would
    be done to the other (the sequence need not be executed twice)."""
    va, vb = vars(res), vars(other)
    return type(res) is type(other) and va.keys() == vb.keys() and all(va[k] is vb[k] for k in va)


def derive(res, origin):
    """The result as obtained the `origin` way from a fresh evaluation.  Returns (result, redundant): redundant is True
    when it is indistinguishable from the evaluated one (same class, same attribute objects)."""
    if origin == 'evaluate':
        return res, False
    if origin == 'direct':
        made = construct_directly(res)
        return made, same_object(made, res)
    if origin == 'unpickled':
        return pickle.loads(pickle.dumps(res)), False
    raise ValueError(origin)


def obtain(kind, good, origin='evaluate'):
    """(result, redundant, the Built it comes from)"""
    built = build_test(kind, good)
    return derive(built.result(), origin) + (built,)


# ---------------------------------------------------------------------------------------------
# deep snapshot

class Attrs(tuple):
    """((attribute name, digest), ...) of one object, sorted by name."""


def restrict(now, base):
    """`now` without the attributes that the object at the same place in `base` did not have: an attribute ADDED to an
    object after the baseline was taken (a lazy cache) is not a recorded statistic / an input (DESIGN 8.1); a recorded
    attribute that disappears or changes still shows."""
    if now == base:
        return now
    if isinstance(now, Attrs) and isinstance(base, Attrs):
        had = dict(base)
        return Attrs((k, restrict(v, had[k])) for k, v in now if k in had)
    if type(now) is tuple and type(base) is tuple and len(now) == len(base):
        return tuple(restrict(n, b) for n, b in zip(now, base))
    return now


_MEMO = [None]      # id -> (object, digest) while ONE snapshot is being taken: an object reachable twice is digested once


class _OneSnapshot:
    def __enter__(self):
        _MEMO[0] = {}

    def __exit__(self, *exc):
        _MEMO[0] = None


def _dig(obj, depth=0):
    """Structural digest (hashable, comparable) of anything reachable from a result."""
    if isinstance(obj, (bool, int, str, bytes, type(None))):
        return (type(obj).__name__, obj)
    memo = _MEMO[0]
    if memo is None:
        return _dig1(obj, depth)
    got = memo.get(id(obj))
    if got is None:
        got = memo[id(obj)] = (obj, _dig1(obj, depth))
    return got[1]


def _dig1(obj, depth):
    from valjean.eponine.dataset import Dataset
    from valjean.gavroche.test import Test, TestResult
    if depth > 12:
        return ('deep',)
    if isinstance(obj, np.ndarray):
        return ('nd', obj.dtype.str, obj.shape, obj.tobytes())
    if isinstance(obj, np.generic):
        return ('ng', obj.dtype.str, obj.tobytes())
    if isinstance(obj, (bool, int, str, bytes, type(None))):
        return (type(obj).__name__, obj)
    if isinstance(obj, float):
        return ('float', obj.hex())
    if isinstance(obj, Dataset):
        return ('Dataset', _dig(obj.value, depth + 1), _dig(obj.error, depth + 1),
                tuple((k, _dig(v, depth + 1)) for k, v in obj.bins.items()), obj.name, obj.what)
    if isinstance(obj, TestResult):
        inner = (_stats(obj, depth + 1), _dig(obj.test, depth + 1))      # digested before its verdict is read
        return ('TestResult', type(obj).__name__) + inner + (bool(obj),)
    if isinstance(obj, Test):
        return ('Test', type(obj).__name__, Attrs(sorted((k, _dig(v, depth + 1)) for k, v in vars(obj).items())))
    if isinstance(obj, dict):
        return ('dict', tuple(sorted(((repr(k), _dig(v, depth + 1)) for k, v in obj.items()))))
    if isinstance(obj, (list, tuple)):
        return (type(obj).__name__, tuple(_dig(v, depth + 1) for v in obj))
    if isinstance(obj, (set, frozenset)):
        return ('set', tuple(sorted(repr(_dig(v, depth + 1)) for v in obj)))
    if hasattr(obj, 'name') and hasattr(obj, 'value') and type(type(obj)).__name__ == 'EnumType':
        return ('enum', type(obj).__name__, obj.name)
    if hasattr(obj, '__dict__'):
        return ('obj', type(obj).__name__, Attrs(sorted((k, _dig(v, depth + 1)) for k, v in vars(obj).items())))
    return ('repr', type(obj).__name__, str(obj))


def _stats(res, depth=0):
    """Recorded statistics of a result: everything it stores except the test; classifications as the names of
    the NON-EMPTY classes (an empty class added by a cache is not a recorded statistic, DESIGN 8.1)."""
    out = []
    for k, v in sorted(vars(res).items()):
        if k == 'test':
            continue
        if k == 'classify' and isinstance(v, dict):
            out.append((k, tuple(sorted((repr(s), tuple(sorted(str(n.name) for n in names))) for s, names in v.items() if names))))
        else:
            out.append((k, _dig(v, depth + 1)))
    return Attrs(out)


def structure(res, inputs=None):
    """Structural digest of the live object: (recorded statistics = every attribute but the test, inputs = the test with
    its parameters and datasets + its fingerprint + the objects the test was constructed from: key sets and contents of
    dictionaries / environment sections, lists, dataset bytes).  Reads attributes only; does not read the verdict."""
    from valjean.fingerprint import fingerprint
    with _OneSnapshot():
        return _stats(res), (fingerprint(res.test), _dig(res.test), _dig(inputs))


def _pickled(res):
    try:
        return pickle.dumps(res)
    except Exception:   # pylint: disable=broad-except
        return None


SAME = ('pickle-as-baseline',)


class Tracker:
    """Numbers the abstract states seen during one operation sequence; 0 = the state of the untouched result.

    The projection of a result is  verdict, stats = (digest of every recorded attribute, digest of what its pickle loads
    back to), data = (digest of the test / datasets + fingerprint + the objects the test was constructed from, the same
    of what the pickle loads back to).
    Baselines (number 0): of the statistics, the result as obtained; of the data, the inputs as they were BEFORE the test
    was constructed and the test as it was BEFORE it was evaluated (Built.pre) -- an evaluation that edits what it was
    given shows at the very first event.
    Fast path: when the pickle of the result (and of the input objects) is byte-for-byte the pickle taken from the
    untouched result, the whole projection is that of the untouched result; the structural digests are computed when the
    bytes differ (a changed byte is not yet a changed statistic: dictionary order, an empty class added by a cache ...)
    and, whatever the bytes, at the last event of a sequence (state a custom pickling could hide)."""

    def __init__(self, res, built=None):
        self.inputs = built.inputs if built is not None else None
        got = structure(res, self.inputs)     # before anything, the pickling below included, has looked at the result
        pre = built.pre if built is not None else got[1]
        self.base = (got[0], pre)
        self.bytes0 = _pickled(res)
        self.ibytes0 = _pickled(self.inputs)
        self._loaded0 = None
        self.seen = {'stats': [(self.base[0], SAME)], 'data': [(pre, SAME)]}
        # the untouched result (fast path): its inputs may already differ from the baseline
        self.first = (0, self._number('data', (restrict(got[1], pre), SAME)))

    def _number(self, what, value):
        lst = self.seen[what]
        for i, v in enumerate(lst):
            if v == value:
                return i
        lst.append(value)
        return len(lst) - 1

    @staticmethod
    def _loaded(data):
        try:
            return structure(pickle.loads(data))
        except Exception as ex:   # pylint: disable=broad-except
            return (('unloadable', type(ex).__name__),) * 2

    def look(self, obj, thorough=False, read_verdict=True):
        """(verdict, stats number, data number) of `obj` (the live result or a duplicate of it).  The verdict is read
        FIRST, so that a bool() that edits the result shows up in the same observation."""
        verdict = bool(obj) if read_verdict else None
        data = _pickled(obj)
        same_bytes = data is not None and data == self.bytes0
        if same_bytes and not thorough and _pickled(self.inputs) == self.ibytes0:
            return (verdict,) + self.first
        live = structure(obj, self.inputs)
        live = tuple(restrict(live[k], self.base[k]) for k in (0, 1))
        via = (SAME, SAME)
        if not same_bytes and data is not None and self.bytes0 is not None:
            if self._loaded0 is None:
                self._loaded0 = self._loaded(self.bytes0)
            got = self._loaded(data)
            got = tuple(restrict(got[k], self._loaded0[k]) for k in (0, 1))
            via = tuple(SAME if got[k] == self._loaded0[k] else ('pickle-loads-to', got[k]) for k in (0, 1))
        elif (data is None) != (self.bytes0 is None):
            via = (('picklable', data is not None),) * 2
        return verdict, self._number('stats', (live[0], via[0])), self._number('data', (live[1], via[1]))


def real_keys(res, kind):
    """Abstract key set of the dictionary behind classify (ObserveImpl): OK / KO / OTHER."""
    if kind not in CLASSIFIED:
        return []
    from valjean.cosette.task import TaskStatus
    from valjean.gavroche.diagnostics.stats import TestOutcome
    # KO: the failing statuses present in the failing variant of the inputs (build_test)
    ok, ko = (TaskStatus.DONE, (TaskStatus.FAILED,)) if kind == 'stats-tasks' else (TestOutcome.SUCCESS, (TestOutcome.FAILURE, TestOutcome.MISSING))
    return sorted({'OK' if s == ok else 'KO' if s in ko else 'OTHER' for s in res.classify.keys()})


# ---------------------------------------------------------------------------------------------
# the read-only operations

# Introspection of the public interface: every public property is read, every public method that can be called without
# argument is called (iterables consumed), methods with required parameters only when ARGS says what to pass (arguments
# taken from the result itself, never mutated by contract).  DENY: names that are not read-only operations of the object.
RESULT_DENY = frozenset()
TEST_DENY = frozenset({'evaluate'})          # evaluating again is the operation `reeval`
ARGS = {
    'test_alpha': lambda res: [(t,) for t in getattr(res, 'tstud', ())],       # TestResultStudent.test_alpha(tstud)
}
ORACLES = ('oracles', 'test_pvalue', 'test_alpha')


def _consume(value):
    if inspect.isgenerator(value) or isinstance(value, (map, filter, zip)):
        return list(value)
    return value


def read_members(obj, deny=frozenset(), only=None):
    """Read every public member of `obj` (see above); returns the names read."""
    done = []
    cls = type(obj)
    for name in sorted(dir(cls)):
        if name.startswith('_') or name in deny or (only is not None and name not in only):
            continue
        static = inspect.getattr_static(cls, name)
        if isinstance(static, property) or not callable(getattr(obj, name)):
            getattr(obj, name)
            done.append(name)
            continue
        bound = getattr(obj, name)
        try:
            required = [q for q in inspect.signature(bound).parameters.values()
                        if q.default is q.empty and q.kind not in (q.VAR_POSITIONAL, q.VAR_KEYWORD)]
        except (TypeError, ValueError):
            continue
        if not required:
            _consume(bound())
            done.append(name)
        elif name in ARGS:
            for args in ARGS[name](obj):
                _consume(bound(*args))
            done.append(name)
    return done


def _status_first(classify):
    """Success member(s) of the enum(s) the keys of a classification dictionary belong to."""
    from valjean.cosette.task import TaskStatus
    from valjean.gavroche.diagnostics.stats import TestOutcome
    firsts = []
    for enum, first in ((TaskStatus, TaskStatus.DONE), (TestOutcome, TestOutcome.SUCCESS)):
        if any(isinstance(k, enum) for k in classify):
            firsts.append(first)
    return firsts


def _with_nested(res):
    """The result and the results it stores as attributes (the first test of a Bonferroni correction ...)."""
    from valjean.gavroche.test import TestResult
    return [res] + [v for _, v in sorted(vars(res).items()) if isinstance(v, TestResult)]


def use_siblings(built, turn=0):
    """Other tests constructed over the SAME input objects (Built.siblings: the other classes of the family, other
    options, the same class again) are evaluated, in an order that rotates with `turn`, and their results looked at
    (verdict, oracles; one of them represented as a table).  Nothing of it may change what the result under observation
    shows, its inputs, or what evaluating its test again gives.  A sibling that cannot be evaluated on these inputs
    (a summary of tests over sections that do not hold test results ...) is skipped."""
    from valjean.javert import representation as rp
    from valjean.javert.verbosity import Verbosity
    sibs = built.siblings()
    turn %= len(sibs)
    done = 0
    for k, sib in enumerate(sibs[turn:] + sibs[:turn]):
        try:
            out = sib.evaluate()
            bool(out)
            read_members(out, RESULT_DENY, only=ORACLES)
            if k == 0:
                rp.TableRepresenter()(out, Verbosity((turn + 2) % 6))
            done += 1
        except Exception:   # pylint: disable=broad-except
            continue
    return done


def apply_op(res, kind, op, verb, origin='evaluate', built=None, turn=0):
    """Apply one read-only operation -- the whole family of calls the name stands for; returns the duplicate produced
    (copy / pickle / reeval) or None."""
    from valjean.javert import representation as rp, table_repr, plot_repr
    from valjean.javert.verbosity import Verbosity
    from valjean.javert.rst import Rst
    from valjean.fingerprint import fingerprint
    if op == 'bool':
        bool(res)
        if res:
            pass
        _ = not res
        res.__bool__()
    elif op == 'oracles':
        for one in _with_nested(res):
            read_members(one, RESULT_DENY, only=ORACLES)
    elif op == 'counts':
        from valjean.gavroche.diagnostics.stats import classification_counts
        classify = getattr(res, 'classify', None)
        if isinstance(classify, dict):
            for first in _status_first(classify):
                classification_counts(classify, first)
            for status in list(classify):
                status in classify, classify.get(status), len(classify[status])      # pylint: disable=expression-not-assigned
        for one in _with_nested(res):
            read_members(one, RESULT_DENY | frozenset(ORACLES))
        vars(res), repr(res), str(res), res == res      # pylint: disable=expression-not-assigned,comparison-with-itself
    elif op == 'data':
        test = res.test
        b''.join(bytes(chunk) for chunk in test.data())
        read_members(test, TEST_DENY)
        repr(test), str(test)      # pylint: disable=expression-not-assigned
        for dset in [getattr(test, 'dsref', None)] + list(getattr(test, 'datasets', ())):
            if dset is not None:
                str(dset), repr(dset)      # pylint: disable=expression-not-assigned
    elif op == 'table':
        level = Verbosity(verb)
        rp.Representation(rp.FullTableRepresenter(), verbosity=level)(res)
        rp.TableRepresenter()(res, level)
        fun = getattr(table_repr, 'repr_' + type(res).__name__.lower(), None)
        if fun is not None:
            fun(res, level)
    elif op == 'plot':
        level = Verbosity(verb)
        rp.Representation(rp.PlotRepresenter(), verbosity=level)(res)
        rp.FullPlotRepresenter()(res, level)
        rp.PlotRepresenter(post='none')(res, level)
        fun = getattr(plot_repr, 'repr_' + type(res).__name__.lower(), None)
        if fun is not None:
            fun(res, level)
    elif op == 'full':
        level = Verbosity(verb)
        rp.Representation(rp.FullRepresenter(), verbosity=level)(res)
        rp.Representation(rp.FullRepresenter(), verbosity=lambda _result: level)(res)
        rp.Representation(rp.EmptyRepresenter(), verbosity=level)(res)
        rp.ExternalRepresenter()(res, level)
    elif op == 'rst':
        rst = Rst(rp.Representation(rp.FullRepresenter(), verbosity=Verbosity(verb)))
        '\n'.join(str(line) for line in rst.format_result(res))
    elif op == 'draw':
        import matplotlib.pyplot as plt
        from valjean.javert.mpl import MplPlot
        from valjean.javert.templates import PlotTemplate
        for template in rp.Representation(rp.FullRepresenter(), verbosity=Verbosity(verb))(res):
            if isinstance(template, PlotTemplate):
                fig = MplPlot(template).draw()[0]
                plt.close(fig)
    elif op == 'fingerprint':
        fingerprint(res.test)
    elif op == 'copy':
        copy.copy(res)
        return copy.deepcopy(res)
    elif op == 'pickle':
        pickle.loads(pickle.dumps(res, protocol=2))
        return pickle.loads(pickle.dumps(res))
    elif op == 'sibling':
        if built is None:
            raise ValueError('the sibling operation needs the inputs the test was constructed from')
        use_siblings(built, turn)
    elif op == 'reeval':
        if kind == 'failed':
            return copy.deepcopy(res)        # a failed evaluation has no evaluate() of its own to repeat
        return derive(res.test.evaluate(), origin)[0]       # the test evaluated again, the result obtained the same way
    else:
        raise ValueError('unknown operation %r' % (op,))
    return None


_REDUNDANT = set()


# ---- process- / thread-global state a read-only operation could leak into (and a later evaluation depend on)
_RC0 = [None, None, None]


def global_state():
    import sys
    import warnings
    import locale
    import decimal
    state = {'np.geterr': tuple(sorted(np.geterr().items())), 'np.get_printoptions': repr(sorted(np.get_printoptions().items())),
             'warnings.filters': len(warnings.filters), 'os.getcwd': os.getcwd(), 'locale.getlocale': tuple(locale.getlocale()),
             'decimal.prec': decimal.getcontext().prec}
    mpl = sys.modules.get('matplotlib')
    if mpl is not None:
        if _RC0[0] is None:
            _RC0[0] = dict(mpl.rcParams)
        ids = hash(tuple(map(id, dict.values(mpl.rcParams))))      # identity of every value: cheap; the values are digested when it moves
        if _RC0[1] != ids:
            _RC0[1:] = [ids, zlib.crc32(repr(list(dict.values(mpl.rcParams))).encode())]
        state['matplotlib.rcParams'] = _RC0[2]
    return state


def restore_global(state, printopts):
    """Put back what a sequence leaked, so that the NEXT sequence (and the harness) is not judged under it."""
    import sys
    import decimal
    now = global_state()
    if now['np.geterr'] != state['np.geterr']:
        np.seterr(**dict(state['np.geterr']))
    if now['np.get_printoptions'] != state['np.get_printoptions']:
        np.set_printoptions(**printopts)
    if now['os.getcwd'] != state['os.getcwd']:
        os.chdir(state['os.getcwd'])
    if now['decimal.prec'] != state['decimal.prec']:
        decimal.getcontext().prec = state['decimal.prec']
    if now.get('matplotlib.rcParams') != state.get('matplotlib.rcParams') and 'matplotlib.rcParams' in state:
        sys.modules['matplotlib'].rcParams.update(_RC0[0])


def reevaluate(res, kind, origin, tracker, wrapper=True):
    """The SAME test object evaluated again on the same datasets (fresh test.evaluate(), and through the wrapper of
    EvalTestTask), the result obtained the same way: (projection of the duplicate, what happened).  A re-evaluation that
    raises where the first one returned is a result of another class: the statistics are not the recorded ones."""
    if kind == 'failed':
        return tracker.look(copy.deepcopy(res)), ''        # a failed evaluation has no evaluate() of its own to repeat
    from valjean.gavroche.eval_test_task import actually_eval_test
    try:
        made = res.test.evaluate()
    except Exception as ex:   # pylint: disable=broad-except
        import logging
        logging.disable(logging.CRITICAL)
        try:
            wrapped = actually_eval_test(res.test)
        finally:
            logging.disable(logging.NOTSET)
        return ((bool(wrapped), tracker._number('stats', ('re-evaluation-raised', type(ex).__name__, type(wrapped).__name__)), 0),   # pylint: disable=protected-access
                'test.evaluate() raises %s: %s (EvalTestTask records a %s, verdict %r, instead of a %s)'
                % (type(ex).__name__, ex, type(wrapped).__name__, bool(wrapped), type(res).__name__))
    look = tracker.look(derive(made, origin)[0])
    if type(made) is not type(res) and origin == 'evaluate':
        return (look[0], tracker._number('stats', ('class', type(made).__name__)), look[2]), 'the re-evaluation returns a %s instead of a %s' % (   # pylint: disable=protected-access
            type(made).__name__, type(res).__name__)
    if wrapper and look == (look[0], 0, 0):
        wrapped = actually_eval_test(res.test)
        if type(wrapped) is not type(made):
            return ((bool(wrapped), tracker._number('stats', ('class', type(wrapped).__name__)), 0),   # pylint: disable=protected-access
                    'through EvalTestTask the re-evaluation gives a %s instead of a %s' % (type(wrapped).__name__, type(made).__name__))
        look = tracker.look(derive(wrapped, origin)[0])
    return look, ''


class Redundant(Exception):
    """The result obtained this way is the very object graph evaluate() returned: covered by the 'evaluate' origin."""


def run_sequence(kind, good, ops, origin='evaluate', skip_redundant=False):
    """Obtain a fresh result and apply ops.  Returns the list of events
    dict(op, verb, verdict, stats, data, dupVerdict, dupStats, dupData, keys, exc) with digest NUMBERS
    (0 = value of the untouched result)."""
    known = (kind, bool(good), origin, FLAVOUR[0])
    if skip_redundant and known in _REDUNDANT:
        raise Redundant()
    start = global_state()
    printopts = np.get_printoptions()
    try:
        return _run_sequence(kind, good, ops, origin, skip_redundant, known)
    finally:
        restore_global(start, printopts)


def _run_sequence(kind, good, ops, origin, skip_redundant, known):
    res, redundant, built = obtain(kind, good, origin)
    if redundant and skip_redundant:
        _REDUNDANT.add(known)      # a property of the result class and of the way of obtaining it, not of the sequence
        raise Redundant()
    tracker = Tracker(res, built)
    first = tracker.look(res, thorough=not ops)
    events = [dict(op='evaluate', verb=NOVERB, verdict=first[0], stats=first[1], data=first[2],
                   dupVerdict=first[0], dupStats=0, dupData=0, keys=real_keys(res, kind), exc='', glob={}, note='', implicit=False)]
    dup = (first[0], 0, 0)
    # after every history the test is evaluated AGAIN (one more read-only operation, `reeval`, of the trace vocabulary)
    todo = list(ops) + [dict(op='reeval', verb=NOVERB, implicit=True)]
    for n, op in enumerate(todo):
        exc = note = ''
        before = after if n else global_state()      # the snapshot taken after the previous operation (the harness' own look in between is charged to this one)
        try:
            if op['op'] == 'reeval':
                dup, note = reevaluate(res, kind, origin, tracker, wrapper=bool(op.get('implicit')))
            else:
                made = apply_op(res, kind, op['op'], op['verb'], origin, built, n)
                if made is not None:
                    dup = tracker.look(made)
        except Exception as ex:   # pylint: disable=broad-except
            exc = '%s: %s' % (type(ex).__name__, ex)
        after = global_state()
        now = tracker.look(res, thorough=n == len(ops) - 1)
        events.append(dict(op=op['op'], verb=op['verb'], verdict=now[0], stats=now[1], data=now[2],
                           dupVerdict=dup[0], dupStats=dup[1], dupData=dup[2], keys=real_keys(res, kind), exc=exc,
                           glob={k: [str(before[k]), str(after[k])] for k in after if after[k] != before.get(k, after[k])},
                           note=note, implicit=bool(op.get('implicit'))))
    return events


def _suffix(origin):
    return '' if origin == 'evaluate' else '/' + origin


def judge(kind, good, events, origin='evaluate'):
    """First event that is not a stuttering step of the abstract state TLC holds for this behaviour
    (abs = AbsOf(kind, origin, good) in every state): None or (event index, key, text)."""
    how = {'evaluate': 'the evaluation', 'direct': 'the direct construction', 'unpickled': 'the unpickling'}[origin]
    for n, ev in enumerate(events):
        what = None
        if ev['verdict'] != good:
            what = ('verdict-changed' if n > 0 else 'verdict-wrong', 'bool(result) is %r, was %r' % (ev['verdict'], good))
        elif ev['stats'] != 0:
            what = ('statistics-changed', 'the recorded statistics (attributes of the result / what its pickle loads back to) differ from '
                    'those right after %s' % how)
        elif ev['data'] != 0 and n == 0:
            what = ('inputs-changed-by-evaluation', 'the objects the test was constructed from (datasets, dictionaries / environment sections, '
                    'lists; key sets included) or its parameters differ from what they were before the test was constructed and evaluated')
        elif ev['data'] != 0:
            what = ('inputs-changed', 'the test parameters / the objects it was constructed from (datasets, dictionaries / environment '
                    'sections, lists) differ from what they were before %s' % how)
        elif (ev['dupVerdict'], ev['dupStats'], ev['dupData']) != (good, 0, 0):
            what = ({'copy': 'copy-differs', 'pickle': 'pickle-differs', 'reeval': 'not-repeatable'}.get(ev['op'], 'duplicate-differs'),
                    'the %s of the result has verdict %r / statistics #%d / inputs #%d' % (ev['op'], ev['dupVerdict'], ev['dupStats'], ev['dupData']))
        if what and ev['op'] == 'reeval' and what[0] == 'not-repeatable':
            # the new dimension: which re-evaluation, and the leaked global state that explains it
            leak = [(k, e) for k, e in enumerate(events[:n + 1]) if 'np.geterr' in e.get('glob', {})]
            if leak:
                k, e = leak[0]
                what = (what[0], what[1] + '; %s; cause: np.geterr() of the thread changed from %s to %s during operation %d (%s) and was not restored'
                        % (ev.get('note') or 'the re-evaluation differs', e['glob']['np.geterr'][0], e['glob']['np.geterr'][1], k, e['op']))
                tail = '/global-state/np.geterr'
            else:
                what = (what[0], what[1] + ('; ' + ev['note'] if ev.get('note') else ''))
                tail = '/re-evaluation' if ev.get('implicit') or ev.get('note') else ''
            what = what + (tail,)
        if what:
            opname = ev['op'] + ('' if ev['verb'] == NOVERB else '(verbosity %d)' % ev['verb'])
            key = 'C13/%s/%s%s%s' % (what[0], kind, _suffix(origin), '/sibling-test' if ev['op'] == 'sibling' else what[2] if len(what) > 2 else '')
            if n == 0:
                return n, key, 'right after %s (verdict read once): %s' % (how, what[1])
            if ev.get('implicit'):
                opname = 'evaluating the same test again at the end of the history'
            return n, key, 'result obtained by %s, after %s (operation %d of %s): %s' % (
                how[4:], opname, n, [e['op'] for e in events[1:]], what[1])
    return None


def to_trace(tid, kind, good, events, origin='evaluate'):
    return dict(id=tid, kind=kind, origin=origin, good=good,
                events=[{k: ev[k] for k in ('op', 'verb', 'verdict', 'stats', 'data', 'dupVerdict', 'dupStats', 'dupData')} for ev in events])


def validate_batch(traces, wd, name='trace'):
    cj = tlc.json_dump(os.path.join(wd, name + '_cases.json'), traces)
    oj = os.path.join(wd, name + '_out.json')
    nsteps = sum(1 + len(t['events']) for t in traces)
    cfg = tlc.write_cfg(os.path.join(wd, name + '.cfg'), spec='TSpec', constants=dict(NSteps=nsteps), deadlock=False, postcondition='Post')
    res = tlc.run(TRACE, cfg, workers=1, env=dict(VERIF_CASES=cj, VERIF_OUT=oj), timeout=1800, coverage=False)
    if not res.ok:
        raise tlc.MachineryError('ObserveTrace %s: %s\n%s' % (name, res.violation, res.out[-2500:]))
    with open(oj) as f:
        bad = json.load(f)['bad']
    return res, bad


TWIN = 10 ** 6
WITNESSES = ('W_ReprThenBool', 'W_AllVerbs', 'W_OtherOrigin', 'W_SiblingThenReeval')


def corrupted_twins(batch):
    """Copies of recorded traces with one recorded field of one event corrupted."""
    twins = {}
    for c in batch:
        if len(c['events']) < 4 or any(e['stats'] or e['data'] for e in c['events']):
            continue
        for k, (field, value) in enumerate([('verdict', None), ('stats', 1), ('data', 1), ('dupVerdict', None), ('op', 'write')]):
            t = copy.deepcopy(c)
            t['id'] = TWIN + k
            ev = t['events'][2]
            ev[field] = (not ev[field]) if value is None else value
            if field == 'stats':
                for later in t['events'][3:]:
                    later['stats'] = 1           # the statistics stay changed: exactly one illegal step
            twins[TWIN + k] = t
        break
    return twins


def replay_case(case):
    """Re-run an operation sequence on a fresh result and let TLC (ObserveTrace) judge the recorded trace."""
    FLAVOUR[0] = case.get('flavour', '1d')
    origin = case.get('origin', 'evaluate')
    try:
        events = run_sequence(case['kind'], case['good'], case['ops'], origin)
    finally:
        FLAVOUR[0] = '1d'
    wd = tlc.workdir('c13r')
    _, bad = validate_batch([to_trace(1, case['kind'], case['good'], events, origin)], wd, 'replay')
    if bad:
        n = min(b[1] for b in bad) - 1
        j = judge(case['kind'], case['good'], events, origin)
        return False, 'ObserveTrace rejects event %d (%s), clauses %s: %s' % (
            n, events[n]['op'], sorted(b[2] for b in bad if b[1] == n + 1), j[2] if j else events[n])
    return True, 'trace of %d operations accepted by ObserveTrace' % (len(events) - 1)


# ---------------------------------------------------------------------------------------------

def _consts(verbs, maxlen, kinds=None, origins=None, verbops=None, **kw):
    d = dict(Kinds=frozenset(kinds or KINDS), Origins=frozenset(origins or ORIGINS), AlwaysBad=frozenset(ALWAYS_BAD),
             PlainOps=frozenset(PLAIN_OPS), VerbOps=frozenset(verbops or VERB_OPS), Verbs=frozenset(verbs), MaxLen=maxlen)
    d.update(kw)
    return d


def _impl_consts(verbs, maxlen, inserting, kinds=None, origins=None):
    return _consts(verbs, maxlen, kinds, origins, Classified=frozenset(CLASSIFIED), Inserting=inserting)


def _ops_of(hist):
    return [dict(op=o['op'], verb=o['verb']) for o in hist]


def _hkey(kind, good, ops, origin=None):
    key = (kind, bool(good), tuple((o['op'], o['verb']) for o in ops))
    return key if origin is None else key + (origin,)


class _Later:
    """TLC runs whose configuration does not depend on anything computed here are started at once, a few at a time, and
    collected (in a fixed order) when their output is needed: the JVMs work while Python executes the sequences."""

    def __init__(self, parallel=3):
        self.pool = ThreadPoolExecutor(max_workers=parallel)
        self.futures = {}

    def start(self, name, module, cfg, **kw):
        kw.setdefault('workers', 4)
        self.futures[name] = self.pool.submit(tlc.run, module, cfg, **kw)

    def get(self, name):
        return self.futures.pop(name).result()

    def close(self):
        for fut in self.futures.values():
            fut.cancel()
        self.pool.shutdown(wait=True)


def _read_predictions(dump):
    """ObserveImpl dump for the classified kinds: (kind, good, ops) -> predicted key set after the last op (the way
    the summary is obtained does not matter to the dictionary)."""
    pred = {}
    for st in read_dump_fast(dump):
        if st['pc'] == 'ready':
            pred[_hkey(st['kind'], st['good'], st['hist'])] = sorted(st['keys'])
    os.remove(dump + '.dump')
    return pred


class _Runner:
    """Executes sequences, reports violations / drift, collects traces for TLC."""

    def __init__(self, ctx, fixed_pred, asis_pred):
        self.ctx = ctx
        self.fixed_pred = fixed_pred
        self.asis_pred = asis_pred
        self.n = 0
        self.redundant = 0
        self.raised = {}
        self.unbuildable = {}
        self.drifted = set()
        self.globs = {}

    def run(self, kind, good, ops, source, flavour='1d', origin='evaluate'):
        """Events of the sequence, or None when the result obtained the `origin` way is the very object graph returned
        by evaluate() (the same sequence on the 'evaluate' origin is the same execution) or cannot be built that way."""
        ctx = self.ctx
        FLAVOUR[0] = flavour
        try:
            events = run_sequence(kind, good, ops, origin, skip_redundant=True)
        except Redundant:
            self.redundant += 1
            return None
        except CannotConstruct as ex:
            self.unbuildable.setdefault((kind, origin), str(ex))
            return None
        finally:
            FLAVOUR[0] = '1d'
        self.n += 1
        case = dict(kind=kind, good=bool(good), ops=ops, flavour=flavour, origin=origin)
        j = judge(kind, good, events, origin)
        if j:
            ctx.violation(j[1], '%s [%s]' % (j[2], source), case, module=MODULE)
        for k, ev in enumerate(events):
            for name, (was, now) in sorted(ev.get('glob', {}).items()):
                seen = self.globs.setdefault((name, ev['op']), [0, ''])
                seen[0] += 1
                seen[1] = seen[1] or ('%s changed from %s to %s during operation %d (%s) of %s on a %s result (%s, flavour %s)%s'
                                      % (name, was[:80], now[:80], k, ev['op'], [o['op'] for o in ops], kind, origin, flavour,
                                         '' if j else '; no consequence on verdict / statistics / re-evaluation observed'))
        for ev in events:
            if ev['exc'] and ev['op'] in DRAW_OPS and 'decr' in flavour:
                continue      # the plotting back-end refuses decreasing edges (the Dataset accepts them): expected, not reported each time
            if ev['exc']:
                self.raised.setdefault((kind, ev['op'], ev['exc'].split(':')[0]), ev['exc'])
        if kind in CLASSIFIED and not j and flavour.split('+')[0] == '1d':
            # implementation-level model: predicted key set of the dictionary after every prefix
            for k in range(1, len(events)):
                hk = _hkey(kind, good, ops[:k])
                if hk in self.fixed_pred and events[k]['keys'] != self.fixed_pred[hk]:
                    if self.asis_pred.get(hk) == events[k]['keys']:
                        tag = (kind, 'as-is')
                        text = ('ObserveImpl: key set of classify after %s is %s as in the inserting (as-found) variant, the '
                                'non-inserting model predicts %s' % ([o['op'] for o in ops[:k]], events[k]['keys'], self.fixed_pred[hk]))
                    else:
                        tag = (kind, 'other')
                        text = ('ObserveImpl: key set of classify after %s is %s, model predicts %s'
                                % ([o['op'] for o in ops[:k]], events[k]['keys'], self.fixed_pred[hk]))
                    if tag not in self.drifted:
                        self.drifted.add(tag)
                        ctx.drift(text)
                    break
        return events


def random_ops(rng, n, draw=0.04):
    ops = []
    for _ in range(n):
        x = rng.random()
        if x < draw:
            ops.append(dict(op=rng.choice(DRAW_OPS), verb=rng.randint(0, 5)))
        elif x < 0.55:
            ops.append(dict(op=rng.choice(VERB_OPS), verb=rng.randint(0, 5)))
        else:
            ops.append(dict(op=rng.choice(PLAIN_OPS), verb=NOVERB))
    return ops


def run_c13(ctx):
    ctx.rule('spec->code: every maximal operation sequence of the states dumped by TLC for Observe.tla (all sequences over 9 '
             'accessor / duplication / sibling-test operations and 4 representations x verbosities, up to the length bound; the matplotlib drawing as a '
             'fifth representation in a plan of its own) and the longer ones TLC simulates are executed on a fresh real result of each of the '
             '12 kinds, on passing and on failing inputs, obtained in each of the ways TLC enumerates (evaluate(), direct construction with the '
             'optional constructor arguments left to their defaults, unpickled; a directly constructed result that is the very object graph '
             'evaluate() returned is not executed a second time), with a deep snapshot after every operation compared with the (constant) '
             'abstract state of the TLC states; the snapshot of the inputs (every object handed to the constructor: datasets, dictionaries / '
             'environment sections incl. key sets, result lists, templates, inner test) has its baseline taken before construction and evaluation; '
             'the operation sibling evaluates and reads 3-7 other tests built over the same input objects, in rotating order.  An operation name is bound to the whole family of public read-only calls of that sort '
             '(documented accessors by name, the other public properties / argument-less methods of the result and of its test by '
             'introspection, all representer classes).  design level: ObserveImpl.tla (key set of the defaultdict behind classify) is '
             'checked to refine Observe; the as-found inserting variant is refuted by TLC and its counterexample replayed.  code->spec: '
             'seeded random sequences of 4-12 operations recorded and walked by TLC through ObserveTrace.tla.  distinct_nontrivial counts '
             'distinct (kind, origin, inputs, sequence) executions containing at least one representation followed by another operation.')
    ctx.assume('snapshot = verdict, every attribute the result stores (classifications as names of the non-empty classes), what its pickle '
               'loads back to, test parameters, dataset bytes, fingerprint and the objects handed to the constructor; attributes ADDED to the result / its test by lazy caches after '
               'the result was obtained are not part of it (DESIGN 8.1), a recorded attribute that is overwritten is; 1-d datasets of 4 bins (2-d with an undefined cell in part of '
               'the random sequences)')
    ctx.assume('an operation that raises is not a change of the result: it is reported as drift, not as a violation')
    wd = tlc.workdir('c13')
    quick = ctx.quick
    verbs_main = [0, 2, 4]
    len_main = ctx.pick(2, 3)
    depth = ctx.pick(8, 12)
    nsim = ctx.pick(150, 1500)

    # ---- every TLC run that does not depend on the executions below is configured and started now
    later = _Later()
    only_eval = ['evaluate']
    for name, inserting in (('impl-fixed', False), ('impl-asis', True)):
        cfg = tlc.write_cfg(os.path.join(wd, name + '.cfg'), constants=_impl_consts(verbs_main, len_main, inserting, CLASSIFIED, only_eval), deadlock=False)
        later.start(name, IMPL, cfg, dump=os.path.join(wd, name), coverage=False)
    cfg = tlc.write_cfg(os.path.join(wd, 'refine.cfg'), constants=_impl_consts(range(6), ctx.pick(2, 3), False),
                        invariants=['DeterministicImpl', 'VerdictIsTruthImpl'], properties=['Refines', 'RefinesInit', 'RefinesNext', 'ReadOnlyImpl', 'KeysGrow'], deadlock=False)
    later.start('refine', IMPL, cfg, timeout=1500, workers=ctx.pick(4, None))
    cfg = tlc.write_cfg(os.path.join(wd, 'selftest.cfg'), constants=_impl_consts([0, 2], 3, True, CLASSIFIED, only_eval),
                        properties=['RefinesInit', 'RefinesNext'], deadlock=False)
    later.start('selftest', IMPL, cfg, coverage=False, workers=1)
    cfg = tlc.write_cfg(os.path.join(wd, 'witkeys.cfg'), constants=_impl_consts([0, 2], 2, True, CLASSIFIED, only_eval), invariants=['W_KeysInserted'],
                        deadlock=False)
    later.start('witkeys', IMPL, cfg, coverage=False)
    # spec -> code plans: (name, verbosities, length, origins, representations)
    plans = [('main', verbs_main, len_main, ['evaluate', 'direct'], VERB_OPS),
             ('allverbs', list(range(6)), ctx.pick(1, 2), ctx.pick(ORIGINS, ['evaluate', 'direct']), VERB_OPS)]
    if not quick:
        plans.append(('unpickled', verbs_main, 2, ['unpickled'], VERB_OPS))
    plans.append(('draw', ctx.pick([1, 4], list(range(6))), 1, ctx.pick(['evaluate'], ORIGINS), DRAW_OPS))
    for name, verbs, maxlen, origins, verbops in plans:
        cfg = tlc.write_cfg(os.path.join(wd, name + '.cfg'), constants=_consts(verbs, maxlen, None, origins, verbops),
                            invariants=['Deterministic', 'VerdictIsTruth'], properties=['ReadOnly'], deadlock=False)
        later.start(name, SPEC, cfg, dump=os.path.join(wd, name), timeout=1500, workers=ctx.pick(4, None))
    for wit in WITNESSES:
        cfg = tlc.write_cfg(os.path.join(wd, wit + '.cfg'), constants=_consts([0, 2, 4], 2, ['equal', 'stats-tasks']), invariants=[wit], deadlock=False)
        later.start(wit, SPEC, cfg, coverage=False)
    cfg = tlc.write_cfg(os.path.join(wd, 'sim.cfg'), constants=_consts(range(6), depth, None, ORIGINS, VERB_OPS + DRAW_OPS),
                        invariants=['Deterministic', 'VerdictIsTruth'], properties=['ReadOnly'], deadlock=False)
    simprefix = os.path.join(wd, 'simdir', 'beh')
    os.makedirs(os.path.dirname(simprefix))
    later.start('sim', SPEC, cfg, simulate=dict(num=nsim, file=simprefix), depth=depth + 2, seed=ctx.seed + 1, coverage=False, workers=1, timeout=1500)
    try:
        _run_c13(ctx, wd, later, plans, simprefix, depth, nsim)
    finally:
        later.close()


def _run_c13(ctx, wd, later, plans, simprefix, depth, nsim):
    # implementation-level model: predictions of both variants, refinement, negative self-test
    preds = {}
    for name in ('impl-fixed', 'impl-asis'):
        res = later.get(name)
        ctx.tlc(res, 'ObserveImpl/' + name)
        if not res.ok:
            raise tlc.MachineryError('ObserveImpl %s: %s' % (name, res.violation))
        preds[name] = _read_predictions(os.path.join(wd, name))
    res = later.get('refine')
    ctx.tlc(res, 'ObserveImpl/refines-Observe')
    if not res.ok:
        raise tlc.MachineryError('ObserveImpl (non-inserting) does not refine Observe: %s\n%s' % (res.violation, res.out[-1500:]))
    tlc.check_coverage(res, ['Evaluate', 'Read'], 'ObserveImpl/refines')
    neg = later.get('selftest')
    ctx.tlc(neg, 'ObserveImpl/negative-selftest-inserting')
    if neg.violation != ('property', 'RefinesNext') or not neg.trace:
        raise tlc.MachineryError('negative self-test: TLC did not refute the refinement for the inserting look-up (%s)' % (neg.violation,))
    if later.get('witkeys').violation != ('invariant', 'W_KeysInserted'):
        raise tlc.MachineryError('witness W_KeysInserted not reachable in ObserveImpl')

    runner = _Runner(ctx, preds['impl-fixed'], preds['impl-asis'])
    last = [st for _, st in neg.trace if st and 'hist' in st][-1]
    cex_ops = _ops_of(last['hist'])
    events = runner.run(str(last['kind']), bool(last['good']), cex_ops, 'counterexample of ObserveImpl with the inserting look-up')
    ctx.sample(dict(source='ObserveImpl negative self-test counterexample', kind=str(last['kind']), good=bool(last['good']), ops=cex_ops,
                    reproduced_on_code=judge(str(last['kind']), bool(last['good']), events) is not None))

    # spec -> code: exhaustive sequences
    traces = []
    for name, _verbs, maxlen, _origins, _verbops in plans:
        res = later.get(name)
        ctx.tlc(res, 'Observe/' + name)
        if not res.ok:
            raise tlc.MachineryError('Observe.tla %s: %s\n%s' % (name, res.violation, res.out[-1500:]))
        tlc.check_coverage(res, ['Evaluate', 'Read'], 'Observe/' + name)
        dump = os.path.join(wd, name)
        for st in read_dump_fast(dump):
            if st['pc'] != 'ready' or len(st['hist']) != maxlen:
                continue
            ops = _ops_of(st['hist'])
            if name == 'draw' and ops[0]['op'] not in DRAW_OPS:
                continue
            origin = str(st['origin'])
            events = runner.run(st['kind'], bool(st['good']), ops, 'Observe/' + name, origin=origin)
            if events is None:
                continue
            if any(o['op'] in VERB_OPS for o in ops[:-1]):
                ctx.distinct(_hkey(st['kind'], st['good'], ops, origin))
            crc = zlib.crc32(json.dumps([st['kind'], origin, st['good'], ops]).encode())
            if crc % 1999 == 1:
                ctx.sample(dict(source='Observe/' + name, kind=st['kind'], origin=origin, good=bool(st['good']), ops=ops,
                                verdicts=[e['verdict'] for e in events]))
            if crc % 50 == 0:
                traces.append((st['kind'], bool(st['good']), ops, events, origin))
        os.remove(dump + '.dump')
    for wit in WITNESSES:
        if later.get(wit).violation != ('invariant', wit):
            raise tlc.MachineryError('witness %s not reachable in Observe.tla' % wit)

    # spec -> code: longer sequences from TLC's simulator
    res = later.get('sim')
    ctx.tlc(res, 'Observe/simulate')
    if res.violation:
        raise tlc.MachineryError('Observe.tla simulation: %s' % (res.violation,))
    nsimrun = nsimred = 0
    for beh in tlc.read_sim_files(simprefix):
        st = beh[-1][1]
        if st.get('pc') != 'ready' or not st['hist']:
            continue
        ops = _ops_of(st['hist'])
        origin = str(st['origin'])
        nsimrun += 1
        flavour = with_binning('1d', nsimrun)
        source = 'Observe/simulate' + ('' if flavour == '1d' else '/' + flavour)
        events = runner.run(str(st['kind']), bool(st['good']), ops, source, flavour, origin)
        if events is None:
            # the directly constructed result is the evaluated one: run the behaviour on it all the same (under its own name)
            nsimred += 1
            origin = 'evaluate'
            events = runner.run(str(st['kind']), bool(st['good']), ops, source, flavour, origin)
        ctx.distinct(_hkey(str(st['kind']), st['good'], ops, origin))
        if nsimrun % 10 == 0:
            traces.append((str(st['kind']), bool(st['good']), ops, events, origin, flavour))
    if nsimrun < nsim // 2:
        raise tlc.MachineryError('simulation produced only %d behaviours' % nsimrun)
    ctx.count(evaluations=runner.n, traces=runner.n)
    n_before = runner.n

    # code -> spec: random longer sequences + a sample of the above, walked by TLC
    rng = ctx.rng
    n_random = ctx.pick(600, 8000)
    combos = [(k, g) for k in KINDS for g in ((False,) if k in ALWAYS_BAD else (True, False))]
    for n in range(n_random):
        kind, good = combos[n % len(combos)]
        ops = random_ops(rng, rng.randint(4, 12))
        origin = ORIGINS[(n // len(combos)) % len(ORIGINS)]
        flavour = '2d-nan' if (n // (len(combos) * len(ORIGINS))) % 2 == 1 and kind in ('equal', 'approx', 'student', 'bonferroni', 'holm', 'chi2') else '1d'
        flavour = with_binning(flavour, n // len(combos))
        source = 'random' if flavour == '1d' else 'random/' + flavour
        events = runner.run(kind, good, ops, source, flavour, origin)
        if events is None:
            origin = 'evaluate'
            events = runner.run(kind, good, ops, source, flavour, origin)
        traces.append((kind, good, ops, events, origin, flavour))
        if any(o['op'] in VERB_OPS for o in ops[:-1]):
            ctx.distinct(_hkey(kind, good, ops, origin))
    batch = [to_trace(tid + 1, t[0], t[1], t[3], t[4]) for tid, t in enumerate(traces)]
    rejected = set()
    # binding self-test: corrupted twins of recorded traces ride along in the first batch and must be rejected
    twins = corrupted_twins(batch)
    chunk = 4000
    for k in range(0, len(batch), chunk):
        res, bad = validate_batch(batch[k:k + chunk] + (list(twins.values()) if k == 0 else []), wd, 'trace%d' % (k // chunk))
        ctx.tlc(res, 'ObserveTrace/%d' % (k // chunk))
        if k == 0:
            missed = set(twins) - {b[0] for b in bad}
            if missed or len(twins) < 4:
                raise tlc.MachineryError('ObserveTrace accepts corrupted traces %s (twins: %s)' % (sorted(missed), sorted(twins)))
        bad = [b for b in bad if b[0] < TWIN]
        first = {}
        for tid, n, clause in sorted(bad):
            first.setdefault(tid, (n, clause))
        for tid, (n, clause) in sorted(first.items()):
            kind, good, ops, events, origin = traces[tid - 1][:5]
            flavour = (traces[tid - 1] + ('1d',))[5]
            rejected.add(tid)
            j = judge(kind, good, events, origin)
            if j is None or j[0] != n - 1:
                raise tlc.MachineryError('ObserveTrace rejects event %d (%s) of trace %d but the harness sees %r' % (n - 1, clause, tid, j))
            ctx.violation(j[1], '%s [ObserveTrace clause %s]' % (j[2], clause), dict(kind=kind, good=good, ops=ops, origin=origin, flavour=flavour), module=MODULE)
    accepted_but_judged = [tid + 1 for tid, t in enumerate(traces) if judge(t[0], t[1], t[3], t[4]) and (tid + 1) not in rejected]
    if accepted_but_judged:
        raise tlc.MachineryError('ObserveTrace accepts traces the harness judges changed: %s' % accepted_but_judged[:5])
    ctx.count(evaluations=runner.n - n_before, traces=len(batch))
    for n, ((name, op), (count, text)) in enumerate(sorted(runner.globs.items())):
        ctx.cov.setdefault('observations', []).append('%s (%d times)' % (text, count))
        if n < 6:
            print('OBSERVATION property=%s global state: %s (%d times)' % (ctx.pid, text, count))
    for (kind, op, exc), text in sorted(runner.raised.items()):
        ctx.drift('operation %s on a %s result raised %s' % (op, kind, text[:200]))
    for (kind, origin), text in sorted(runner.unbuildable.items()):
        ctx.drift('a %s result cannot be obtained the %r way by the harness: %s' % (kind, origin, text[:200]))
    ctx.cov['exhaustive'] = True
    ctx.cov['explanation'] = ('exhaustive for the operation sequences of the TLC configurations in tlc_runs; %d simulated behaviours of '
                              'depth %d; %d random sequences; %d traces walked by ObserveTrace, %d rejected; %d generated (kind, direct '
                              'origin, sequence) states not executed because the directly constructed result is the very object graph of '
                              'the evaluated one'
                              % (nsimrun, depth, n_random, len(batch), len(rejected), runner.redundant))
