"""C13 -- looking at a test result never changes it: binding of specs/Observe.tla (+ ObserveImpl.tla,
ObserveTrace.tla) to the result classes of valjean.gavroche and the representers of valjean.javert.

spec -> code : every operation sequence TLC generates from Observe.tla (-dump: all sequences up to the bound,
               -simulate: longer ones) is executed on a freshly evaluated real result of every kind (equal,
               approx-equal, Student, Bonferroni, Holm, chi2, metadata, stats-tasks, stats-tests,
               stats-by-labels, failed; passing and failing inputs); after every operation a deep snapshot
               (verdict, recorded statistics, test parameters, dataset bytes) is compared with the abstract state of
               the TLC state, which never changes.
design level : ObserveImpl.tla models the hidden state of the summaries (key set of the defaultdict behind
               `classify`); TLC checks that it refines Observe when the counting helper does not insert, and --
               negative self-test -- refutes the refinement for the inserting look-up found in the code; the
               counterexample is replayed on the code.  The key sets predicted by the model are compared with
               the real ones (a mismatch is drift).
code -> spec : seeded random longer sequences are executed, the abstract state recorded after every operation,
               and the batch of traces is walked by TLC as behaviours of Observe (ObserveTrace.tla).
"""
import copy
import json
import os
import pickle
import zlib
from collections import OrderedDict

import numpy as np

import tlc
from conf_browser import read_dump_fast

SPEC = os.path.join(tlc.SPECS, 'Observe.tla')
IMPL = os.path.join(tlc.SPECS, 'ObserveImpl.tla')
TRACE = os.path.join(tlc.SPECS, 'ObserveTrace.tla')
MODULE = 'conf_observe'

KINDS = ['equal', 'approx', 'student', 'bonferroni', 'holm', 'chi2', 'metadata', 'stats-tasks', 'stats-tests',
         'stats-bylabels', 'failed']
ALWAYS_BAD = ['failed']
CLASSIFIED = ['stats-tasks', 'stats-tests']
PLAIN_OPS = ['bool', 'oracles', 'counts', 'fingerprint', 'copy', 'pickle', 'reeval']
VERB_OPS = ['table', 'plot', 'full', 'rst']
NOVERB = 9


# ---------------------------------------------------------------------------------------------
# building a fresh result of every kind

def _ds(vals, errs, name):
    from valjean.eponine.dataset import Dataset
    bins = OrderedDict([('e', np.arange(len(vals) + 1, dtype=float))])
    return Dataset(np.array(vals, dtype=float), np.array(errs, dtype=float), bins=bins, name=name, what='flux')


FLAVOUR = ['1d']      # '1d' (default) or '2d-nan': 2-d datasets, the failing one with a cell undefined on one side


def _ds2(vals, errs, name):
    from valjean.eponine.dataset import Dataset
    bins = OrderedDict([('e', np.arange(3, dtype=float)), ('t', np.arange(3, dtype=float) * 10.0)])
    return Dataset(np.array(vals, dtype=float).reshape(2, 2), np.array(errs, dtype=float).reshape(2, 2), bins=bins, name=name, what='flux')


def _datasets(good):
    if FLAVOUR[0] == '2d-nan':
        ref = _ds2([1.0, 2.0, 3.0, 4.0], [0.1, 0.1, 0.1, 0.1], 'ref')
        if good:
            return ref, _ds2([1.01, 2.02, 2.97, 4.03], [0.1, 0.1, 0.1, 0.1], 'close')
        return ref, _ds2([5.0, float('nan'), 9.0, 0.5], [0.1, 0.1, 0.1, 0.1], 'far')
    ref = _ds([1.0, 2.0, 3.0, 4.0], [0.1, 0.1, 0.1, 0.1], 'ref')
    if good:
        return ref, _ds([1.01, 2.02, 2.97, 4.03], [0.1, 0.1, 0.1, 0.1], 'close')
    return ref, _ds([5.0, 1.0, 9.0, 0.5], [0.1, 0.1, 0.1, 0.1], 'far')


def build(kind, good):
    """A freshly evaluated result of the given kind on inputs that pass (good) or fail."""
    from valjean.gavroche.test import TestEqual, TestApproxEqual, TestResultFailed
    from valjean.gavroche.stat_tests.student import TestStudent
    from valjean.gavroche.stat_tests.bonferroni import TestBonferroni, TestHolmBonferroni
    from valjean.gavroche.stat_tests.chi2 import TestChi2
    from valjean.gavroche.diagnostics.metadata import TestMetadata
    from valjean.gavroche.diagnostics.stats import TestStatsTasks, TestStatsTests, TestStatsTestsByLabels
    from valjean.cosette.task import TaskStatus
    ref, other = _datasets(good)
    if kind == 'equal':
        same = (_ds if FLAVOUR[0] == '1d' else _ds2)([1.0, 2.0, 3.0, 4.0], [0.2, 0.2, 0.2, 0.2], 'same')
        return TestEqual(ref, same if good else other, name='equal', description='equality').evaluate()
    if kind == 'approx':
        return TestApproxEqual(ref, other, name='approx', description='approx', rtol=0.05).evaluate()
    if kind == 'student':
        return TestStudent(ref, other, name='student', description='t-test', ndf=20, alpha=0.05).evaluate()
    if kind == 'bonferroni':
        return TestBonferroni(name='bonferroni', description='bonf', alpha=0.05,
                              test=TestStudent(ref, other, name='student', ndf=20, alpha=0.05)).evaluate()
    if kind == 'holm':
        return TestHolmBonferroni(name='holm', description='holm', alpha=0.05,
                                  test=TestStudent(ref, other, name='student', ndf=20, alpha=0.05)).evaluate()
    if kind == 'chi2':
        return TestChi2(ref, other, name='chi2', description='chi2', alpha=0.05).evaluate()
    if kind == 'metadata':
        md1 = {'code': 'T4', 'version': 11, 'results': 'ignored'}
        md2 = dict(md1) if good else {'code': 'T4', 'version': 12, 'extra': 'x'}
        return TestMetadata({'first': md1, 'second': md2}, name='metadata', description='md').evaluate()
    if kind == 'stats-tasks':
        trs = [('task_a', {'status': TaskStatus.DONE}), ('task_b', {'status': TaskStatus.DONE, 'result': 3})]
        if not good:
            trs.append(('task_c', {'status': TaskStatus.FAILED}))
        return TestStatsTasks(name='stats-tasks', description='tasks', task_results=trs).evaluate()
    if kind in ('stats-tests', 'stats-bylabels'):
        ref2, close = _datasets(True)
        r1 = TestApproxEqual(ref2, close, name='r1', rtol=0.05, labels={'day': 'mon', 'meal': 'lunch'}).evaluate()
        r2 = TestStudent(ref2, close, name='r2', ndf=20, alpha=0.05, labels={'day': 'mon', 'meal': 'dinner'}).evaluate()
        r3 = TestApproxEqual(ref, other, name='r3', rtol=0.05, labels={'day': 'tue'}).evaluate()
        trs = [('task_a', {'status': TaskStatus.DONE, 'result': [r1, r2]}), ('task_b', {'status': TaskStatus.DONE, 'result': [r3]})]
        if kind == 'stats-tests':
            return TestStatsTests(name='stats-tests', description='tests', task_results=trs).evaluate()
        return TestStatsTestsByLabels(name='stats-bylabels', description='labels', task_results=trs, by_labels=('day',)).evaluate()
    if kind == 'failed':
        return TestResultFailed(TestEqual(ref, other, name='failed', description='raises'), 'boom: division by zero')
    raise ValueError(kind)


# ---------------------------------------------------------------------------------------------
# deep snapshot

def _dig(obj, depth=0):
    """Structural digest (hashable, comparable) of anything reachable from a result."""
    from valjean.eponine.dataset import Dataset
    from valjean.gavroche.test import Test, TestResult
    if depth > 12:
        return ('deep',)
    if isinstance(obj, np.ndarray):
        return ('nd', obj.dtype.str, obj.shape, obj.tobytes())
    if isinstance(obj, np.generic):
        return ('ng', obj.dtype.str, obj.tobytes())
    if isinstance(obj, (bool, int, str, bytes, type(None))):
        return (type(obj).__name__, obj)
    if isinstance(obj, float):
        return ('float', obj.hex())
    if isinstance(obj, Dataset):
        return ('Dataset', _dig(obj.value, depth + 1), _dig(obj.error, depth + 1),
                tuple((k, _dig(v, depth + 1)) for k, v in obj.bins.items()), obj.name, obj.what)
    if isinstance(obj, TestResult):
        inner = (_stats(obj, depth + 1), _dig(obj.test, depth + 1))      # digested before its verdict is read
        return ('TestResult', type(obj).__name__) + inner + (bool(obj),)
    if isinstance(obj, Test):
        return ('Test', type(obj).__name__, tuple(sorted((k, _dig(v, depth + 1)) for k, v in vars(obj).items())))
    if isinstance(obj, dict):
        return ('dict', tuple(sorted(((repr(k), _dig(v, depth + 1)) for k, v in obj.items()))))
    if isinstance(obj, (list, tuple)):
        return (type(obj).__name__, tuple(_dig(v, depth + 1) for v in obj))
    if isinstance(obj, (set, frozenset)):
        return ('set', tuple(sorted(repr(_dig(v, depth + 1)) for v in obj)))
    if hasattr(obj, 'name') and hasattr(obj, 'value') and type(type(obj)).__name__ == 'EnumType':
        return ('enum', type(obj).__name__, obj.name)
    if hasattr(obj, '__dict__'):
        return ('obj', type(obj).__name__, tuple(sorted((k, _dig(v, depth + 1)) for k, v in vars(obj).items())))
    return ('repr', type(obj).__name__, str(obj))


def _stats(res, depth=0):
    """Recorded statistics of a result: everything it stores except the test; classifications as the names of
    the NON-EMPTY classes (an empty class added by a cache is not a recorded statistic, DESIGN 8.1)."""
    out = []
    for k, v in sorted(vars(res).items()):
        if k == 'test':
            continue
        if k == 'classify' and isinstance(v, dict):
            out.append((k, tuple(sorted((repr(s), tuple(sorted(str(n.name) for n in names))) for s, names in v.items() if names))))
        else:
            out.append((k, _dig(v, depth + 1)))
    return tuple(out)


def snapshot(res, read_verdict=True):
    """The verdict is read FIRST, so that a bool() that edits the result shows up in the same snapshot; the baseline
    of a sequence is taken with read_verdict=False, before anything has looked at the result."""
    from valjean.fingerprint import fingerprint
    verdict = bool(res) if read_verdict else None
    return dict(verdict=verdict, stats=_stats(res), data=(fingerprint(res.test), _dig(res.test)))


def real_keys(res, kind):
    """Abstract key set of the dictionary behind classify (ObserveImpl): OK / KO / OTHER."""
    if kind not in CLASSIFIED:
        return []
    from valjean.cosette.task import TaskStatus
    from valjean.gavroche.diagnostics.stats import TestOutcome
    ok, ko = (TaskStatus.DONE, TaskStatus.FAILED) if kind == 'stats-tasks' else (TestOutcome.SUCCESS, TestOutcome.FAILURE)
    return sorted({'OK' if s == ok else 'KO' if s == ko else 'OTHER' for s in res.classify.keys()})


# ---------------------------------------------------------------------------------------------
# the read-only operations

def apply_op(res, kind, op, verb):
    """Apply one read-only operation; returns the duplicate produced (copy / pickle / reeval) or None."""
    from valjean.javert.representation import Representation, FullRepresenter, FullTableRepresenter, PlotRepresenter
    from valjean.javert.verbosity import Verbosity
    from valjean.javert.rst import Rst
    from valjean.fingerprint import fingerprint
    if op == 'bool':
        bool(res)
        if res:
            pass
    elif op == 'oracles':
        if hasattr(res, 'oracles'):
            list(res.oracles())
        if hasattr(res, 'test_pvalue'):
            res.test_pvalue()
    elif op == 'counts':
        from valjean.gavroche.diagnostics.stats import classification_counts, TestOutcome
        from valjean.cosette.task import TaskStatus
        if kind == 'stats-tasks':
            classification_counts(res.classify, TaskStatus.DONE)
        elif kind == 'stats-tests':
            classification_counts(res.classify, TestOutcome.SUCCESS)
        elif kind == 'stats-bylabels':
            res.nb_missing_labels()
        for attr in ('nb_rejected', 'rejected_proportion', 'chi2_per_ndf', 'sort_ordering'):
            if hasattr(res, attr):
                getattr(res, attr)
        for meth in ('per_key', 'only_failed_comparisons'):
            if hasattr(res, meth):
                getattr(res, meth)()
    elif op == 'table':
        Representation(FullTableRepresenter(), verbosity=Verbosity(verb))(res)
    elif op == 'plot':
        Representation(PlotRepresenter(), verbosity=Verbosity(verb))(res)
    elif op == 'full':
        Representation(FullRepresenter(), verbosity=Verbosity(verb))(res)
    elif op == 'rst':
        Rst(Representation(FullRepresenter(), verbosity=Verbosity(verb))).format_result(res)
    elif op == 'fingerprint':
        fingerprint(res.test)
    elif op == 'copy':
        copy.copy(res)
        return copy.deepcopy(res)
    elif op == 'pickle':
        return pickle.loads(pickle.dumps(res))
    elif op == 'reeval':
        if kind == 'failed':
            return copy.deepcopy(res)        # a failed evaluation has no evaluate() of its own to repeat
        return res.test.evaluate()
    else:
        raise ValueError('unknown operation %r' % (op,))
    return None


def run_sequence(kind, good, ops):
    """Execute evaluate + ops on a fresh result.  Returns the list of events
    dict(op, verb, verdict, stats, data, dupVerdict, dupStats, dupData, keys, exc) with digest NUMBERS
    (0 = value right after the evaluation)."""
    res = build(kind, good)
    untouched = snapshot(res, read_verdict=False)
    seen = {'stats': [untouched['stats']], 'data': [untouched['data']]}

    def number(what, value):
        lst = seen[what]
        for i, v in enumerate(lst):
            if v == value:
                return i
        lst.append(value)
        return len(lst) - 1

    first = snapshot(res)
    events = [dict(op='evaluate', verb=NOVERB, verdict=first['verdict'], stats=number('stats', first['stats']),
                   data=number('data', first['data']), dupVerdict=first['verdict'], dupStats=0, dupData=0,
                   keys=real_keys(res, kind), exc='')]
    dup = (first['verdict'], 0, 0)
    for op in ops:
        exc = ''
        try:
            made = apply_op(res, kind, op['op'], op['verb'])
            if made is not None:
                s = snapshot(made)
                dup = (s['verdict'], number('stats', s['stats']), number('data', s['data']))
        except Exception as ex:   # pylint: disable=broad-except
            exc = '%s: %s' % (type(ex).__name__, ex)
        now = snapshot(res)
        events.append(dict(op=op['op'], verb=op['verb'], verdict=now['verdict'], stats=number('stats', now['stats']),
                           data=number('data', now['data']), dupVerdict=dup[0], dupStats=dup[1], dupData=dup[2],
                           keys=real_keys(res, kind), exc=exc))
    return events


def judge(kind, good, events):
    """First event that is not a stuttering step of the abstract state TLC holds for this behaviour
    (abs = AbsOf(kind, good) in every state): None or (event index, key, text)."""
    for n, ev in enumerate(events):
        what = None
        if ev['verdict'] != good:
            what = ('verdict-changed' if n > 0 else 'verdict-wrong', 'bool(result) is %r, was %r' % (ev['verdict'], good))
        elif ev['stats'] != 0:
            what = ('statistics-changed', 'the recorded statistics differ from those right after the evaluation')
        elif ev['data'] != 0:
            what = ('inputs-changed', 'the test parameters / datasets differ from those right after the evaluation')
        elif (ev['dupVerdict'], ev['dupStats'], ev['dupData']) != (good, 0, 0):
            what = ({'copy': 'copy-differs', 'pickle': 'pickle-differs', 'reeval': 'not-repeatable'}.get(ev['op'], 'duplicate-differs'),
                    'the %s of the result has verdict %r / statistics #%d / inputs #%d' % (ev['op'], ev['dupVerdict'], ev['dupStats'], ev['dupData']))
        if what:
            opname = ev['op'] + ('' if ev['verb'] == NOVERB else '(verbosity %d)' % ev['verb'])
            if n == 0:
                return n, 'C13/%s/%s' % (what[0], kind), 'on the first reading of the verdict right after the evaluation: %s' % what[1]
            return n, 'C13/%s/%s' % (what[0], kind), 'after %s (operation %d of %s): %s' % (
                opname, n, [e['op'] for e in events[1:]], what[1])
    return None


def to_trace(tid, kind, good, events):
    return dict(id=tid, kind=kind, good=good,
                events=[{k: ev[k] for k in ('op', 'verb', 'verdict', 'stats', 'data', 'dupVerdict', 'dupStats', 'dupData')} for ev in events])


def validate_batch(traces, wd, name='trace'):
    cj = tlc.json_dump(os.path.join(wd, name + '_cases.json'), traces)
    oj = os.path.join(wd, name + '_out.json')
    nsteps = sum(1 + len(t['events']) for t in traces)
    cfg = tlc.write_cfg(os.path.join(wd, name + '.cfg'), spec='TSpec', constants=dict(NSteps=nsteps), deadlock=False, postcondition='Post')
    res = tlc.run(TRACE, cfg, workers=1, env=dict(VERIF_CASES=cj, VERIF_OUT=oj), timeout=1800, coverage=False)
    if not res.ok:
        raise tlc.MachineryError('ObserveTrace %s: %s\n%s' % (name, res.violation, res.out[-2500:]))
    with open(oj) as f:
        bad = json.load(f)['bad']
    return res, bad


TWIN = 10 ** 6


def corrupted_twins(batch):
    """Copies of recorded traces with one recorded field of one event corrupted."""
    twins = {}
    for c in batch:
        if len(c['events']) < 4 or any(e['stats'] or e['data'] for e in c['events']):
            continue
        for k, (field, value) in enumerate([('verdict', None), ('stats', 1), ('data', 1), ('dupVerdict', None), ('op', 'write')]):
            t = copy.deepcopy(c)
            t['id'] = TWIN + k
            ev = t['events'][2]
            ev[field] = (not ev[field]) if value is None else value
            if field == 'stats':
                for later in t['events'][3:]:
                    later['stats'] = 1           # the statistics stay changed: exactly one illegal step
            twins[TWIN + k] = t
        break
    return twins


def replay_case(case):
    """Re-run an operation sequence on a fresh result and let TLC (ObserveTrace) judge the recorded trace."""
    FLAVOUR[0] = case.get('flavour', '1d')
    try:
        events = run_sequence(case['kind'], case['good'], case['ops'])
    finally:
        FLAVOUR[0] = '1d'
    wd = tlc.workdir('c13r')
    _, bad = validate_batch([to_trace(1, case['kind'], case['good'], events)], wd, 'replay')
    if bad:
        n = min(b[1] for b in bad) - 1
        j = judge(case['kind'], case['good'], events)
        return False, 'ObserveTrace rejects event %d (%s), clauses %s: %s' % (
            n, events[n]['op'], sorted(b[2] for b in bad if b[1] == n + 1), j[2] if j else events[n])
    return True, 'trace of %d operations accepted by ObserveTrace' % (len(events) - 1)


# ---------------------------------------------------------------------------------------------

def _consts(verbs, maxlen, kinds=None, **kw):
    d = dict(Kinds=frozenset(kinds or KINDS), AlwaysBad=frozenset(ALWAYS_BAD), PlainOps=frozenset(PLAIN_OPS),
             VerbOps=frozenset(VERB_OPS), Verbs=frozenset(verbs), MaxLen=maxlen)
    d.update(kw)
    return d


def _impl_consts(verbs, maxlen, inserting, kinds=None):
    return _consts(verbs, maxlen, kinds, Classified=frozenset(CLASSIFIED), Inserting=inserting)


def _ops_of(hist):
    return [dict(op=o['op'], verb=o['verb']) for o in hist]


def _hkey(kind, good, ops):
    return (kind, bool(good), tuple((o['op'], o['verb']) for o in ops))


def _impl_predictions(wd, name, verbs, maxlen, inserting, ctx):
    """ObserveImpl dump for the classified kinds: (kind, good, ops) -> predicted key set after the last op."""
    cfg = tlc.write_cfg(os.path.join(wd, name + '.cfg'), constants=_impl_consts(verbs, maxlen, inserting, CLASSIFIED), deadlock=False)
    dump = os.path.join(wd, name)
    res = tlc.run(IMPL, cfg, dump=dump, coverage=False)
    ctx.tlc(res, 'ObserveImpl/' + name)
    if not res.ok:
        raise tlc.MachineryError('ObserveImpl %s: %s' % (name, res.violation))
    pred = {}
    for st in read_dump_fast(dump):
        if st['pc'] == 'ready':
            pred[_hkey(st['kind'], st['good'], st['hist'])] = sorted(st['keys'])
    os.remove(dump + '.dump')
    return pred


class _Runner:
    """Executes sequences, reports violations / drift, collects traces for TLC."""

    def __init__(self, ctx, fixed_pred, asis_pred):
        self.ctx = ctx
        self.fixed_pred = fixed_pred
        self.asis_pred = asis_pred
        self.n = 0
        self.raised = {}
        self.drifted = set()

    def run(self, kind, good, ops, source, flavour='1d'):
        ctx = self.ctx
        FLAVOUR[0] = flavour
        try:
            events = run_sequence(kind, good, ops)
        finally:
            FLAVOUR[0] = '1d'
        self.n += 1
        case = dict(kind=kind, good=bool(good), ops=ops, flavour=flavour)
        j = judge(kind, good, events)
        if j:
            ctx.violation(j[1], '%s [%s]' % (j[2], source), case, module=MODULE)
        for ev in events:
            if ev['exc']:
                self.raised.setdefault((kind, ev['op'], ev['exc'].split(':')[0]), ev['exc'])
        if kind in CLASSIFIED and not j and flavour == '1d':
            # implementation-level model: predicted key set of the dictionary after every prefix
            for k in range(1, len(events)):
                hk = _hkey(kind, good, ops[:k])
                if hk in self.fixed_pred and events[k]['keys'] != self.fixed_pred[hk]:
                    if self.asis_pred.get(hk) == events[k]['keys']:
                        tag = (kind, 'as-is')
                        text = ('ObserveImpl: key set of classify after %s is %s as in the inserting (as-found) variant, the '
                                'non-inserting model predicts %s' % ([o['op'] for o in ops[:k]], events[k]['keys'], self.fixed_pred[hk]))
                    else:
                        tag = (kind, 'other')
                        text = ('ObserveImpl: key set of classify after %s is %s, model predicts %s'
                                % ([o['op'] for o in ops[:k]], events[k]['keys'], self.fixed_pred[hk]))
                    if tag not in self.drifted:
                        self.drifted.add(tag)
                        ctx.drift(text)
                    break
        return events


def random_ops(rng, n):
    ops = []
    for _ in range(n):
        if rng.random() < 0.55:
            ops.append(dict(op=rng.choice(VERB_OPS), verb=rng.randint(0, 5)))
        else:
            ops.append(dict(op=rng.choice(PLAIN_OPS), verb=NOVERB))
    return ops


def run_c13(ctx):
    ctx.rule('spec->code: every maximal operation sequence of the states dumped by TLC for Observe.tla (all sequences over 7 '
             'accessor / duplication operations and 4 representations x verbosities, up to the length bound) and the longer ones '
             'TLC simulates are executed on a freshly evaluated real result of each of the 11 kinds, on passing and on failing '
             'inputs, with a deep snapshot after every operation compared with the (constant) abstract state of the TLC states. '
             'design level: ObserveImpl.tla (key set of the defaultdict behind classify) is checked to refine Observe; the '
             'as-found inserting variant is refuted by TLC and its counterexample replayed.  code->spec: seeded random sequences of '
             '4-12 operations recorded and walked by TLC through ObserveTrace.tla.  distinct_nontrivial counts distinct '
             '(kind, inputs, sequence) executions containing at least one representation followed by another operation.')
    ctx.assume('snapshot = verdict, stored statistics (classifications as names of the non-empty classes), test parameters, dataset '
               'bytes and fingerprint; attributes added by lazy caches are not part of it; 1-d datasets of 4 bins')
    ctx.assume('an operation that raises is not a change of the result: it is reported as drift, not as a violation')
    wd = tlc.workdir('c13')
    quick = ctx.quick
    verbs_main = [0, 2, 4]
    len_main = ctx.pick(2, 3)

    # implementation-level model: predictions of both variants, refinement, negative self-test
    fixed_pred = _impl_predictions(wd, 'impl-fixed', verbs_main, len_main, False, ctx)
    asis_pred = _impl_predictions(wd, 'impl-asis', verbs_main, len_main, True, ctx)
    cfg = tlc.write_cfg(os.path.join(wd, 'refine.cfg'), constants=_impl_consts(range(6), ctx.pick(2, 3), False),
                        invariants=['DeterministicImpl', 'VerdictIsTruthImpl'], properties=['Refines', 'RefinesInit', 'RefinesNext', 'ReadOnlyImpl', 'KeysGrow'], deadlock=False)
    res = tlc.run(IMPL, cfg, timeout=1500)
    ctx.tlc(res, 'ObserveImpl/refines-Observe')
    if not res.ok:
        raise tlc.MachineryError('ObserveImpl (non-inserting) does not refine Observe: %s\n%s' % (res.violation, res.out[-1500:]))
    tlc.check_coverage(res, ['Evaluate', 'Read'], 'ObserveImpl/refines')
    cfg = tlc.write_cfg(os.path.join(wd, 'selftest.cfg'), constants=_impl_consts([0, 2], 3, True, CLASSIFIED),
                        properties=['RefinesInit', 'RefinesNext'], deadlock=False)
    neg = tlc.run(IMPL, cfg, coverage=False, workers=1)
    ctx.tlc(neg, 'ObserveImpl/negative-selftest-inserting')
    if neg.violation != ('property', 'RefinesNext') or not neg.trace:
        raise tlc.MachineryError('negative self-test: TLC did not refute the refinement for the inserting look-up (%s)' % (neg.violation,))
    cfg = tlc.write_cfg(os.path.join(wd, 'witkeys.cfg'), constants=_impl_consts([0, 2], 2, True, CLASSIFIED), invariants=['W_KeysInserted'],
                        deadlock=False)
    if tlc.run(IMPL, cfg, coverage=False).violation != ('invariant', 'W_KeysInserted'):
        raise tlc.MachineryError('witness W_KeysInserted not reachable in ObserveImpl')

    runner = _Runner(ctx, fixed_pred, asis_pred)
    last = [st for _, st in neg.trace if st and 'hist' in st][-1]
    cex_ops = _ops_of(last['hist'])
    events = runner.run(str(last['kind']), bool(last['good']), cex_ops, 'counterexample of ObserveImpl with the inserting look-up')
    ctx.sample(dict(source='ObserveImpl negative self-test counterexample', kind=str(last['kind']), good=bool(last['good']), ops=cex_ops,
                    reproduced_on_code=judge(str(last['kind']), bool(last['good']), events) is not None))

    # spec -> code: exhaustive sequences
    plans = [('main', verbs_main, len_main)]
    if not quick:
        plans.append(('allverbs', list(range(6)), 2))
    else:
        plans.append(('allverbs', list(range(6)), 1))
    traces = []
    for name, verbs, maxlen in plans:
        cfg = tlc.write_cfg(os.path.join(wd, name + '.cfg'), constants=_consts(verbs, maxlen), invariants=['Deterministic', 'VerdictIsTruth'],
                            properties=['ReadOnly'], deadlock=False)
        dump = os.path.join(wd, name)
        res = tlc.run(SPEC, cfg, dump=dump, timeout=1500)
        ctx.tlc(res, 'Observe/' + name)
        if not res.ok:
            raise tlc.MachineryError('Observe.tla %s: %s\n%s' % (name, res.violation, res.out[-1500:]))
        tlc.check_coverage(res, ['Evaluate', 'Read'], 'Observe/' + name)
        for st in read_dump_fast(dump):
            if st['pc'] != 'ready' or len(st['hist']) != maxlen:
                continue
            ops = _ops_of(st['hist'])
            events = runner.run(st['kind'], bool(st['good']), ops, 'Observe/' + name)
            if any(o['op'] in VERB_OPS for o in ops[:-1]):
                ctx.distinct(_hkey(st['kind'], st['good'], ops))
            crc = zlib.crc32(json.dumps([st['kind'], st['good'], ops]).encode())
            if crc % 1999 == 1:
                ctx.sample(dict(source='Observe/' + name, kind=st['kind'], good=bool(st['good']), ops=ops,
                                verdicts=[e['verdict'] for e in events]))
            if crc % 50 == 0:
                traces.append((st['kind'], bool(st['good']), ops, events))
        os.remove(dump + '.dump')
    for wit in ('W_ReprThenBool', 'W_AllVerbs'):
        cfg = tlc.write_cfg(os.path.join(wd, wit + '.cfg'), constants=_consts([0, 2, 4], 2, ['equal', 'stats-tasks']), invariants=[wit], deadlock=False)
        if tlc.run(SPEC, cfg, coverage=False).violation != ('invariant', wit):
            raise tlc.MachineryError('witness %s not reachable in Observe.tla' % wit)

    # spec -> code: longer sequences from TLC's simulator
    depth = ctx.pick(8, 12)
    nsim = ctx.pick(150, 1500)
    cfg = tlc.write_cfg(os.path.join(wd, 'sim.cfg'), constants=_consts(range(6), depth), invariants=['Deterministic', 'VerdictIsTruth'],
                        properties=['ReadOnly'], deadlock=False)
    simprefix = os.path.join(wd, 'simdir', 'beh')
    os.makedirs(os.path.dirname(simprefix))
    res = tlc.run(SPEC, cfg, simulate=dict(num=nsim, file=simprefix), depth=depth + 2, seed=ctx.seed + 1, coverage=False, workers=1, timeout=1500)
    ctx.tlc(res, 'Observe/simulate')
    if res.violation:
        raise tlc.MachineryError('Observe.tla simulation: %s' % (res.violation,))
    nsimrun = 0
    for beh in tlc.read_sim_files(simprefix):
        st = beh[-1][1]
        if st.get('pc') != 'ready' or not st['hist']:
            continue
        ops = _ops_of(st['hist'])
        events = runner.run(str(st['kind']), bool(st['good']), ops, 'Observe/simulate')
        ctx.distinct(_hkey(str(st['kind']), st['good'], ops))
        nsimrun += 1
        if nsimrun % 10 == 0:
            traces.append((str(st['kind']), bool(st['good']), ops, events))
    if nsimrun < nsim // 2:
        raise tlc.MachineryError('simulation produced only %d behaviours' % nsimrun)
    ctx.count(evaluations=runner.n, traces=runner.n)

    # code -> spec: random longer sequences + a sample of the above, walked by TLC
    rng = ctx.rng
    n_random = ctx.pick(600, 8000)
    combos = [(k, g) for k in KINDS for g in ((False,) if k in ALWAYS_BAD else (True, False))]
    for n in range(n_random):
        kind, good = combos[n % len(combos)]
        ops = random_ops(rng, rng.randint(4, 12))
        flavour = '2d-nan' if (n // len(combos)) % 2 == 1 and kind in ('equal', 'approx', 'student', 'bonferroni', 'holm', 'chi2') else '1d'
        events = runner.run(kind, good, ops, 'random' if flavour == '1d' else 'random/2d-nan', flavour)
        traces.append((kind, good, ops, events))
        if any(o['op'] in VERB_OPS for o in ops[:-1]):
            ctx.distinct(_hkey(kind, good, ops))
    batch = [to_trace(tid + 1, k, g, ev) for tid, (k, g, _, ev) in enumerate(traces)]
    rejected = set()
    # binding self-test: corrupted twins of recorded traces ride along in the first batch and must be rejected
    twins = corrupted_twins(batch)
    chunk = 4000
    for k in range(0, len(batch), chunk):
        res, bad = validate_batch(batch[k:k + chunk] + (list(twins.values()) if k == 0 else []), wd, 'trace%d' % (k // chunk))
        ctx.tlc(res, 'ObserveTrace/%d' % (k // chunk))
        if k == 0:
            missed = set(twins) - {b[0] for b in bad}
            if missed or len(twins) < 4:
                raise tlc.MachineryError('ObserveTrace accepts corrupted traces %s (twins: %s)' % (sorted(missed), sorted(twins)))
        bad = [b for b in bad if b[0] < TWIN]
        first = {}
        for tid, n, clause in sorted(bad):
            first.setdefault(tid, (n, clause))
        for tid, (n, clause) in sorted(first.items()):
            kind, good, ops, events = traces[tid - 1]
            rejected.add(tid)
            j = judge(kind, good, events)
            if j is None or j[0] != n - 1:
                raise tlc.MachineryError('ObserveTrace rejects event %d (%s) of trace %d but the harness sees %r' % (n - 1, clause, tid, j))
            ctx.violation(j[1], '%s [ObserveTrace clause %s]' % (j[2], clause), dict(kind=kind, good=good, ops=ops), module=MODULE)
    accepted_but_judged = [tid + 1 for tid, (k, g, _, ev) in enumerate(traces) if judge(k, g, ev) and (tid + 1) not in rejected]
    if accepted_but_judged:
        raise tlc.MachineryError('ObserveTrace accepts traces the harness judges changed: %s' % accepted_but_judged[:5])
    ctx.count(evaluations=n_random, traces=len(batch))
    for (kind, op, exc), text in sorted(runner.raised.items()):
        ctx.drift('operation %s on a %s result raised %s' % (op, kind, text[:200]))
    ctx.cov['exhaustive'] = True
    ctx.cov['explanation'] = ('exhaustive for the operation sequences of the TLC configurations in tlc_runs; %d simulated behaviours of '
                              'depth %d; %d random sequences; %d traces walked by ObserveTrace, %d rejected'
                              % (nsimrun, depth, n_random, len(batch), len(rejected)))
