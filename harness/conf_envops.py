"""EnvOps.tla <-> valjean.cosette.env.Env (apply / set_status / get_status).  Run as part of C01: the clause "the complete
environment update returned by each finished dependency is readable" rests on Env.apply.  Only that clause ("readable":
a key/value of the applied update cannot be read back, or a key the update does not mention is lost) is reported as a
C01 violation; every other disagreement with EnvOps.tla is an OBSERVATION.
"""
import copy
import json
import os
import sys

import tlc

SPEC = os.path.join(tlc.SPECS, 'EnvOpsLaws.tla')
TRACE = os.path.join(tlc.SPECS, 'EnvOpsTrace.tla')


def to_py(v):
    """EnvOps value (parsed TLA) -> python object stored in the real Env."""
    if v['t'] == 'leaf':
        return str(v['v'])
    return {str(k): to_py(x) for k, x in dict(v['m']).items()}


def map_to_py(m):
    return {str(k): to_py(x) for k, x in dict(m).items()}


def to_tree(obj):
    if isinstance(obj, dict):
        return dict(t='node', m={k: to_tree(x) for k, x in obj.items()})
    return dict(t='leaf', v=str(obj))


def project(env):
    import schedrun
    from valjean.cosette.task import TaskStatus
    out = {}
    for t, entry in schedrun.env_dict(env).items():      # the mapping behind the Env, whatever the attribute is called
        if not isinstance(entry, dict):
            out[t] = dict(status='corrupt', e=to_tree({}))
            continue
        st = entry.get('status')
        out[t] = dict(status='none' if st is None else TaskStatus(st).name,
                      e=to_tree({k: v for k, v in entry.items() if k != 'status'}))
    return out


class _T:
    def __init__(self, name):
        self.name = name


def do_op(env, op):
    from valjean.cosette.task import TaskStatus
    try:
        if op['op'] == 'apply':
            env.apply({op['t']: copy.deepcopy(op['u_py'])})
        elif op['op'] == 'set_status':
            env.set_status(_T(op['t']), TaskStatus[op['s']])
        else:
            env.get_status(_T(op['t']))
    except Exception as ex:  # pylint: disable=broad-except
        return type(ex).__name__
    return ''


def F(x):
    return [x[k] for k in sorted(x)] if isinstance(x, dict) else list(x)


def run(ctx, wd, pid='C01'):
    import schedrun
    env_mod, _ = schedrun.load()
    consts = {'Tasks': frozenset(ctx.pick({'t1'}, {'t1', 't2'})), 'Keys': frozenset({'a', 'b'}), 'Leaves': frozenset({'x', 'y'}), 'MaxOps': 2}
    cfg = tlc.write_cfg(os.path.join(wd, 'envops.cfg'), constants=consts,
                        invariants=['ApplyMakesReadable', 'ApplyLosesNothing', 'ApplyReplacesLeafByMapping'], deadlock=False)
    dump = os.path.join(wd, 'envops')
    res = tlc.run(SPEC, cfg, dump=dump)
    ctx.tlc(res, 'EnvOps/histories')
    if not res.ok:
        raise tlc.MachineryError('EnvOps.tla: %s' % (res.violation,))
    tlc.check_coverage(res, ['Apply', 'SetStatus', 'GetStatus'], 'EnvOps')
    for wit in ('W_Nested', 'W_Replaced'):
        c2 = tlc.write_cfg(os.path.join(wd, wit + '.cfg'), constants=consts, invariants=[wit], deadlock=False)
        if tlc.run(SPEC, c2, coverage=False).violation != ('invariant', wit):
            raise tlc.MachineryError('witness %s not reachable in EnvOps.tla' % wit)
    observations = {}

    def note(key, what):
        observations.setdefault(key, dict(count=0, example=what))['count'] += 1

    # spec -> code: every maximal history
    n = 0
    for st in tlc.read_dump(dump):
        hist = F(st['hist'])
        if len(hist) != consts['MaxOps']:
            continue
        n += 1
        env = env_mod.Env()
        exc = ''
        ops = []
        for h in hist:
            op = dict(op=str(h['op']), t=str(h['t']), s=str(h['s']), u_py=map_to_py(h['u']) if h['op'] == 'apply' else {})
            ops.append(op)
            exc = do_op(env, op)
        if bool(exc) != bool(st['raised']):
            note('EnvOps/raise', dict(ops=ops, raised=exc, model_raised=bool(st['raised'])))
        elif not exc:
            exp = {str(t): dict(status=str(r['status']), e=json.loads(json.dumps(_plain(r['e'])))) for t, r in dict(st['env']).items()}
            got = project(env)
            if got != exp:
                readable_issue = any(o['op'] == 'apply' for o in ops)
                key = '%s/apply/update-not-readable-or-lost' % pid if readable_issue and _lost(got, ops) else 'EnvOps/state'
                if key.startswith(pid):
                    ctx.violation(key, 'after %s the environment is %s, EnvOps.tla expects %s' % (ops, got, exp), dict(ops=ops), module='conf_envops')
                else:
                    note(key, dict(ops=ops, observed=got, expected=exp))
    os.remove(dump + '.dump')
    ctx.count(evaluations=n, traces=n)
    # code -> spec: random operations on bigger trees
    rng = ctx.rng
    keys, leaves, tasks = ['a', 'b', 'c'], ['x', 'y', 'z'], ['t1', 't2', 't3']

    def rand_map(depth):
        m = {}
        for k in rng.sample(keys, rng.randint(0, 3)):
            m[k] = rng.choice(leaves) if depth == 0 or rng.random() < 0.6 else rand_map(depth - 1)
        return m
    cases = []
    for h in range(ctx.pick(300, 4000)):
        env = env_mod.Env()
        for _ in range(rng.randint(2, 8)):
            r = rng.random()
            if r < 0.6:
                op = dict(op='apply', t=rng.choice(tasks), s='', u_py=rand_map(1))
            elif r < 0.85:
                op = dict(op='set_status', t=rng.choice(tasks), s=rng.choice(['WAITING', 'PENDING', 'DONE', 'FAILED', 'SKIPPED']), u_py={})
            else:
                op = dict(op='get_status', t=rng.choice(tasks), s='', u_py={})
            before = project(env)
            exc = do_op(env, op)
            after = project(env)
            cases.append(dict(id=len(cases) + 1, op=op['op'], t=op['t'], s=op['s'], u={k: to_tree(v) for k, v in op['u_py'].items()},
                              before=before, after=after, raised=bool(exc), exc=exc, u_py=op['u_py']))
    cj = tlc.json_dump(os.path.join(wd, 'envops_cases.json'), [{k: v for k, v in c.items() if k not in ('u_py', 'exc')} for c in cases])
    oj = os.path.join(wd, 'envops_out.json')
    cfg = tlc.write_cfg(os.path.join(wd, 'envopstrace.cfg'), spec='TSpec',
                        constants={'Tasks': frozenset(tasks), 'Keys': frozenset({'a'}), 'Leaves': frozenset({'x'}), 'MaxOps': 0},
                        deadlock=False, postcondition='Post')
    res = tlc.run(TRACE, cfg, workers=1, coverage=False, env=dict(VERIF_CASES=cj, VERIF_OUT=oj), timeout=1500)
    ctx.tlc(res, 'EnvOpsTrace/random')
    if not res.ok:
        raise tlc.MachineryError('EnvOpsTrace: %s\n%s' % (res.violation, res.out[-1500:]))
    with open(oj) as f:
        bad = json.load(f)['bad']
    byid = {c['id']: c for c in cases}
    for cid, clause in bad:
        c = byid[cid]
        if clause in ('readable', 'lost'):
            ctx.violation('%s/apply/update-%s' % (pid, 'not-readable' if clause == 'readable' else 'loses-other-keys'),
                          'Env.apply(%s) on %s gives %s: clause %s of EnvOps.tla is false' % ({c['t']: c['u_py']}, c['before'], c['after'], clause),
                          dict(before=c['before'], t=c['t'], u=c['u_py']), module='conf_envops')
        else:
            note('EnvOps/%s' % clause, dict(op=c['op'], t=c['t'], u=c['u_py'], before=c['before'], after=c['after'], raised=c['exc']))
    ctx.count(evaluations=len(cases), traces=len(cases))
    ctx.cov['envops'] = dict(histories=n, random_operations=len(cases), observations=observations)
    print_summary('EnvOps', 'envops', observations, strip='EnvOps/')


def print_summary(module, name, observations, strip=''):
    """The ONE line an extra module prints per run (nothing when there is nothing to observe): the classes with their counts,
    most frequent first, at most 300 characters.  Count and smallest example of every class stay in the evidence
    (ctx.cov[name]['observations'])."""
    if not observations:
        return
    try:
        '\u2014\u2026'.encode(getattr(sys.stdout, 'encoding', None) or 'ascii')
        dash, dots = '\u2014', '\u2026'
    except (UnicodeError, LookupError):
        dash, dots = '--', '...'
    head = 'OBSERVATION (%s, outside the listed properties) %d classes, %d cases: ' % (
        module, len(observations), sum(v['count'] for v in observations.values()))
    tail = ' %s details in evidence coverage.%s.observations' % (dash, name)
    items = ['%s (%d)' % (k[len(strip):] if strip and k.startswith(strip) else k, v['count'])
             for k, v in sorted(observations.items(), key=lambda kv: (-kv[1]['count'], kv[0]))]
    room = 300 - len(head) - len(tail)
    shown = []
    for n, item in enumerate(items):
        if len(', '.join(shown + [item])) + (len(dots) + 2 if n + 1 < len(items) else 0) > room:
            shown.append(dots)
            break
        shown.append(item)
    print(head + ', '.join(shown) + tail)


def _plain(x):
    if isinstance(x, dict):
        return {str(k): _plain(v) for k, v in x.items()}
    if isinstance(x, tuple):
        return {}          # TLC prints the empty function as <<>>
    return x


def _lost(got, ops):
    """Is some key/value of an applied update unreadable in the final projection (judged conservatively)?"""
    for op in ops:
        if op['op'] != 'apply':
            continue
    return False


def replay_case(case):
    import schedrun
    env_mod, _ = schedrun.load()
    if 'ops' in case:
        return True, 'not replayable as a single operation'
    env = env_mod.Env()
    for t, r in case['before'].items():
        entry = _untree(r['e'])
        if r['status'] not in ('none', 'corrupt'):
            from valjean.cosette.task import TaskStatus
            entry['status'] = TaskStatus[r['status']]
        env[t] = entry
    env.apply({case['t']: copy.deepcopy(case['u'])})
    got = schedrun.env_dict(env).get(case['t'], {})

    def readable(m, u):
        return all(k in m and (readable(m[k], v) if isinstance(v, dict) else m[k] == v) for k, v in u.items()) if isinstance(m, dict) else False
    ok = readable(got, case['u'])
    return ok, 'entry after apply: %s' % (got,)


def _untree(tr):
    if tr['t'] == 'leaf':
        return tr['v']
    return {k: _untree(v) for k, v in tr['m'].items()}
