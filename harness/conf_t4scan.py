"""C11 -- truncated Tripoli-4 listings: binding of specs/T4Scan.tla to valjean.eponine.tripoli4.

spec -> code : every state TLC dumps for T4Scan.tla (a well-formed mono / PARA / fatal listing, a prefix of it,
               a cut class of the next line) is rendered with concrete lines copied from the example listings,
               written to a file and given to parse.Parser; outcome, stored editions, blocks and times are
               compared with what TLC computed (`out`, `st`, `alt`, and the state of the complete listing).
               The counterexamples of the W_InterpretedCut* witnesses are replayed the same way.
               Listing layouts: mono and parallel jobs, with / without "Edition after batch number" line, 1-3
               editions; in parallel jobs several response blocks per edition, each with its own "number of batches
               used" (greatest first / in the middle / last, low counts shared by the editions).
code -> spec : real listings are cut at byte offsets (all offsets of the small ones, a seeded sample inside the
               scanner-interpreted lines of the big ones and of synthetic 2-3-edition parallel-job listings assembled
               from the shipped one-edition ones, see synth_bytes), every prefix is parsed by the real Parser under a
               watchdog, interleaved with parses of complete listings; the observations are validated by TLC
               against T4ScanTrace.tla (property predicate + conformance), and the datasets / metadata / times of
               every successfully parsed edition are compared with those of the complete listing.
               "Whatever was parsed earlier in the same process": besides the shipped and the model listings, the
               long-lived worker processes parse complete listings WRITTEN FROM THE GRAMMAR for the result layouts that
               no shipped listing has (gram|<layout>, see gram_bytes): each in turn between the prefixes of every
               listing and between the model listings, and a prefix of every listing right after each of them; they
               are cut like the other listings too.  The clauses are the same; a finding that needs such a history is
               keyed .../after-<layout> and its case carries the history (`after`), found by replaying the first case
               of the class in fresh processes (minimise_histories).
               "Which thread parses" (valjean parses listings in the worker threads of its scheduler): every process that
               parses has, besides its main thread, live worker threads that stay for the whole run and are fed through
               queues; the Parser calls of a share of ALL the cases above (rendered and real listings, prefixes and complete
               ones; see pick_thread: every 4th case, and always the case after a failing one and after the first success
               that follows) are made by them, each in turn, the main thread taking part.  The observations go to TLC
               like the others (same clauses: error or the editions of the complete listing).  A call that gets no answer
               (see _on_alarm: the thread is blocked, judged on its CPU clock) is outcome Other/Hang; the process that saw
               it runs nothing more; the finding counts when a fresh process given the same recent history (`before` and
               `thread` of the case) shows it again, and is keyed .../other-thread when the main thread alone does not.
"""
import glob
import hashlib
import json
import multiprocessing
import os
import queue
import random
import re
import signal
import threading
import time
import traceback
from collections import deque
from concurrent.futures import ThreadPoolExecutor

import core
import tlc
from tlaval import MV

SPEC = os.path.join(tlc.SPECS, 'T4Scan.tla')
TRACE = os.path.join(tlc.SPECS, 'T4ScanTrace.tla')
INVS = ['PrefixAgrees', 'StoredAfterEndFlag', 'TimesKeyedByStored', 'CompleteRecovered', 'NoScanErrorOnCompleteLines']
PROPS = ['StoredIsStable']
WITNESSES = ['W_TwoEditions', 'W_ParaStored', 'W_PartialStored', 'W_CutErrors', 'W_InterpretedCutWrongTime',
             'W_InterpretedCutNotATime', 'W_PrefixKeepsFirstEdition']
PARA_WITNESSES = ['W_ParaLayoutEdLine', 'W_ParaLayoutNoEdLine']     # on the parallel-job layouts
WATCHDOG = 60.0          # seconds of CPU time per Parser call; a listing of 3 MB is scanned in 0.1 s
TICK = 1.0               # the thread that runs a Parser call is looked at every so many seconds
QUIET = 15               # consecutive ticks in which that thread used no CPU time at all: it is blocked for ever
NTHREADS = 3             # the threads that parse in a process: 0 the main thread, 1.. live worker threads
THREAD_EVERY = 4         # every so many cases the parse is given to a worker thread (see pick_thread)
DATA_DIRS = ('tests/eponine/tripoli4/data', 'doc/src/examples')
NOT_A_TIME = -1
TIME_KEYS = {'simulation_time': 'simtime', 'exploitation_time': 'exptime', 'elapsed_time': 'elapsed'}
END_FLAGS = (('simulation time', 'simtime'), ('exploitation time', 'exptime'), ('elapsed time', 'elapsed'))
NPROC = max(2, min(14, (os.cpu_count() or 4) - 2))


# ----------------------------------------------------------------------------------------------
# abstraction function: physical line -> (kind, integer field)

_INT = re.compile(r'[+-]?\d+\Z')


def _int(tok):
    return int(tok) if tok is not None and _INT.match(tok) else None


def classify(line):
    """Textual class of a line: which keyword tests of scan.py it satisfies, and the token the scanner converts.

    Returns (kind, num) ; kind == 'ambiguous' when several dispatch-relevant keywords are present."""
    ls = line.lstrip()
    if ls.startswith('//') or ls.startswith('!!!'):
        return 'comment', None
    toks = line.split()

    def tok(k):
        return toks[k] if -len(toks) <= k < len(toks) else None
    feats = []
    if 'WARNING' in line:
        feats.append(('warning', None))
    elif 'ERROR' in line:
        feats.append(('fatal' if 'FATAL ERROR' in line else 'error', None))
    elif 'PARTIAL EDITION' in line:
        feats.append(('partial', None))
    elif 'NORMAL COMPLETION' in line:
        feats.append(('normal', None))
    if 'Edition after batch number' in line:
        feats.append(('edition', _int(tok(-1))))
    if 'number of batches used' in line:
        feats.append(('used', _int(tok(4))))
    if 'time' in line:
        for flag, kind in END_FLAGS:
            if flag in line:
                last = tok(-1)
                feats.append((kind, int(last) if last is not None and last.isdigit() and _INT.match(last) else None))
                break
    if 'BATCH' in line and '_' not in line and 'THIS' not in line:
        num = None
        if len(toks) > 1 and 'BATCH' in toks:
            num = _int(tok(toks.index('BATCH') + 1))
        feats.append(('batch', num))
    elif 'number of tasks is' in line:
        feats.append(('tasks', _int(tok(5))))
    elif 'BATCH_PER_SIMULATOR' in line:
        pass                                       # run-level only (required batches), not modelled
    elif 'PACKET_LENGTH' in line:
        feats.append(('packet', _int(tok(toks.index('PACKET_LENGTH') + 1)) if 'PACKET_LENGTH' in toks else None))
    elif 'initialization time' in line:
        feats.append(('init', _int(tok(3))))
    if 'RESULTS ARE GIVEN' in line:
        feats.append(('results', None))
    if line.startswith(' batch number :'):
        feats.append(('batchnum', _int(tok(-1))))
    elif line.startswith(' number of batch'):
        feats.append(('numbatch', _int(tok(-1))))
    if 'Type and parameters of random generator at the end of simulation:' in line:
        feats.append(('genhdr', None))
    elif 'COUNTER' in line:
        feats.append(('counter', None))
    if not feats:
        return 'other', None
    if len(feats) > 1:
        return 'ambiguous', None
    return feats[0]


def cut_class(full_rec, part_rec):
    """Name of the cut of a line, for finding keys."""
    if part_rec is None:
        return 'boundary'
    if full_rec[0] in ('other', 'comment'):
        return 'mid'
    if part_rec[0] != full_rec[0]:
        return 'kw'
    if full_rec[1] is not None and part_rec[1] is None:
        return 'nonum'
    if full_rec[1] != part_rec[1]:
        return 'digits'
    return 'noeol'


# ----------------------------------------------------------------------------------------------
# running the implementation

class Hang(BaseException):
    """Raised by the watchdog (BaseException: must not be swallowed by `except Exception`)."""


# A Parser call hangs when the thread that runs it (a) used no CPU time at all during QUIET consecutive ticks -- it is
# blocked, and nothing else runs in the process that could release it: the other parsing threads are idle --, or (b) used
# more than WATCHDOG seconds of CPU time, or (c) is not back after 10 x WATCHDOG seconds.  The verdict rests on the CPU
# clock of the thread, not on elapsed time: a loaded machine makes a parse slow, it does not make it idle.
_GUARD = dict(on=False, quiet=0, last=0.0, cpu0=0.0, t0=0.0)
_HUNG = [False]          # a Parser call hung in this process: whatever it holds is held for ever, nothing more is run here


def _on_alarm(signum, frame):
    """tick of the watchdog of the main thread (the handler runs in the main thread: thread_time() is its CPU clock)."""
    st = _GUARD
    if not st['on']:
        return
    now = time.thread_time()
    st['quiet'] = st['quiet'] + 1 if now - st['last'] < 0.002 else 0
    st['last'] = now
    if st['quiet'] >= QUIET or now - st['cpu0'] > WATCHDOG or time.monotonic() - st['t0'] > 10 * WATCHDOG:
        st['on'] = False
        raise Hang()


def _guard_main(func, *args):
    now = time.thread_time()
    _GUARD.update(on=True, quiet=0, last=now, cpu0=now, t0=time.monotonic())
    signal.setitimer(signal.ITIMER_REAL, TICK, TICK)
    try:
        return func(*args)
    finally:
        _GUARD['on'] = False
        signal.setitimer(signal.ITIMER_REAL, 0)


class _ParseThread:
    """A live thread of this process that parses what it is given (like a worker thread of valjean's scheduler): it is
    started once and stays for the rest of the process; a daemon, so that a thread stuck in a parse does not keep the
    process from ending."""

    def __init__(self, idx):
        self.todo, self.done = queue.SimpleQueue(), queue.SimpleQueue()
        self.thread = threading.Thread(target=self._loop, name='c11-parse-%d' % idx, daemon=True)
        self.thread.start()
        self.clock = time.pthread_getcpuclockid(self.thread.ident)

    def _loop(self):
        while True:
            func, args = self.todo.get()
            try:
                res = (True, func(*args))
            except BaseException as ex:  # pylint: disable=broad-except
                res = (False, ex)
            self.done.put(res)

    def call(self, func, *args):
        """func(*args) in the thread; its result or exception; Hang (see above)."""
        cpu0 = last = time.clock_gettime(self.clock)
        t0, quiet = time.monotonic(), 0
        self.todo.put((func, args))
        while True:
            try:
                ok, val = self.done.get(timeout=TICK)
            except queue.Empty:
                now = time.clock_gettime(self.clock)
                quiet = quiet + 1 if now - last < 0.002 else 0
                last = now
                if quiet >= QUIET or now - cpu0 > WATCHDOG or time.monotonic() - t0 > 10 * WATCHDOG:
                    raise Hang() from None
                continue
            if ok:
                return val
            raise val


_THREADS = {}            # (pid, index) -> _ParseThread (threads do not survive a fork)
_THREAD = [0]            # the thread that runs the Parser calls of the current case


def _guarded(func, *args):
    """func(*args) in the thread of the current case, under the watchdog."""
    idx = _THREAD[0]
    if not idx:
        return _guard_main(func, *args)
    key = (os.getpid(), idx)
    if key not in _THREADS:
        _THREADS[key] = _ParseThread(idx)
    try:
        return _THREADS[key].call(func, *args)
    except Hang:
        del _THREADS[key]            # the thread is stuck: another one takes its place
        raise


# Which thread parses: valjean parses listings in the worker threads of its scheduler, and the statement says "whatever was
# parsed earlier in the same process".  Most cases are parsed by the main thread; every THREAD_EVERY-th case by a live
# worker thread (each in turn); the case after a case that FAILED (parser error, from the scanner or the grammar), and the
# case after the first success that follows a failure, by the thread after the one that ran that case (main -> 1 -> 2 ->
# main): a failing parse is always followed by a parse in another thread that is alive, and so is a succeeding one.
_ROT = dict(n=0, last=0, worker=1, failed=False, before=False)
_RECENT = deque(maxlen=4)     # the last cases of this process that parsed an edition or failed, replayable (see _replay)


def pick_thread():
    rot = _ROT
    rot['n'] += 1
    if rot['failed'] or rot['before']:
        return (rot['last'] + 1) % NTHREADS
    if rot['n'] % THREAD_EVERY == 0:
        rot['worker'] = rot['worker'] % (NTHREADS - 1) + 1
        return rot['worker']
    return 0


def case_done(thread, failed, record=None):
    _ROT.update(last=thread, before=_ROT['failed'] and not failed, failed=failed)
    if record is not None:
        _RECENT.append(record)


def _valjean_frame(ex):
    """innermost function of valjean in the traceback of ex (names the finding class)."""
    name = '?'
    for fr in traceback.extract_tb(ex.__traceback__):
        if 'valjean' in fr.filename:
            name = os.path.basename(fr.filename)[:-3] + '.' + fr.name
    return name


def split_lines(text):
    """physical lines, split on '\\n' only (what the file iterator does)."""
    out = text.split('\n')
    lines = [x + '\n' for x in out[:-1]]
    if out[-1]:
        lines.append(out[-1])
    return lines


def match_block(block, phys, results_idx, diverting):
    """(first, last) physical indices (0-based) of the lines of a stored block, (-1, -1) if the block is not the
    run of lines from a RESULTS line to its last line (comment lines, and photon/electron balance or homogenised
    material dumps which the scanner stores elsewhere, left out)."""
    bl = split_lines(block)
    if not bl:
        return -1, -1
    best = (-1, -1)
    for i in results_idx:
        if i >= len(phys) or phys[i] != bl[0]:
            continue
        # the head of the block (RESULTS line, stars, edition number...) must follow immediately
        j, k = i, 0
        while k < min(12, len(bl)) and j < len(phys):
            if phys[j] == bl[k]:
                k += 1
            elif not _is_comment(phys[j]):
                break
            j += 1
        if k < min(12, len(bl)):
            continue
        j, k, last, ok = i, 0, i, True
        while k < len(bl):
            if j >= len(phys):
                ok = False
                break
            if phys[j] == bl[k]:
                k += 1
                last = j
            elif not diverting and not _is_comment(phys[j]):
                ok = False
                break
            j += 1
        if ok and (best[0] < 0 or last - i < best[1] - best[0]):
            best = (i, last)
    return best


def _is_comment(line):
    ls = line.lstrip()
    return ls.startswith('//') or ls.startswith('!!!')


def open_listing(path):
    """Parser(path) in the thread of the current case, under the watchdog -> (outcome, parser|None, exc name, where)."""
    from valjean.eponine.tripoli4.parse import Parser, ParserException
    try:
        return 'Ok', _guarded(Parser, path), None, None
    except ParserException:
        return 'ParserError', None, None, None
    except Hang:
        _HUNG[0] = True
        return 'Other', None, 'Hang', 'scan'
    except Exception as ex:  # pylint: disable=broad-except
        return 'Other', None, type(ex).__name__, _valjean_frame(ex)


def parse_edition(parser, n):
    """parse_from_number(n) in the thread of the current case, under the watchdog -> (status, ParseResult|None, exc name,
    where); status: 'ok' | 'pe' | 'other'."""
    from valjean.eponine.tripoli4.parse import ParserException
    try:
        return 'ok', _guarded(parser.parse_from_number, n), None, None
    except ParserException:
        return 'pe', None, None, None
    except Hang:
        _HUNG[0] = True
        return 'other', None, 'Hang', 'parse'
    except Exception as ex:  # pylint: disable=broad-except
        return 'other', None, type(ex).__name__, _valjean_frame(ex)


def _arr_eq(a, b):
    import numpy as np
    a, b = np.asarray(a), np.asarray(b)
    if a.shape != b.shape or a.dtype != b.dtype:
        return False
    try:
        return bool(np.array_equal(a, b, equal_nan=True))
    except TypeError:
        return a.tobytes() == b.tobytes()


def same(a, b):
    """deep equality of parse results (datasets, arrays, dicts, lists, scalars)."""
    import numpy as np
    from valjean.eponine.dataset import Dataset
    if isinstance(a, Dataset) or isinstance(b, Dataset):
        return (isinstance(a, Dataset) and isinstance(b, Dataset) and a.name == b.name and a.what == b.what
                and _arr_eq(a.value, b.value) and _arr_eq(a.error, b.error) and list(a.bins) == list(b.bins)
                and all(_arr_eq(a.bins[k], b.bins[k]) for k in a.bins))
    if isinstance(a, dict) or isinstance(b, dict):
        return (isinstance(a, dict) and isinstance(b, dict) and list(a.keys()) == list(b.keys())
                and all(same(a[k], b[k]) for k in a))
    if isinstance(a, (list, tuple)) or isinstance(b, (list, tuple)):
        return (isinstance(a, (list, tuple)) and isinstance(b, (list, tuple)) and len(a) == len(b)
                and all(same(x, y) for x, y in zip(a, b)))
    if isinstance(a, np.ndarray) or isinstance(b, np.ndarray):
        return _arr_eq(a, b)
    if isinstance(a, float) and isinstance(b, float) and a != a and b != b:
        return True
    try:
        return bool(a == b)
    except Exception:  # pylint: disable=broad-except
        return False


def edition_diff(res, ref):
    """'' when the results of an edition (ParseResult.res) are those of the reference; else what differs.
    Compared: every response list (datasets + metadata) and the batch-level data present in both parses
    (DESIGN 8.1); run-level flags are not."""
    keys = [k for k in res if k not in ('batch_data', 'run_data')]
    rkeys = [k for k in ref if k not in ('batch_data', 'run_data')]
    if keys != rkeys:
        return 'results: sections %s vs %s' % (keys, rkeys)
    for k in keys:
        if not same(res[k], ref[k]):
            return 'results: %s differ' % k
    # a time the scanner has not read (yet) for this batch is reported as None: not "present in both parses"
    bad = [k for k in res['batch_data'] if k in ref['batch_data'] and k != 'name'
           and res['batch_data'][k] is not None and ref['batch_data'][k] is not None
           and not same(res['batch_data'][k], ref['batch_data'][k])]
    if bad:
        return 'time: ' + ', '.join('%s=%r instead of %r' % (k, res['batch_data'][k], ref['batch_data'][k]) for k in bad)
    return ''


def scan_times(scanner):
    """[(time key, batch number, value)] of a Scanner (the initialisation time is run-level)."""
    out = []
    for key, val in scanner.times.items():
        if isinstance(val, dict):
            for b, t in val.items():
                out.append((key, int(b), int(t) if isinstance(t, int) else NOT_A_TIME))
    return sorted(out)


class Listing:
    """A listing text, its physical lines and their abstraction; prefix observations."""

    def __init__(self, name, data, path=None):
        self.name = name
        self.data = data
        text = data.decode('utf-8', errors='ignore')
        self.phys = split_lines(text)
        self.recs = [classify(x) for x in self.phys]
        self.starts = []
        off = 0
        for chunk in data.split(b'\n'):
            self.starts.append(off)
            off += len(chunk) + 1
        if self.starts and self.starts[-1] >= len(data) and len(data) > 0:
            self.starts.pop()
        self.sig = [i for i, r in enumerate(self.recs) if r[0] != 'other']
        self.sig_before = [0] * (len(self.phys) + 1)
        cnt = 0
        sigset = set(self.sig)
        for i in range(len(self.phys)):
            self.sig_before[i] = cnt
            if i in sigset:
                cnt += 1
        self.sig_before[len(self.phys)] = cnt
        self.results_idx = [i for i, r in enumerate(self.recs) if r[0] == 'results']
        self.diverting = ('#' * 64 in text) or ('DUMP HOMOGENIZED MATERIAL' in text)
        self.ref = {}            # {n: ParseResult.res | None | 'absent'} of the complete listing
        self.full_parser = None
        self.memo = {}
        self.tmp = None
        self.path = path

    def abstract_lines(self):
        return [dict(kind=self.recs[i][0], num=[] if self.recs[i][1] is None else [self.recs[i][1]], id=i + 1)
                for i in self.sig]

    def locate(self, off):
        """(number of complete physical lines, text of the unterminated last line) of data[:off]."""
        import bisect
        nl = bisect.bisect_right(self.starts, off) - 1
        if nl < 0:
            return 0, ''
        start = self.starts[nl]
        if off == start:
            return nl, ''
        part = self.data[start:off].decode('utf-8', errors='ignore')
        if part.endswith('\n'):          # cannot happen (off <= end of that line without its newline + 1)
            return nl + 1, ''
        return nl, part

    def observe(self, path, off, rng=None, rate=1.0, ref=None, only=None, thread=None):
        """Run the implementation on the prefix stored at `path` (= data[:off]) -> observation dict.  The Parser calls
        are made by thread `thread` of this process (None: the next one in turn, see pick_thread)."""
        _THREAD[0] = thread = pick_thread() if thread is None else thread
        try:
            obs, parsed, failed = self._observe(path, off, rng, rate, ref, only, thread)
        finally:
            _THREAD[0] = 0
        record = None
        if parsed or failed:        # what is needed to make the same Parser calls again (history of later cases)
            record = dict(source='file', file=self.name, offset=off, thread=thread, only=parsed)
        case_done(thread, failed, record)
        return obs

    def _observe(self, path, off, rng, rate, ref, only, thread):
        nl, part = self.locate(off)
        if off >= len(self.data):
            nl, part = len(self.phys), ''
            if self.phys and not self.phys[-1].endswith('\n'):
                nl, part = len(self.phys) - 1, self.phys[-1]
        prec = classify(part) if part else None
        frec = self.recs[nl] if nl < len(self.recs) else ('eof', None)
        obs = dict(off=off, pos=self.sig_before[nl], nl=nl, part=prec, full=frec, cut=cut_class(frec, prec),
                   outcome=None, exc=None, where=None, keys=[], eds=[], times=[], diff='', nparse=0, after=list(_HISTORY),
                   thread=thread, before=list(_RECENT))
        parsed, failed = [], False
        outcome, parser, exc, where = open_listing(path)
        obs['outcome'], obs['exc'], obs['where'] = outcome, exc, where
        if exc:
            obs['where'] = 'scan:' + str(where)
        if parser is None:
            return obs, parsed, True
        sc = parser.scan_res
        phys = self.phys[:nl] + ([part] if part else [])
        obs['keys'] = [int(k) for k in sc.keys()]
        obs['times'] = scan_times(sc)
        todo = []
        for n in obs['keys']:
            block = sc[n]
            first, last = match_block(block, phys, self.results_idx, self.diverting)
            times = sorted((k, t) for k, b, t in obs['times'] if b == n)
            sig = (hashlib.sha1(block.encode('utf-8', 'ignore')).hexdigest(), tuple(times), bool(sc.partial))
            todo.append((n, first, last, times, sig))
        # which editions are parsed for real: all when there is no memo (rng None); otherwise those whose scanned
        # block / times / partial flag changed since they were last parsed, plus (seeded sample) the last and a random one
        force = set()
        if rng is None and only == 'last':          # the last stored edition
            force = set(obs['keys'][-1:])
        elif rng is None:
            force = set(only) if only is not None else set(obs['keys'])
        elif obs['keys'] and rng.random() < rate:
            force = {obs['keys'][-1], rng.choice(obs['keys'])}
        for n, first, last, times, sig in todo:
            memo = self.memo.get(n)
            if n not in force and memo is not None and memo[0] == sig:
                status, diff, pexc, pwhere = memo[1:5]
                if status == 'other':
                    obs['outcome'], obs['exc'], obs['where'] = 'Other', pexc, 'parse:' + str(pwhere)
            elif rng is None and n not in force:
                status, diff = 'skipped', ''
            else:
                status, pres, pexc, pwhere = parse_edition(parser, n)
                obs['nparse'] += 1
                parsed.append(n)
                failed = failed or status != 'ok'
                diff = ''
                if status == 'other':
                    obs['outcome'], obs['exc'], obs['where'] = 'Other', pexc, 'parse:' + str(pwhere)
                    if pexc == 'Hang':          # nothing more can be asked of this process
                        break
                elif status == 'ok' and ref is not None:
                    rres = ref(n)
                    if rres == 'absent':
                        diff = 'results: edition does not exist in the complete listing'
                    elif rres is not None:
                        diff = edition_diff(pres.res, rres)
                self.memo[n] = (sig, status, diff, pexc, pwhere)
            if diff and not obs['diff']:
                obs['diff'] = 'edition %d: %s' % (n, diff)
            obs['eds'].append(dict(n=n, first=first + 1, last=last + 1, ok=status == 'ok',
                                   times=[dict(k=k, t=t) for k, t in times]))
        return obs, parsed, failed

    def ref_edition(self, n):
        """results of edition n of the COMPLETE listing (parsed on demand, once): res dict, None when the complete
        listing's edition does not parse, 'absent' when it has no such edition."""
        if self.full_parser is None:
            self.full_parser = self._open_full()
        if n not in self.ref:
            if not self.full_parser or n not in self.full_parser.batch_numbers():
                self.ref[n] = 'absent'
            else:
                status, pres, pexc, _ = parse_edition(self.full_parser, n)
                if pexc == 'Hang':
                    _REF_HANGS.append(self._hang_case('parse'))
                self.ref[n] = pres.res if status == 'ok' else None
        return self.ref[n]

    def _open_full(self):
        _, parser, exc, _ = open_listing(self.path)
        if exc == 'Hang':
            _REF_HANGS.append(self._hang_case('scan'))
        return parser or False

    def _hang_case(self, stage):
        """(key, what, case) of a hang met while the COMPLETE listing is parsed as the reference of a prefix"""
        return ('C11/hang/%s/complete' % stage, 'no answer from the %s of the complete listing %s, asked for as the reference '
                'of a prefix' % (stage, self.name),
                dict(source='file', file=self.name, offset=len(self.data), after=list(_HISTORY), thread=_THREAD[0],
                     before=list(_RECENT)))

    def complete_obs(self, rng=None, last=False):
        """observation of the complete listing (all editions parsed when there are few, else the first and last two;
        rng: the last and a random one; last: the last one)."""
        saved, self.memo = self.memo, {}
        only = None
        if self.full_parser is None:
            self.full_parser = self._open_full()
        if self.full_parser:
            nums = [int(x) for x in self.full_parser.batch_numbers()]
            only = nums if len(nums) <= 12 else nums[:2] + nums[-2:]
            if rng is not None:
                only = [nums[-1], rng.choice(nums)]
            if last:
                only = nums[-1:]
        obs = self.observe(self.path, len(self.data), ref=self.ref_edition, only=only)
        self.memo = saved
        return obs


def obs_key(obs):
    """hashable digest of what TLC has to validate (offsets giving the same digest are validated once)."""
    return json.dumps([obs['pos'], obs['part'], obs['outcome'], obs['keys'], obs['eds'], obs['times']], sort_keys=True)


def finding_of(obs, tlc_bad=False):
    """(key, what) of the property violation shown by an observation, or None."""
    kind = obs['full'][0]
    if obs['outcome'] == 'Other':
        stage = (obs['where'] or '?').split(':')[0]
        if obs['exc'] == 'Hang':
            return ('C11/hang/%s/%s' % (stage, kind),
                    'no answer: the thread that parses is blocked (no CPU time used for %d s) or has used %.0f s of CPU time'
                    % (QUIET * TICK, WATCHDOG))
        if stage == 'parse':
            return ('C11/parse/%s/%s' % (obs['exc'], obs['where'].split(':', 1)[1]),
                    'parse_from_number raises %s (from %s) instead of ParserException' % (obs['exc'], obs['where']))
        return ('C11/scan/%s/%s' % (obs['exc'], kind),
                'Parser(path) raises %s (from %s) instead of ParserException when the file ends inside a %r line (%s)'
                % (obs['exc'], obs['where'], kind, obs['cut']))
    if obs['diff']:
        what = obs['diff'].split(': ', 1)[1].split(':')[0]
        return ('C11/edition-differs/%s/%s:%s' % (what, kind, obs['cut']),
                'file ends inside a %r line (%s): parsing succeeds but %s' % (kind, obs['cut'], obs['diff']))
    if tlc_bad:
        return ('C11/edition-differs/block/%s:%s' % (kind, obs['cut']),
                'T4ScanTrace!Prop false: an edition parsed from the prefix is not the edition of the complete listing '
                '(keys %s, editions %s)' % (obs['keys'], obs['eds']))
    return None


# ----------------------------------------------------------------------------------------------
# rendering abstract listings (spec -> code)

_TEMPLATES = {
    'batch': '        BATCH {n}\n', 'tasks': ' number of tasks is : {n}\n', 'packet': '\tPACKET_LENGTH {n}\n',
    'init': ' initialization time (s): {n}\n', 'batchnum': ' batch number : {n}\n',
    'numbatch': ' number of batch : {n}\n', 'edition': ' Edition after batch number : {n}\n',
    'used': 'number of batches used: {n}\t1.414729e+01\t1.419579e+00\n',
    'simtime': ' simulation time (s) : {n}\n', 'exptime': ' exploitation time (s) : {n}\n',
    'elapsed': ' elapsed time (s): {n}\n',
    'results': ' RESULTS ARE GIVEN FOR SOURCE INTENSITY : 1.000000e+00\n', 'partial': '  PARTIAL EDITION (USER SIGNAL)\n',
    'normal': '\tNORMAL COMPLETION\n', 'warning': ' WARNING\n', 'error': ' ERROR\n', 'fatal': ' FATAL ERROR\n',
    'genhdr': ' Type and parameters of random generator at the end of simulation: \n',
    'counter': '\t DRAND48_RANDOM 13236 22148 49521  COUNTER\t807336835\n',
    'comment': '// GRAF -10 -50 -50 1 0 0 0 1 0 100 100 1\n', 'other': ' method name : T4_read_data\n',
}
_KEYWORD = {
    'batch': 'BATCH', 'tasks': 'number of tasks is', 'packet': 'PACKET_LENGTH', 'init': 'initialization time',
    'batchnum': ' batch number :', 'numbatch': ' number of batch', 'edition': 'Edition after batch number',
    'used': 'number of batches used', 'simtime': 'simulation time', 'exptime': 'exploitation time',
    'elapsed': 'elapsed time', 'results': 'RESULTS ARE GIVEN', 'partial': 'PARTIAL EDITION', 'normal': 'NORMAL COMPLETION',
    'warning': 'WARNING', 'error': 'ERROR', 'fatal': 'FATAL ERROR', 'genhdr': 'at the end of simulation:', 'counter': 'COUNTER',
}
_RESPONSE = []


def _response_block():
    """One response (header, one scoring zone, spectrum + integrated result) copied from the PARA example listing;
    its last line is the 'number of batches used' line."""
    if not _RESPONSE:
        path = os.path.join(core.REPO, DATA_DIRS[0], 'ttsSimplePacket20.d.PARA.res.ceav5')
        with open(path, encoding='utf-8', errors='ignore') as f:
            lines = f.readlines()
        a = next(i for i, x in enumerate(lines) if x.startswith('*' * 78))
        b = next(i for i, x in enumerate(lines) if i > a and 'number of batches used' in x)
        _RESPONSE.extend(lines[a:b + 1])
    return list(_RESPONSE)


def render(lines):
    """abstract lines [(kind, num)] -> chunks [dict(pre, line, post, kind, num)] of concrete text."""
    chunks = []
    in_block = False
    for kind, num in lines:
        pre, post = [], []
        line = _TEMPLATES[kind].replace('{n}', str(num) if num is not None else '')
        if kind == 'results':
            in_block = True
            post = ['*' * 57 + '\n', '\n', '\n',
                    ' Mean weight leakage = 7.130508e+02\t sigma = 1.003534e+01\t sigma% = 1.407380e+00\n', '\n']
        elif kind == 'edition':
            post = ['\n', '\n']
        elif kind == 'other' and in_block:
            blk = _response_block()
            pre, line, post = blk[:-1], blk[-1], ['\n', '\n']
        elif kind == 'used':
            # one response block per "number of batches used" line; its scores depend on its place in the listing
            # (two editions of a job never print the same numbers)
            score = '1.4147%02de+01' % (len(chunks) % 100)
            pre, post = [x.replace('1.414729e+01', score) for x in _response_block()[:-1]], ['\n', '\n']
            line = line.replace('1.414729e+01', score)
        elif kind in ('simtime', 'exptime') and in_block:
            in_block = False
            pre, post = ['\n'], ['\n']
        elif kind == 'elapsed' and in_block:
            in_block = False
        elif kind == 'normal':
            pre, post = ['\n', '=' * 69 + '\n'], ['=' * 69 + '\n']
        elif kind in ('init', 'batchnum', 'partial', 'warning', 'fatal', 'elapsed'):
            pre, post = ['\n'], ['\n']
        chunks.append(dict(pre=pre, line=line, post=post, kind=kind, num=num))
    return chunks


def cut_line(chunk, cut):
    """text of the interpreted line of a chunk cut according to the model's cut class."""
    line, kind, num = chunk['line'], chunk['kind'], chunk['num']
    if cut == 'noeol':
        return line[:-1]
    if cut == 'mid':
        return line[:max(1, len(line) // 2)]
    if cut == 'kw':
        kw = _KEYWORD[kind]
        at = line.index(kw)
        return line[:at + max(1, len(kw.strip()) // 2 + (len(kw) - len(kw.lstrip())))]
    tmpl = _TEMPLATES[kind]
    before = tmpl.split('{n}')[0]
    if cut == 'nonum':
        return before
    if cut == 'digits':
        return before + str(num)[:-1]
    raise tlc.MachineryError('unknown cut class %r' % cut)


def prefix_text(chunks, pos, cut):
    parts = []
    for c in chunks[:pos]:
        parts += c['pre'] + [c['line']] + c['post']
    if cut != 'none':
        c = chunks[pos]
        parts += c['pre'] + [cut_line(c, cut)]
    return ''.join(parts)


def block_text(chunks, ids, cut_at=None, cut='none'):
    """expected text of a stored block made of the abstract lines `ids` (1-based); line `cut_at` is the
    unterminated last line of the file, cut according to `cut`."""
    first, last = ids[0], ids[-1]
    parts = []
    for i in range(first, last + 1):
        if i not in ids:
            continue
        c = chunks[i - 1]
        if i != first:
            parts += c['pre']
        parts.append(cut_line(c, cut) if i == cut_at else c['line'])
        if i != last:
            parts += c['post']
    return ''.join(parts)


def _num(seq):
    return int(seq[0]) if len(seq) else None


def plain(v):
    """TLC value -> plain picklable Python (FrozenDict cannot be unpickled: it forbids item assignment)."""
    if isinstance(v, dict):
        return {(k if isinstance(k, (int, str)) and not isinstance(k, MV) else str(k)): plain(x) for k, x in v.items()}
    if isinstance(v, (tuple, list)):
        return [plain(x) for x in v]
    if isinstance(v, (set, frozenset)):
        return sorted(plain(x) for x in v)
    if isinstance(v, MV):
        return str(v)
    return v


def _model_proj(state_scan, verdict_open, ok_set, chunks, cut_at=None, cut='none'):
    """projection of a TLC scanner state in the terms observed on the implementation."""
    if verdict_open != 'Ok':
        return dict(outcome='ParserError')
    keys = [int(k) for k in state_scan['keys']]
    times = sorted((k, int(b), int(t)) for k, f in state_scan['times'].items() for b, t in dict(f).items())
    blocks = {n: block_text(chunks, [int(x) for x in state_scan['blocks'][n]['lines']], cut_at, cut) for n in keys}
    return dict(outcome='Ok', keys=keys, times=times, blocks=blocks, ok=sorted(int(x) for x in ok_set),
                para=bool(state_scan['para']), partial=bool(state_scan['partial']), normalend=bool(state_scan['normalend']),
                warnings=int(state_scan['warnings']), errors=int(state_scan['errors']))


_REF_CACHE = {}
_REF_HANGS = []          # (key, what, case): hangs met while a complete listing was parsed as a reference


_PARSE_MEMO = {}


def run_model_case(lines, pos, cut, tmp, memo=False, thread=None):
    """Render and run one (listing, prefix, cut) -> dict with the implementation's projection and, when the
    prefix parses, the comparison of every edition with the complete rendered listing.  The Parser calls are made by
    thread `thread` of this process (None: the next one in turn, see pick_thread)."""
    _THREAD[0] = thread = pick_thread() if thread is None else thread
    before = list(_RECENT)
    try:
        impl, chunks = _run_model_case(lines, pos, cut, tmp, memo)
    finally:
        _THREAD[0] = 0
    impl.update(thread=thread, before=before)
    failed = impl['outcome'] != 'Ok' or len(impl['ok']) < len(impl['keys'])
    case_done(thread, failed, dict(source='model', lines=[list(x) for x in lines], pos=pos, cut=cut, thread=thread))
    return impl, chunks


def _run_model_case(lines, pos, cut, tmp, memo):
    chunks = render(lines)
    full_text = prefix_text(chunks, len(chunks), 'none')
    text = prefix_text(chunks, pos, cut)
    rkey = hashlib.sha1(full_text.encode()).hexdigest()
    if cut != 'none':
        want = {'kw': 'other', 'mid': None}.get(cut, lines[pos][0])
        got = classify(cut_line(chunks[pos], cut))[0]
        if want is not None and got != want:
            raise tlc.MachineryError('rendering of cut %s of a %s line classifies as %s' % (cut, lines[pos][0], got))
    if rkey not in _REF_CACHE:
        if len(_REF_CACHE) > 4:
            _REF_CACHE.clear()
        with open(tmp, 'w', encoding='utf-8') as f:
            f.write(full_text)
        ref = {}
        outcome, parser, _, _ = open_listing(tmp)
        if parser is not None:
            for n in parser.batch_numbers():
                status, pres, _, _ = parse_edition(parser, int(n))
                ref[int(n)] = pres.res if status == 'ok' else None
        _REF_CACHE[rkey] = ref
    ref = _REF_CACHE[rkey]
    with open(tmp, 'w', encoding='utf-8') as f:
        f.write(text)
    impl = dict(outcome=None, exc=None, where=None, keys=[], times=[], blocks={}, ok=[], diff='', nparse=1)
    outcome, parser, exc, where = open_listing(tmp)
    impl.update(outcome=outcome, exc=exc, where='scan:%s' % where if exc else None)
    if parser is not None:
        sc = parser.scan_res
        impl.update(keys=[int(k) for k in sc.keys()], times=scan_times(sc), para=bool(sc.para), partial=bool(sc.partial),
                    normalend=bool(sc.normalend), warnings=int(sc.countwarnings), errors=int(sc.counterrors))
        for n in impl['keys']:
            impl['blocks'][n] = sc[n]
            # an edition stored earlier with the block, times and flags it had in a previous case of this process
            # is not re-parsed (same text through the same grammar); the edition stored last always is
            sig = (n, sc[n], tuple(t for t in impl['times'] if t[1] == n), impl['para'], impl['partial'],
                   impl['normalend'], impl['warnings'], impl['errors'], rkey)
            if memo and n != impl['keys'][-1] and sig in _PARSE_MEMO:
                status, pres, pexc, pwhere = _PARSE_MEMO[sig]
            else:
                status, pres, pexc, pwhere = parse_edition(parser, n)
                impl['nparse'] += 1
                if len(_PARSE_MEMO) > 64:
                    _PARSE_MEMO.clear()
                _PARSE_MEMO[sig] = (status, pres, pexc, pwhere)
            if status == 'other':
                impl.update(outcome='Other', exc=pexc, where='parse:%s' % pwhere)
                if pexc == 'Hang':              # nothing more can be asked of this process
                    break
            elif status == 'ok':
                impl['ok'].append(n)
                if n not in ref:
                    impl['diff'] = impl['diff'] or 'edition %d: results: edition does not exist in the complete listing' % n
                elif ref[n] is not None:
                    d = edition_diff(pres.res, ref[n])
                    if d and not impl['diff']:
                        impl['diff'] = 'edition %d: %s' % (n, d)
    return impl, chunks


def expectation(final_st, final_out):
    """What TLC computed for the COMPLETE listing, in JSON-able form (stored in the replay case: the oracle of a
    replay is still TLC's value): outcome, stored batch numbers, parsable editions, line ids of every block, times."""
    if final_out['open'] != 'Ok':
        return dict(outcome='ParserError')
    keys = [int(k) for k in final_st['keys']]
    return dict(outcome='Ok', keys=keys, ok=sorted(int(x) for x in final_out['ok']),
                lines={str(n): [int(x) for x in final_st['blocks'][n]['lines']] for n in keys},
                times=sorted([k, int(b), int(t)] for k, f in final_st['times'].items() for b, t in dict(f).items()))


def layout_suffix(lines):
    """suffix of the finding key naming the listing layout, '' for the layouts of the first family (mono listings;
    parallel listings without edition line whose last "number of batches used" is the greatest, at most 2 editions)."""
    if not any(k == 'tasks' for k, _ in lines):
        return ''
    eds, cur = [], None
    for k, n in lines:
        if k == 'results':
            cur = dict(used=[], edline=False)
        elif cur is not None and k == 'used' and n is not None:
            cur['used'].append(n)
        elif cur is not None and k == 'edition':
            cur['edline'] = True
        elif cur is not None and k in TIME_KEYS.values():
            eds.append(cur)
            cur = None
    if any(e['used'] and e['used'][-1] != max(e['used']) for e in eds):
        return '/para-last-used-not-greatest'
    if any(e['edline'] for e in eds):
        return '/para-edition-line'
    return '/para-3-editions' if len(eds) >= 3 else ''


def property_finding(impl, chunks, exp, kind, cut, pos):
    """(key, what) | None: the property-level verdict on one rendered (listing, prefix, cut).  `exp` is TLC's
    scan of the complete listing (expectation())."""
    obs = dict(outcome=impl['outcome'], exc=impl['exc'], where=impl['where'], diff=impl['diff'], full=(kind, None),
               cut=cut, keys=impl['keys'], eds=[])
    fnd = finding_of(obs)
    if fnd is None and impl['outcome'] == 'Ok':
        cut_at = None if cut == 'none' else pos + 1
        ftimes = {(k, b): t for k, b, t in exp.get('times', [])}
        for n in impl['ok']:
            why = None
            if exp['outcome'] != 'Ok' or n not in exp['ok']:
                why = 'edition %d is not an edition of the complete listing' % n
            elif impl['blocks'][n] not in (block_text(chunks, exp['lines'][str(n)]),
                                           block_text(chunks, exp['lines'][str(n)], cut_at, cut)):
                # (same lines: the last one may be the unterminated line of the prefix)
                why = 'block of edition %d is not the block of the complete listing' % n
            else:
                for k, b, t in impl['times']:
                    if b == n and (k, b) in ftimes and ftimes[(k, b)] != t:
                        why = 'time %s of edition %d is %s, %s in the complete listing' % (k, n, t, ftimes[(k, b)])
            if why:
                fnd = ('C11/edition-differs/%s/%s:%s' % ('time' if why.startswith('time') else 'block', kind, cut),
                       'file ends inside a %r line (%s): parsing succeeds but %s (T4Scan!Agrees false)' % (kind, cut, why))
                break
    return fnd


def judge_model_case(impl, chunks, st, alt, out, exp, kind, cut, pos=None):
    """-> (finding | None, conforms: bool).  The oracle is what TLC computed (st/alt/out of this state and of the
    state of the complete listing)."""
    fnd = property_finding(impl, chunks, exp, kind, cut, pos)
    conforms = False
    for scan_state, op, ok in ((st, out['open'], out['ok']), (alt, out['altOpen'], out['altOk'])):
        m = _model_proj(scan_state, op, ok, chunks, None if cut == 'none' else pos + 1, cut)
        if impl['outcome'] != m['outcome']:
            continue
        if m['outcome'] != 'Ok':
            conforms = True
            break
        if (impl['keys'] == m['keys'] and impl['times'] == m['times'] and impl['blocks'] == m['blocks']
                and set(impl['ok']) <= set(m['ok'])
                and all(impl[k] == m[k] for k in ('para', 'partial', 'normalend', 'warnings', 'errors'))):
            conforms = True
            break
    return fnd, conforms


# ----------------------------------------------------------------------------------------------
# worker processes

def _init_worker():
    signal.signal(signal.SIGALRM, _on_alarm)
    core.use_repo()


_TMP = {}
_SCRATCH = []          # scratch root of the running check (under tlc.workdir()), inherited by the forked workers


def _tmp_path():
    pid = os.getpid()
    if pid not in _TMP:
        if not _SCRATCH:
            _SCRATCH.append(tlc.workdir('c11w'))
        d = os.path.join(_SCRATCH[0], 'w%d' % pid)
        os.makedirs(d, exist_ok=True)
        _TMP[pid] = os.path.join(d, 'cut.res')
    return _TMP[pid]


_LISTINGS = {}

# ----------------------------------------------------------------------------------------------
# synthetic listings of parallel jobs with several editions (code -> spec).  Name (replayable):
#   synth|<shipped one-edition PARA listing>|<editions>|<0/1 "Edition after batch number" line>|<pattern>|<seed>|<dt>
# The edition of the shipped listing is repeated; in edition e (batch number B_e = e x the count of the shipped one)
# the "number of batches used" lines of the response blocks carry, according to <pattern>,
#   uniform  B_e everywhere
#   discard  B_e, except the last block (a score that discards its first batches): the count of the shipped listing,
#            the same in every edition
#   mixed    seeded values among {shipped count, B_(e-1), B_e - 1, B_e}, B_e at least once
# the scores of the integrated results and the elapsed times differ from edition to edition; the simulation time grows
# by <dt> seconds per edition (0: a short job, every edition prints the same simulation time).
SYNTH = 'synth|'
_FLAGS_B = tuple(flag.encode() for flag, _ in END_FLAGS)
_USED_B = re.compile(rb'(number of batches used:\s*)(\d+)')
_SCORE_B = re.compile(rb'(\d\.\d{5})(\d)(e[+-]\d\d)')
_TRAIL_INT_B = re.compile(rb'(\d+)(\s*)\Z')


def synth_bases():
    """shipped listings of parallel jobs with exactly one edition."""
    out = []
    for _, rel in listing_files():
        with open(os.path.join(core.REPO, rel), 'rb') as f:
            data = f.read()
        if b'number of tasks is' in data and data.count(b'RESULTS ARE GIVEN') == 1 and b'number of batches used' in data:
            out.append(rel)
    return out


def synth_names(bases, quick):
    combos = ([(2, 0, 'discard', 1, 0), (3, 0, 'mixed', 1, 113), (3, 1, 'mixed', 2, 0), (2, 1, 'uniform', 1, 113)] if quick else
              [(ne, ed, pat, seed, (0, 113)[(ne + ed + seed) % 2]) for ne in (2, 3) for ed in (0, 1)
               for pat, seeds in (('uniform', (1,)), ('discard', (1, 2)), ('mixed', (1, 2, 3, 4))) for seed in seeds])
    return ['%s%s|%d|%d|%s|%d|%d' % (SYNTH, b, ne, ed, pat, seed, dt) for b in bases for ne, ed, pat, seed, dt in combos]


def synth_bytes(rel):
    _, base, ne, edline, pattern, seed, dt = rel.split('|')
    ne, edline, seed, dt = int(ne), int(edline), int(seed), int(dt)
    with open(os.path.join(core.REPO, base), 'rb') as f:
        lines = f.read().splitlines(keepends=True)

    def is_end(x):
        return any(flag in x for flag in _FLAGS_B)
    i_init = next(i for i, x in enumerate(lines) if b'initialization time' in x)
    i_res = next(i for i, x in enumerate(lines) if b'RESULTS ARE GIVEN' in x)
    start = i_res - 2 if i_res >= 2 and lines[i_res - 2].startswith(b'*' * 20) else i_res
    stop = next(i for i, x in enumerate(lines) if i > i_res and is_end(x))
    more = True
    while more:                                    # "elapsed time" follows "simulation time" in parallel jobs
        more = False
        for k in range(stop + 1, min(stop + 4, len(lines))):
            if is_end(lines[k]):
                stop, more = k, True
                break
    header, pre, edition, tail = lines[:i_init + 1], lines[i_init + 1:start], lines[start:stop + 1], lines[stop + 1:]
    used = [i for i, x in enumerate(edition) if _USED_B.search(x)]
    count0 = max(int(_USED_B.search(edition[i]).group(2)) for i in used)
    out = list(header)
    for e in range(1, ne + 1):
        b_e = count0 * e
        rng = random.Random(seed * 7 + e)
        if pattern == 'uniform' or len(used) < 2:
            vals = [b_e] * len(used)
        elif pattern == 'discard':
            vals = [b_e] * (len(used) - 1) + [count0]
        else:
            pool = [count0, b_e - 1, b_e] + ([count0 * (e - 1)] if e > 1 else [])
            vals = [rng.choice(pool) for _ in used]
            vals[-1] = rng.choice([count0, count0, vals[-1]])
            vals[rng.randrange(len(used) - 1)] = b_e
        body = list(pre) + list(edition)
        for i, v in zip(used, vals):
            x = _USED_B.sub(lambda m, v=v: m.group(1) + str(v).encode(), body[len(pre) + i], count=1)
            body[len(pre) + i] = _SCORE_B.sub(
                lambda m: m.group(1) + str((int(m.group(2)) + e - 1) % 10).encode() + m.group(3), x, count=1)
        for i, x in enumerate(body):
            if is_end(x) and e > 1:
                step = 113 if b'elapsed time' in x else dt
                body[i] = _TRAIL_INT_B.sub(lambda m, k=step: str(int(m.group(1)) + k * (e - 1)).encode() + m.group(2), x, count=1)
        if edline:
            at = next((i for i, x in enumerate(body) if i > len(pre) + (i_res - start) and x.startswith(b'*' * 70)),
                      len(pre) + (i_res - start) + 2)
            body[at:at] = [b' Edition after batch number : %d\n' % b_e, b'\n', b'\n', b'\n']
        out += body
    return b''.join(out + tail)


# ----------------------------------------------------------------------------------------------
# listings written from the GRAMMAR (grammar.py / transform.py / common.py), for the layouts no shipped listing has:
# nu and (Z,A) spectra, every order of the nucleus / temperature / composition / concentration / reaction details (a
# parse action rebuilds a shared Forward from the first one), the other response characteristics, every scoring zone,
# correspondence table, MED file, best result, non-converged results (combined keff, generic response), kij matrices of other dimensions (parse actions
# size shared Forwards), lists of fissile volumes, parna likelihood, keff warnings, scores by perturbation index,
# reaction-rate-ratio sensitivities, normalised IFP criticality editions with other table formats, perturbation order,
# contributing particles, packet-length warning, the other introduction lines, uncertainty spectra per time step.
# Name (replayable): gram|<layout>.  Two editions (batch 10 and 20) with different numbers, mono-processor job.
# They are (1) cut like the other listings and (2) parsed complete, in turn, between the parses of the prefixes of
# EVERY listing (history clause: "whatever was parsed earlier in the same process").
GRAM = 'gram|'
_S57, _S78 = '*' * 57 + '\n', '*' * 78 + '\n'


def _f(x):
    return '%e' % x


def _resp(func, carac=(), name='resp', score=None, split='ENERGY DECOUPAGE NAME : DEC_SPECTRE', particle='NEUTRON'):
    """introduction of a response (respdesc + respcarac lines between two lines of stars)"""
    out = _S78 + 'RESPONSE FUNCTION : %s\n' % func
    if name is not None:
        out += 'RESPONSE NAME : %s\n' % name
    if score is not None:
        out += 'SCORE NAME : %s\n' % score
    if split:
        out += split + '\n'
    out += '\n' + ''.join(c + '\n' for c in carac)
    if particle:
        out += '\n PARTICULE : %s \n' % particle
    return out + _S78 + '\n'


_ZONE_VOL = '\t Volume \t num of volume : 2\n\t Volume in cm3: 1.000000e+00\n'


def _desc(zone=_ZONE_VOL, mode='SCORE_TRACK'):
    return '\t scoring mode : %s\n\t scoring zone : %s\n\n' % (mode, zone)


def _integ(e, k=1.0, disc=True, title='\t ENERGY INTEGRATED RESULTS\n\n'):
    return (title + ('\t number of first discarded batches : 0\n\n' if disc else '')
            + 'number of batches used: %d\t%s\t%s\n\n\n' % (10 * e, _f(4.5 * k * e), _f(0.5 / e)))


def _spectrum(e, k=1.0, groups=1):
    rows = [(20., 15., 0., 0., 0.), (15., 10., 2.5 * k * e, 1. / e, 6.165759 * k * e),
            (10., 5., 1.5 * k * e, 2. / e, 2.164043 * k * e), (5., 1e-11, .5 * k * e, 3. / e, 0.018658 * k * e)][-groups:]
    return ('\t SPECTRUM RESULTS\n\t number of first discarded batches : 0\n\n'
            '\t group\t\t\t score\t\t sigma_% \t score/lethargy\n'
            'Units:\t MeV\t\t\t neut.cm.s^-1\t %\t\t neut.cm.s^-1\n\n'
            + ''.join('%s - %s\t%s\t%s\t%s\n' % tuple(_f(x) for x in r) for r in rows) + '\n' + _integ(e, k))


def _nu_spectrum(e):
    rows = [(0., 1., .1 * e, 5. / e), (1., 2., .3 * e, 4. / e), (2., 3., .4 * e, 3. / e), (3., 4., .2 * e, 6. / e)]
    return ('\t NU RESULTS\n\t number of first discarded batches : 0\n\n\t range\t\t\t score\t\t sigma_%\n'
            'Units:\t nu\t\t\t neut.s^-1\t %\n\n'
            + ''.join('%s - %s\t%s\t%s\n' % tuple(_f(x) for x in r) for r in rows) + '\n' + _integ(e, .2))


def _za_spectrum(e):
    rows = [(z, a, .01 * (z + a) * e, 7. / e) for z in (38, 39) for a in (94, 95, 96)]
    return ('\t ZA RESULTS\n\t number of first discarded batches : 0\n\n\t (Z,A)\t\t\t score\t\t sigma_%\n'
            'Units:\t \t\t\t neut.s^-1\t %\n\n'
            + ''.join('(%d,%d)\t%s\t%s\n' % (z, a, _f(s), _f(g)) for z, a, s, g in rows) + '\n' + _integ(e, .3))


def _edition(e, body, intro='', before='', simtime=None):
    n = 10 * e
    return (' batch number : %d\n\n\n' % n + _S57 + '\n RESULTS ARE GIVEN FOR SOURCE INTENSITY : 1.000000e+00\n' + _S57
            + '\n' + intro + '\n Edition after batch number : %d\n\n\n\n' % n + body + before
            + ' simulation time (s) : %d\n\n\n' % (simtime if simtime is not None else 12 * e + 1))


_HEADER = ' data reading time (s): 0\n\n\tBATCH\t20\n\tSIZE\t1000\n\n initialization time (s): 0\n\n'
_FOOTER = (' Type and parameters of random generator at the end of simulation: \n'
           '\t DRAND48_RANDOM 13531 45249 20024  COUNTER\t2062560\n\n\n' + '=' * 69 + '\n\tNORMAL COMPLETION\n' + '=' * 69 + '\n')


def _compos(e):
    """characteristics of the response: every first key of the stateful `_next_compos` and the other respcarac"""
    details = {'reaction on nucleus': 'U235', 'temperature': '300', 'composition': 'COMBUSTIBLE',
               'concentration': '7.686400e-05', 'reaction consists in': 'codes : 18+102'}
    keys = list(details)
    out = ''
    for i, first in enumerate(keys):
        order = [first] + [k for k in keys if k != first]
        carac = ['\t %s%s %s' % (k, '' if k.startswith('reaction consists') else ' :', details[k]) for k in order]
        if i % 2:       # two nuclei
            carac += ['\t %s%s %s' % (k, '' if k.startswith('reaction consists') else ' :',
                                      {'reaction on nucleus': 'U238', 'reaction consists in': 'total fission'}.get(k, details[k]))
                      for k in order]
        out += _resp('REACTION', carac, name='reac_%d' % i) + _desc() + _spectrum(e, 1 + i)
    others = [['RESPONSE FILTERED BY 2 COMPOSITIONS : COMBUSTIBLE EAU', 'INCIDENT PARTICULE : NEUTRON',
               'NOISE EQUATION : REAL PART', 'DPA TYPE: NRT-DPA, arc', 'REQUIRED ARGUMENT(S): 2', 'MODE : KERMA',
               'INDUCED BY INTERACTION : 102 18', 'SPECTRUM : WATT', 'Score filtered by volume : 1 2 With ALL_COLLISIONS'],
              ['NOT INDUCED BY INTERACTION : 2', 'Score filtered by volume : 3', 'neutron (prompt) FXPT CONTRIBUTION']]
    for i, carac in enumerate(others):
        out += _resp('FLUX', carac, name='carac_%d' % i) + _desc() + _spectrum(e, 10 + i)
    return out


def _mesh(e):
    cells = [(i, j, 0) for i in range(2) for j in range(2)]
    rng = lambda lo, hi: 'Energy range (in MeV): %s - %s\n' % (_f(lo), _f(hi))
    vals = lambda k: ''.join('\t (%d,%d,%d)\t %s\t%s\n' % (c + (_f(k * e * (1 + n)), _f(1. / e))) for n, c in enumerate(cells))
    return ('\n' + rng(20., 1.) + vals(1.) + '\n' + rng(1., 1e-11) + vals(2.) + '\n'
            + 'ENERGY INTEGRATED RESULTS :\n' + vals(3.) + '\n'
            + '\t %s : out_flux.med\n\t MED mesh id flux_mesh\n\n' % ('Creating MED output file', '# Creating output file')[e % 2])


def _zones(e):
    """every scoring zone of the grammar, one score each, and the optional blocks of a score"""
    zones = ['\t Results cumulated on all sources\n',
             '\t Volume \t num of volume : FUEL_PIN\n\t Volume in cm3: 2.000000e+00\n'
             '\t The volume has been provided by the user (the user requested a score per unit volume)\n',
             '\t Volume \t num of volume : 3\n\t Volume in 1.000000e+00 cm3: 6.000000e+00\n'
             '\t The result is integrated in volume\n',
             '\t Volume \t num of volume : 4\n\t Volume in cm3: 1.000000e+00\n'
             '\t The volume has been calculated by Tripoli-4 or provided by the user\n',
             '\t Frontier \t volumes : 2,1\n\t Surface in cm2: 4.000000e+00\n'
             '\t The surface area has been provided by the user (the user requested a score per unit area)\n',
             '\t Frontier Sum \t num of frontiers : (2,1)+(3,1)\t Total surface in cm2: 8.000000e+00\n',
             '\t Volume Sum \t num of volumes : \n\t\t1+2+3\t Total volume in cm3: 3.000000e+00\n',
             '\t Cells (numvol,depth,imaille,jmaille,kmaille...)  (2,1,0,0,0)+(2,2,1,0,0,0,1,0)\n',
             '\t Maille \t num of volume : 2 depth of lattice : 1 num of cell : (0,0,0) (1,0,0)\n',
             '\t Point : -5.000000e+01,0.000000e+00 , 0.000000e+00\n', '\n']
    out = _resp('FLUX', name='zones')
    for i, z in enumerate(zones):
        out += _desc(z, ('SCORE_TRACK', 'SCORE_SURF', 'SCORE_COLL')[i % 3]) + _spectrum(e, 1 + i)
    out += ('Correspondence table between volumes ids and names :\n\tVolume : 1 is : FUEL_PIN\n\tVolume : 2 is : WATER\n\n\n'
            + _desc() + _spectrum(e, 20)
            + '\t best results are obtained with discarding 3 batches\n\t -------------------- \n'
              'number of batches used: %d\t%s\t%s\n\n\n' % (10 * e - 3, _f(4.4 * e), _f(.4 / e)))
    out += (_resp('FLUX', name='mesh_cellvol')
            + _desc('\t Volume in cm3: 4.000000e+00\n\t Cell volume in cm3: 1.000000e+00\n\t Results on a mesh: \n'
                    '\t Cell   \t  tally   \t  sigma (percent)\n') + _mesh(e))
    out += (_resp('FLUX', name='unconverged') + _desc() + _spectrum(e, 30).split('\t ENERGY INTEGRATED')[0]
            + '\t ENERGY INTEGRATED RESULTS\n\n\t number of first discarded batches : 0\n\n NOT YET CONVERGED\n\n\n')
    return out


def _matrix(title, ids, k):
    line = '\t\t\t' + '-' * 40 + '\n'
    return ('\t    %s\n\n\t\t\t' % title + ''.join(' %s\t' % i for i in ids) + '\n' + line
            + ''.join('\t %s\t' % i + ''.join('| %s\t' % _f(k * (1 + r + c)) for c in range(len(ids))) + '|\n' + line
                      for r, i in enumerate(ids)) + '\n\n')


def _best(estim, e, k, extra='', disc=True):
    return ('\t  %s ESTIMATOR\n\t -------------------- \n\n\n' % estim
            + (' \t best results are obtained with discarding %d batches\n\n' % e if disc else '')
            + '\t number of batch used: %d\t keff = %s\t sigma = %s\t sigma%% = %s\n\n' % (10 * e - e, _f(k), _f(k / 1e3), _f(.1))
            + extra + '\n')


def _kij(e, dim=3, printed=True):
    """criticality results: kij matrix (dimension set by a parse action), keff as a response, the "automatic" keff
    block with the parna likelihood, the equivalent keff and a kij estimator preceded by the list of fissile volumes"""
    used = 'number of batches used:\t%d\n\n' % (10 * e)
    head = '\n\tENERGY INTEGRATED RESULTS\n\n' + used
    rows = lambda k: ''.join('\t'.join(_f(k * e * (1 + r + c)) for c in range(dim)) + '\n' for r in range(dim))
    out = (_resp('KIJ_MATRIX', name=None, split=None, particle=None) + head
           + '\n\t left_eigenvalues called\n\t    kij-keff = %s\n\n\t    dominant ratio = %s\n\n\n' % (_f(.9 + .01 * e), _f(.25))
           + 'eigenvalues (re, im)\n\n' + ''.join('%s\t%s\n' % (_f(.9 / (1 + r)), _f(0.)) for r in range(dim)) + '\n\n')
    if printed:
        out += 'eigenvectors\n\n' + rows(.1) + '\nKIJ_MATRIX : \n\n' + rows(.01) + '\n'
    else:
        out += ('KIJ eigenvectors not printed, increase maximum dump size if needed\n\n'
                'KIJ_MATRIX : \n\nKIJ matrix not printed, increase maximum dump size if needed\n\n')
    out += (_resp('KIJ_SOURCES', name=None, split=None, particle=None) + head + 'SOURCES VECTOR : \n\n'
            'Sources are ordered following GEOMCOMP:\n\n' + ''.join(_f(.1 * (1 + r)) + '\n' for r in range(dim)) + '\n')
    out += (_resp('KEFFS', name=None, split=None, particle=None) + head
            + ' KSTEP  %s\t%s\n KCOLL  %s\t%s\n KTRACK %s\t%s\n\n' % tuple(_f(x) for x in (.99, .14, .995, .12, .996, .11))
            + '  \t  estimators  \t\t\t  correlations   \t  combined values  \t  combined sigma%\n'
              '  \t  KSTEP <-> KCOLL  \t    \t  8.220342e-01  \t  9.957839e-01  \t  1.250667e-01\n'
              '  \t  KSTEP <-> KTRACK  \t    \t  7.417923e-01  \t  9.959473e-01  \t  1.162897e-01\n'
              '  \t  KCOLL <-> KTRACK  \t    \t  8.338559e-01  \t  9.959687e-01  \t  1.149536e-01\n\n'
            + ('  \t  full combined estimator  9.959532e-01\t1.150056e-01\n\n\n\n' if printed else
               '  \t  full combined estimator  Not converged (invalid keff domain)\n\n\n\n'))
    if not printed:
        out += (_resp('KEFFS', name=None, split=None, particle=None) + head + ' Warning\n   One of the Keffectives is null and should not be\n'
                '   Combined Keffectives will not be edited\n\n\n'
                + _resp('KEFFS', name=None, split=None, particle=None) + head + ' NOT YET CONVERGED\n\n\n'
                + ' WARNING\n -------\n In FIXED_SOURCES_CRITICITY mode, the keff result\n'
                  " is actually an overall multiplication factor (cf User's Guide)\n\n")
    parna = ("\t parna likelihood confidence interval (on the mean of M = M' + 1)\n"
             '\t mean = 9.9e-01\t lambda = 1.2e+00\t sigma = 1.3e-03\t sigma% = 1.3e-01\n'
             + ''.join('\t proba : %s\t lower = 9.8e-01\t upper = 1.0e+00\t length = 2.0e-02\n'
                       '\t inversion of the CDF converged after : %d iterations\n' % (p, 10 + e) for p in ('0.9973', '0.99')) + '\n')
    out += (_best('KSTEP', e, .99, '\t Equivalent Keff: 9.9e-01\n\n') + _best('KCOLL', e, .995, parna)
            + _best('KTRACK', e, .996, disc=False)
            + '\t  MACRO KCOLL ESTIMATOR\n\t ---------------------------- \n\n\n\t Not converged\n\n\n')
    ids = [str(i + 1) for i in range(dim)] if printed else ['(%d,0,0)' % i for i in range(dim)]
    out += ('\t  KIJ ESTIMATOR\n\t  -------------\n\n'
            + ('\t    number of fissile volumes : %d\n\t    list of fissile volume numbers :  %s\n\n'
               % (dim, ' '.join(str(i + 1) for i in range(dim))) if printed else '')
            + '\t    number of last batches kept : %d\n\n\t    kij-keff = %s\n\n' % (10 * e, _f(.9 + .01 * e))
            + '\t    EIGENVECTOR :      index      source rate\n\n'
            + ''.join('\t\t\t\t %d \t %s\n\n' % (i + 1, _f(1. / dim)) for i in range(dim)) + '\n'
            + _matrix('K-IJ MATRIX :', ids, .01 * e) + _matrix('STANDARD DEVIATION MATRIX :', ids, .001 * e)
            + _matrix('SENSIBILITY MATRIX :', ids, .1 * e))
    return out


def _adjoint(e):
    """adjoint-weighted results: scores by perturbation index with units, sensitivities after a reaction-rate ratio and
    by incident energy, IFP adjoint criticality editions (normalised; the table format is set by a parse action)"""
    used = 'number of batches used:\t%d\n\n' % (10 * e)
    out = (_resp('IFP ADJOINT WEIGHTED PERTURBATION', name=None, split=None, particle=None) + '\n\tENERGY INTEGRATED RESULTS\n\n'
           + used + 'Scores are ordered by perturbation index:\n\n'
           + ''.join(' i = %d : %s %s\n' % (i, _f(.001 * i * e), _f(3. / e)) for i in (1, 2, 3)) + '\nUnits:\t s^-1\t %\n\n')
    out += (_resp('IFP ADJOINT WEIGHTED ROSSI ALPHA', name=None, split=None, particle=None) + '\n\tENERGY INTEGRATED RESULTS\n\n'
            + 'number of batches used: %d\t%s\t%s\n\nUnits:\t %%\n\n' % (10 * e, _f(-1.5 * e), _f(2. / e)))
    table = lambda k: (' E min          E max              S(E)         sigma\n\n'
                       + ''.join(' %s  %s    %s  %s\n' % (_f(lo), _f(hi), _f(-k * e * hi), _f(1. / e))
                                 for hi, lo in ((20., 1.), (1., 1e-11))) + '\n')
    out += (_resp('IFP ADJOINT WEIGHTED REACTION RATE RATIO SENSITIVITIES', name=None, split=None, particle=None) + used
            + 'Scores are ordered by type (SECTION, FISSION NU, FISSION CHI, SCATTERING KERNEL) and index:\n\n'
            + ' REACTION_RATE_RATIO : %s %s\n\n' % (_f(1.2 * e), _f(.5 / e))
            + 'CROSS SECTION SENSITIVITY :\n\n i = 1; NUCLEUS : U238, TYPE : SECTION CODE 52\n\n' + table(1e-4)
            + ' Energy integrated S           %s  %s\n\n' % (_f(-2e-3 * e), _f(.5 / e))
            + 'FISSION CHI SENSITIVITY :\n\n i = 1; NUCLEUS : U235, TYPE : FISSION_CHI\n\n'
            + ''.join(' Incident energy interval in MeV: %s %s\n\n' % (_f(lo), _f(hi)) + table(k)
                      for k, (hi, lo) in ((1e-3, (20., 1.)), (2e-3, (1., 1e-11))))
            + ' Energy integrated S           %s  %s\n\n' % (_f(-3e-3 * e), _f(.6 / e)) + 'Units:\t %\n\n')
    star = _S78 + '\n'
    intro = lambda name, length, norm: ('IFP_ADJOINT_FLUX\n\nSCORE NAME: %s\n\nIFP CYCLE LENGTH = %d\n\n' % (name, length)
                                        + ('RESULTS ARE NORMALIZED\n\n' if norm else '') + star)
    cols = '   score [a.u.]       sigma_%\n\n'
    out += (star + 'IFP_ADJOINT_CRITICALITY EDITION\n\n' + star + intro('adj_x_e', 2, True)
            + '            X (min | max)               E (min | max)' + cols
            + ''.join(' %s  %s  %s  %s  %s  %s\n' % tuple(_f(v) for v in (x0, x1, e0, e1, (1 + n) * .1 * e, 2. / e))
                      for n, (x0, x1, e0, e1) in enumerate((x0, x1, e0, e1) for e0, e1 in ((1e-11, 1.), (1., 20.))
                                                           for x0, x1 in ((-5., 0.), (0., 5.), (5., 10.)))) + '\n' + star
            + intro('adj_vol', 5, False) + '  Vol                  E (min | max)' + cols
            + ''.join('   %d  %s  %s  %s  %s\n' % (v, _f(e0), _f(e1), _f(.01 * v * e), _f(3. / e))
                      for e0, e1 in ((1e-11, 1.), (1., 20.)) for v in (10, 11)) + '\n' + star)
    return out


def _uncert(e, k=1.0):
    return ('\t UNCERTAINTY RESULTS\n\t number of first discarded batches : 0\n\n'
            '\t\t group (Mev) \t\t sigma2(means)   mean(sigma_n2)  sigma(sigma_n2)  fisher test\n\t ' + '-' * 80 + '\n'
            + ''.join('\t%s - %s\t%s\t%s\t%s\t%s\n' % tuple(_f(x) for x in (hi, lo, 1e-7 * k * e, 2e-8 * k, 9e-9 * k, 2e2 / e))
                      for hi, lo in ((10., 5.), (5., 1e-11))) + '\n\n')


def _runinfo(e):
    """what surrounds the responses: perturbation editions (with order), contributing particles; spectra and
    uncertainty spectra per time step.  (the introduction and the end of the edition are given to _edition)"""
    step = lambda t: ('\t TIME STEP NUMBER : %d\n\t ------------------------------------\n'
                      '\t\t time min. = %s\n\t\t time max. = %s\n\n' % (t, _f(3. * t), _f(3. * t + 3.)))
    out = _resp('FLUX', name='per_time_step') + _desc() + ''.join(step(t) + _spectrum(e, 1 + t) for t in (0, 1))
    out += ''.join(step(t) + _uncert(e, 1 + t) for t in (0, 1))
    for rank, order in ((0, ''), (1, ' Order: 2\n\n')):
        out += (' ================== Perturbation result edition ====================== \n\n Perturbation rank = %d\n\n'
                ' Method : CORRELATED SAMPLING  \n\n%s Perturbation de type DENSITY\n Composition : COMBUSTIBLE\n\n\n' % (rank, order)
                + _resp('FLUX', name='perturbed') + _desc() + _spectrum(e, 5 + rank) + _uncert(e, 5 + rank)
                + '\t UNCERTAINTY ON ENERGY INTEGRATED RESULTS\n\n\t number of first discarded batches : 0\n\n'
                  '\t number of batch : %d\t%s\t%s\t%s\t%s\n\n\n' % ((10 * e,) + tuple(_f(x * e) for x in (6e-6, 5e-7, 4e-7, 1e2))))
    out += (' NUMBER OF CONTRIBUTING PARTICLES\n ------------------------------------\n'
            + ''.join(' FILE %d : %d particles\n' % (i, 100 * e + i) for i in (0, 1)) + ' --- end of CONTRIBUTING PARTICLES ---\n\n')
    return out


_INTRO = [' Mean weight leakage = 7.130508e+02\t sigma = 1.003534e+01\t sigma% = 1.407380e+00\n\n'
          ' Mean weight leakage inside = 1.200000e+01\t sigma = 1.000000e+00\t sigma% = 8.333333e+00\n\n'
          ' Mean weight of restarted particles : 1.000000e+00\n\n',
          ' Mean weight leakage : unknown\n\n Mean weight leakage inside : unknown\n\n']
_PACKET = ' * packet length is 20 (check documentation for conventions about discard and batches)\n\n'


def _unconverged(e, generic=False):
    """results that are not converged after the first batches of a criticality job"""
    head = '\n\tENERGY INTEGRATED RESULTS\n\n'
    if generic:
        return (_resp('TOTAL FISSION RATE', name=None, split=None, particle=None) + head + ' NOT YET CONVERGED\n\n\n'
                + _resp('FLUX', name='converged') + _desc() + _spectrum(e))
    return (_resp('KEFFS', name=None, split=None, particle=None) + head + 'number of batches used:\t%d\n\n' % (10 * e)
            + ' KSTEP  %s\t%s\n KCOLL  %s\t%s\n KTRACK %s\t%s\n\n' % tuple(_f(x) for x in (.99, .14, .995, .12, .996, .11))
            + '  \t  estimators  \t\t\t  correlations   \t  combined values  \t  combined sigma%\n'
              '  \t  KSTEP <-> KCOLL  \t    \t  8.220342e-01  \t  9.957839e-01  \t  1.250667e-01\n'
              '  \t  KSTEP <-> KTRACK  \t    \t  Not converged  \t  Not converged  \t  Not converged\n'
              '  \t  KCOLL <-> KTRACK  \t    \t  8.338559e-01  \t  9.959687e-01  \t  1.149536e-01\n\n'
              '  \t  full combined estimator  Not converged (invalid keff domain)\n\n\n\n')


LAYOUTS = {
    'nu': lambda e: _resp('REACTION', name='nu_fission', split='DECOUPAGE NAME : DEC_NU') + _desc() + _nu_spectrum(e),
    'za': lambda e: _resp('REACTION', name='za_fission', split=None) + _desc() + _za_spectrum(e),
    'compos': _compos,
    'zones': _zones,
    'unconverged-keff': _unconverged,
    'unconverged-generic': lambda e: _unconverged(e, True),
    'runinfo': _runinfo,
    'adjoint': _adjoint,
    'kij3': _kij,
    'kij2-not-printed': lambda e: _kij(e, 2, False),
}


def gram_names():
    return [GRAM + k for k in LAYOUTS]


def gram_bytes(rel):
    layout = rel[len(GRAM):]
    body = LAYOUTS[layout]
    if layout == 'runinfo':
        return (_HEADER + ''.join(_edition(e, body(e), _INTRO[e - 1], _PACKET) for e in (1, 2)) + _FOOTER).encode()
    return (_HEADER + _edition(1, body(1)) + _edition(2, body(2)) + _FOOTER).encode()


def listing_data(rel):
    if rel.startswith(SYNTH):
        return synth_bytes(rel)
    if rel.startswith(GRAM):
        return gram_bytes(rel)
    with open(os.path.join(core.REPO, rel), 'rb') as f:
        return f.read()


def _listing(rel):
    if rel not in _LISTINGS:
        data = listing_data(rel)
        path = os.path.join(core.REPO, rel)
        if rel.startswith((SYNTH, GRAM)):       # the complete synthetic listing, in the scratch directory of this process
            path = os.path.join(os.path.dirname(_tmp_path()), 'synth-%s.res' % hashlib.sha1(rel.encode()).hexdigest()[:12])
            with open(path, 'wb') as f:
                f.write(data)
        _LISTINGS[rel] = Listing(rel, data, path)
    return _LISTINGS[rel]


_HISTORY = []          # the grammar-written listings parsed complete in THIS process so far, by last occurrence
_PRIME_NEXT = [0]


def _prime(name=None):
    """Parse one grammar-written listing complete in this process (the next one in turn when no name is given).
    -> (None | (key, what, case), number of Parser calls): a complete listing gives what it gave at its first parse in
    this process."""
    if name is None:
        names = gram_names()
        name = names[_PRIME_NEXT[0] % len(names)]
        _PRIME_NEXT[0] += 1
    lst = _listing(name)
    obs = lst.complete_obs(last=True)           # (its `after`: the history before this parse)
    if name in _HISTORY:
        _HISTORY.remove(name)
    _HISTORY.append(name)
    _PARSE_MEMO.clear()
    fnd = finding_of(obs)
    if fnd:
        fnd = (fnd[0], fnd[1] + ' [complete %s]' % name, dict(source='file', file=name, offset=len(lst.data), after=obs['after'],
                                                              thread=obs['thread'], before=obs['before']))
    return fnd, 1 + obs['nparse']


def _work_offsets(task):
    """task = (relative path, offsets (ascending), seed, rate, history every, want_ref[, prime every]) -> grouped
    observations.  prime every: a grammar-written listing (each in turn) is parsed complete every so many prefixes, and
    the prefix is parsed again after it; the job that makes the reference of a listing also parses a prefix of it
    after EACH grammar-written listing."""
    rel, offsets, seed, rate, every, want_ref = task[:6]
    prime = task[6] if len(task) > 6 else 0
    rng = random.Random(seed)
    if _HUNG[0]:            # a parse hung in this process (reported by the job that saw it): nothing more is run here
        return dict(rel=rel, groups=[], n=0, nparse=0, history=[], primed=[], lines=None, ref_obs=None, skipped=len(offsets))
    if _ROT['n'] == 0:      # (the first parse of a process is made by a worker thread in one process out of THREAD_EVERY)
        _ROT['n'] = seed % THREAD_EVERY
    lst = _listing(rel)
    lst.memo = {}
    ref_obs = lst.complete_obs() if want_ref else None
    first_obs = ref_obs
    tmp = _tmp_path()
    groups = {}
    nparse = 0
    history = []
    primed = []
    skipped = 0
    del _REF_HANGS[:]

    def note(obs):
        key = obs_key(obs) + '|' + str(obs['exc']) + '|' + obs['diff'].split(': ')[0] + '|' + obs['cut']
        g = groups.get(key)
        if g is None:
            groups[key] = dict(obs=obs, count=1)
        else:
            g['count'] += 1
        return 1 + obs['nparse']

    def prime_and_parse(off, name=None):
        fnd, n = _prime(name)
        if fnd and len(primed) < 20:
            primed.append(fnd)
        if _HUNG[0]:
            return n
        return n + note(lst.observe(tmp, off, rng=None, ref=lst.ref_edition, only='last'))
    with open(tmp, 'wb') as f:
        written = 0
        if prime and want_ref and len(lst.data) > 1:
            written = len(lst.data) - 1             # (the last line is not terminated)
            f.write(lst.data[:written])
            f.flush()
            for name in gram_names():
                if not _HUNG[0]:
                    nparse += prime_and_parse(written, name)
        for count, off in enumerate(offsets):
            if _HUNG[0]:
                skipped = len(offsets) - count
                break
            if off < written:
                f.seek(0)
                f.truncate()
                written = 0
            f.seek(written)
            f.write(lst.data[written:off])
            f.flush()
            written = off
            nparse += note(lst.observe(tmp, off, rng=rng, rate=rate, ref=lst.ref_edition))
            if prime and count % prime == prime - 1 and not _HUNG[0]:
                nparse += prime_and_parse(off)
            if every and count % every == every - 1 and not _HUNG[0]:
                # history clause: a complete listing parsed in between gives what it gave at the start
                again = lst.complete_obs(rng)
                nparse += 1 + again['nparse']
                if first_obs is None:
                    first_obs = lst.complete_obs()
                same_scan = [again[k] for k in ('outcome', 'keys', 'times')] == [first_obs[k] for k in ('outcome', 'keys', 'times')]
                if not same_scan or again['diff'] or again['exc']:
                    history.append(dict(after=off, got=again['outcome'], diff=again['diff'], exc=again['exc'], primed=again['after']))
    if ref_obs is not None and ref_obs['exc'] == 'Hang':        # (reported as a finding of its own; no reference)
        _REF_HANGS.append(('C11/hang/%s/complete' % ref_obs['where'].split(':')[0], 'no answer from the complete listing %s' % rel,
                           dict(source='file', file=rel, offset=len(lst.data), after=ref_obs['after'], thread=ref_obs['thread'],
                                before=ref_obs['before'])))
        ref_obs = None
    return dict(rel=rel, groups=list(groups.values()), n=len(offsets) - skipped, nparse=nparse, history=history, primed=primed,
                lines=lst.abstract_lines() if want_ref else None, ref_obs=ref_obs, skipped=skipped, refhang=_REF_HANGS[:4])


def _work_states(task):
    """task = list of (lines, [(pos, cut, st, alt, out)...], final_st, final_out) -> findings, counts."""
    tmp = _tmp_path()
    res = dict(n=0, nparse=0, findings=[], drift=[], ok=0, distinct=[], skipped=0)
    for lines, states, final_st, final_out in task:
        exp = expectation(final_st, final_out)
        suffix = layout_suffix(lines)
        for count, (pos, cut, st, alt, out) in enumerate(states):
            if _HUNG[0]:                    # a parse hung in this process (reported): nothing more is run here
                res['skipped'] += len(states) - count
                break
            if count == 0:                  # a grammar-written listing (each in turn) parsed complete in between
                fnd, n = _prime()
                res['nparse'] += n
                if fnd and len(res['findings']) < 50:
                    res['findings'].append((fnd[0], '/gram-' + fnd[2]['file'][len(GRAM):], fnd[1], fnd[2]))
                if _HUNG[0]:
                    res['skipped'] += len(states)
                    break
            impl, chunks = run_model_case(lines, pos, cut, tmp, memo=True)
            res['nparse'] += impl['nparse']
            kind = lines[pos][0] if pos < len(lines) else 'eof'
            fnd, conforms = judge_model_case(impl, chunks, st, alt, out, exp, kind, cut, pos)
            res['n'] += 1
            case = dict(source='model', lines=[list(x) for x in lines], pos=pos, cut=cut, expect=exp, after=list(_HISTORY),
                        thread=impl['thread'], before=impl['before'])
            if fnd:
                res['findings'].append((fnd[0], suffix, fnd[1], case))
            elif not conforms and len(res['drift']) < 2:
                res['drift'].append('T4Scan state not reproduced by the scanner on %s: implementation %s' % (
                    case, {k: impl[k] for k in ('outcome', 'keys', 'times', 'ok')}))
            if impl['outcome'] == 'Ok' and impl['ok']:
                res['ok'] += 1
            res['distinct'].append((tuple(k for k, _ in lines[:pos + (cut != 'none')]), cut, impl['outcome'], len(impl['ok'])))
    return res


def _pool():
    ctx = multiprocessing.get_context('fork')
    return ctx.Pool(NPROC, initializer=_init_worker)


# ----------------------------------------------------------------------------------------------
# replay

def replay_case(case):
    fnd, detail = _replay(case)
    return fnd is None, detail + (' -- ' + fnd[1] if fnd else '')


def _replay_before(case):
    """The Parser calls of the cases recorded as the recent history of `case` (`before`), made again by the threads that
    made them -> finding | None (they were fine when they were observed)."""
    for step in case.get('before') or []:
        if step['source'] == 'file':
            lst = _listing(step['file'])
            lst.memo = {}
            tmp = _tmp_path()
            with open(tmp, 'wb') as f:
                f.write(lst.data[:step['offset']])
            obs = lst.observe(tmp, step['offset'], only=step.get('only'), thread=step.get('thread', 0))
            if obs['exc'] == 'Hang':
                return finding_of(obs)
        else:
            impl, _ = run_model_case([(k, n) for k, n in step['lines']], step['pos'], step['cut'], _tmp_path(),
                                     thread=step.get('thread', 0))
            if impl['exc'] == 'Hang':
                return finding_of(dict(outcome='Other', exc='Hang', where=impl['where'], diff='', full=('?', None), cut=step['cut']))
    return None


def _replay(case):
    """-> (finding | None, detail).  `after` of the case: the grammar-written listings parsed complete, in this order,
    between the parse of the complete listing (the reference) and the parse of the prefix.  `before`: the last cases
    parsed before it in the process that observed it, `thread`: the thread that parses (0: the main thread; others: live
    worker threads of this process, started when first used)."""
    signal.signal(signal.SIGALRM, _on_alarm)
    after = list(case.get('after') or [])
    thread = case.get('thread', 0)
    said = ' after %s' % ', '.join(after) if after else ''
    if case.get('before'):
        said += ' after %s' % ', '.join(
            '%s in thread %d' % ('offset %d of %s' % (b['offset'], b['file']) if b['source'] == 'file' else
                                 'a rendered listing cut at line %d (%s)' % (b['pos'] + 1, b['cut']), b.get('thread', 0))
            for b in case['before'])
    if thread or case.get('before'):
        said += ' [parsed by %s]' % ('worker thread %d' % thread if thread else 'the main thread')
    if case['source'] == 'file':
        lst = _listing(case['file'])
        lst.memo = {}
        tmp = _tmp_path()
        if after:                       # the reference first: every edition of the complete listing
            full = open_listing(lst.path)[1]
            for n in (full.batch_numbers() if full is not None else []):
                lst.ref_edition(int(n))
            for name in after:
                _prime(name)
        fnd = _replay_before(case)
        if fnd:
            return fnd, 'a case of the history of offset %d of %s%s' % (case['offset'], case['file'], said)
        with open(tmp, 'wb') as f:
            f.write(lst.data[:case['offset']])
        obs = lst.observe(tmp, case['offset'], ref=lst.ref_edition, thread=thread)
        fnd = finding_of(obs)
        detail = 'offset %d of %s (inside a %r line, %s)%s: outcome %s%s, editions %s' % (
            case['offset'], case['file'], obs['full'][0], obs['cut'], said, obs['outcome'],
            ' (%s from %s)' % (obs['exc'], obs['where']) if obs['exc'] else '', [(e['n'], e['ok']) for e in obs['eds']])
        return fnd, detail
    lines = [(k, n) for k, n in case['lines']]
    if after:
        run_model_case(lines, len(lines), 'none', _tmp_path(), thread=0)          # the reference (kept in _REF_CACHE) first
        for name in after:
            _prime(name)
    fnd = _replay_before(case)
    if fnd:
        return fnd, 'a case of the history of the rendered listing %s%s' % ([k for k, _ in lines], said)
    impl, chunks = run_model_case(lines, case['pos'], case['cut'], _tmp_path(), thread=thread)
    kind = lines[case['pos']][0] if case['pos'] < len(lines) else 'eof'
    if case.get('expect'):          # TLC's scan of the complete listing, recorded with the case
        fnd = property_finding(impl, chunks, case['expect'], kind, case['cut'], case['pos'])
    else:
        obs = dict(outcome=impl['outcome'], exc=impl['exc'], where=impl['where'], diff=impl['diff'], full=(kind, None),
                   cut=case['cut'], keys=impl['keys'], eds=[])
        fnd = finding_of(obs)
    detail = 'rendered listing %s cut at line %d (%s)%s: outcome %s%s, editions parsed %s' % (
        [k for k, _ in lines], case['pos'] + 1, case['cut'], said, impl['outcome'],
        ' (%s from %s)' % (impl['exc'], impl['where']) if impl['exc'] else '', impl['ok'])
    return fnd, detail


def _replay_shows(task):
    """(raw key, case) -> the finding of that class shows when the case is replayed in this (fresh) process"""
    key, case = task
    try:
        fnd = _replay(case)[0]
    except Exception:  # pylint: disable=broad-except
        return False
    return fnd is not None and (fnd[0] == key or key.startswith('C11/history/')
                                or (key.startswith('C11/hang/') and fnd[0].startswith('C11/hang/')))


def _sequential(case, after):
    """the case parsed by the main thread, without the cases parsed before it"""
    return dict(case, after=after, thread=0, before=[])


def minimise_histories(firsts, limit=12):
    """{reported key: (raw key, case)} -> ({reported key: (suffix, case)}, [unconfirmed hang keys]): the smallest history
    with which a FRESH process reproduces the finding.  Parsed by the main thread alone: no history (suffix ''), one of
    the grammar-written listings ('/after-<layout>'), all those the observing process had parsed
    ('/after-grammar-listings').  Otherwise with the thread that parsed it and the last cases the observing process had
    parsed before it, in the threads that parsed them ('/other-thread').  A finding that no such replay reproduces keeps
    its key and its case (it needs a history this module does not record, e.g. a second scan of the same file) -- except a
    HANG, which counts only when a fresh process shows it again (tried once more, alone)."""
    tasks, n_keys = [], 0
    hang_keys = []
    for full_key, (key, case) in sorted(firsts.items(), key=lambda kv: not kv[1][0].startswith('C11/hang/')):
        after, before = list(case.get('after') or []), list(case.get('before') or [])
        hang = key.startswith('C11/hang/')
        threaded = bool(case.get('thread')) or any(b.get('thread') for b in before)
        if (after or threaded or hang) and n_keys < limit:
            n_keys += 1
            if hang:
                hang_keys.append(full_key)
            hists = [[]] + [[name] for name in reversed(after)] + ([after] if len(after) > 1 else [])
            trials = [_sequential(case, h) for h in hists]
            if threaded:
                trials += [dict(case, after=[], before=before[-1:]), dict(case, after=[])] + ([dict(case)] if after else [])
            tasks += [(full_key, key, t) for t in trials]
    out = {}
    if tasks:
        with multiprocessing.get_context('fork').Pool(NPROC, initializer=_init_worker, maxtasksperchild=1) as pool:
            shown = pool.map(_replay_shows, [(key, trial) for _, key, trial in tasks], chunksize=1)
        again = [t for t in tasks if t[0] in hang_keys and not any(y for (k, _, _), y in zip(tasks, shown) if k == t[0])]
        last = {full_key: t for full_key, _, t in again}                # alone: the complete history, one key at a time
        for full_key, trial in last.items():
            with multiprocessing.get_context('fork').Pool(1, initializer=_init_worker, maxtasksperchild=1) as pool:
                if pool.map(_replay_shows, [(firsts[full_key][0], trial)])[0]:
                    tasks.append((full_key, firsts[full_key][0], trial))
                    shown.append(True)
        for (full_key, _, trial), yes in zip(tasks, shown):         # (in the order none, one, all; then threads)
            if yes and full_key not in out:
                h = trial['after']
                suffix = '' if not h else '/after-' + h[0][len(GRAM):] if len(h) == 1 else '/after-grammar-listings'
                if trial.get('thread') or trial.get('before'):
                    suffix += '/other-thread'
                out[full_key] = (suffix, trial)
    return out, [k for k in hang_keys if k not in out]


# ----------------------------------------------------------------------------------------------
# the check

def _consts(max_lines, max_editions, modes, rich, min_editions=1):
    return {'MaxLines': max_lines, 'MaxEditions': max_editions, 'MinEditions': min_editions, 'Modes': frozenset(modes),
            'Rich': rich}


def _lines_of(full):
    return [(str(l['kind']), _num(l['num'])) for l in full]


def listing_files():
    out = []
    for d in DATA_DIRS:
        for path in glob.glob(os.path.join(core.REPO, d, '**', '*.res*'), recursive=True):
            if os.path.getsize(path) > 0:
                out.append((os.path.getsize(path), os.path.relpath(path, core.REPO)))
    return sorted(out)


def _interpreted_offsets(rel, rng, budget):
    """offsets inside the scanner-interpreted lines of a listing: every byte of the lines of the rare kinds, and of
    a seeded sample of the (many) batch-number lines, thinned to `budget`."""
    lst = Listing(rel, listing_data(rel))
    by_kind = {}
    for i in lst.sig:
        by_kind.setdefault(lst.recs[i][0], []).append(i)
    chosen = []
    for kind, idx in sorted(by_kind.items()):
        keep = idx if len(idx) <= 6 else sorted(rng.sample(idx, 6)) + [idx[0], idx[-1]]
        chosen += keep
    offs = set()
    for i in sorted(set(chosen)):
        start = lst.starts[i]
        end = lst.starts[i + 1] if i + 1 < len(lst.starts) else len(lst.data)
        offs.update(range(start, end + 1))
    offs.add(len(lst.data))
    offs = sorted(o for o in offs if o <= len(lst.data))
    if len(offs) > budget:
        keep = set(rng.sample(offs, budget))
        # always keep the offsets inside the time lines
        for i in by_kind.get('simtime', [])[-2:] + by_kind.get('elapsed', [])[-2:] + by_kind.get('exptime', [])[-2:]:
            keep.update(range(lst.starts[i], (lst.starts[i + 1] if i + 1 < len(lst.starts) else len(lst.data)) + 1))
        offs = sorted(keep)
    return offs


_T0 = [None]


def _t(what):
    """timing trace on stderr when VERIF_TIMING is set."""
    import sys
    import time
    now = time.time()
    if os.environ.get('VERIF_TIMING') and _T0[0] is not None:
        sys.stderr.write('[c11 %6.1fs] %s\n' % (now - _T0[0], what))
    if _T0[0] is None:
        _T0[0] = now


def run_c11(ctx):
    _t('start')
    ctx.rule('spec->code: every state of T4Scan.tla (well-formed listing x prefix x cut class of the next line) rendered '
             'with lines of the example listings and parsed by parse.Parser; code->spec: byte-offset prefixes of the '
             'example listings (and of synthetic multi-edition parallel-job listings built from them, with per-edition '
             '"number of batches used" counts that differ inside an edition and coincide across editions, and of listings '
             'written from the grammar for the result layouts no example has) parsed by parse.Parser and validated by TLC '
             'against T4ScanTrace.tla; between the prefixes, in the same long-lived processes, the complete listing and '
             '(each in turn) the complete grammar-written listings are parsed, and every listing is parsed right after each '
             'of them. In every process the Parser calls of every 4th case, of the case after a failing one and of the case '
             'after the first success that follows are made by live worker threads (two per process, each in turn with the '
             'main thread). distinct_nontrivial '
             'counts distinct (sequence of line kinds of the prefix, cut class, outcome, number of editions parsed) for '
             'rendered listings and distinct (listing, complete significant lines, unterminated line, observation) for '
             'real listings, excluding prefixes that end before the initialisation time.')
    ctx.assume('the abstraction function classify() (substring tests copied from scan.py) is trusted')
    ctx.assume('an edition whose scanned block, times and partial flag are those of the previous offset is re-parsed '
               'only on a seeded sample; every prefix is scanned (Parser(path)) for real')
    ctx.assume('rendered listings: an edition stored before the last one is re-parsed only when its block, times or the '
               'run flags differ from those of an earlier case of the same process; the last stored edition always is')
    ctx.assume('results of an edition = response lists (datasets, metadata) + batch-level data present in both parses')
    ctx.assume('the listings written from the grammar are Tripoli-4 output only as far as grammar.py describes it')
    ctx.assume('a Parser call hangs when its thread used no CPU time during %d consecutive ticks of %.0f s (nothing else runs '
               'in the process), or more than %.0f s of CPU time; a hang counts when a fresh process shows it again'
               % (QUIET, TICK, WATCHDOG))
    signal.signal(signal.SIGALRM, _on_alarm)
    wd = tlc.workdir('c11')
    _SCRATCH[:] = [wd]
    modes = ['mono', 'para', 'fatal']

    # ---- T4Scan: exhaustive run (invariants + action property), witnesses in parallel
    big = _consts(ctx.pick(10, 13), 3, modes, True)
    cfg = tlc.write_cfg(os.path.join(wd, 'big.cfg'), constants=big, invariants=INVS, properties=PROPS, deadlock=False)
    small = _consts(ctx.pick(9, 11), 3, modes, ctx.pick(False, True))
    cfg_small = tlc.write_cfg(os.path.join(wd, 'small.cfg'), constants=small, invariants=INVS, deadlock=False)
    dump = os.path.join(wd, 'small')
    # the layouts of parallel jobs (with / without edition line, 1-3 editions, several "number of batches used" per
    # edition, greatest first / in the middle / last, low counts shared by the editions): listings are longer
    # (the rich family of parallel-job listings alone is model-checked in the thorough tier only; the thin one, which is
    # replayed, always)
    para_big = _consts(17, 3, ['para'], True, 2)
    cfg_pbig = tlc.write_cfg(os.path.join(wd, 'parabig.cfg'), constants=para_big, invariants=INVS, properties=PROPS, deadlock=False)
    para_small = _consts(24, 3, ['para'], False, 2)      # 24: the longest listing of the thin family
    cfg_psmall = tlc.write_cfg(os.path.join(wd, 'parasmall.cfg'), constants=para_small, invariants=INVS, properties=PROPS,
                               deadlock=False)
    dump_para = os.path.join(wd, 'parasmall')
    wcfgs = [(w, tlc.write_cfg(os.path.join(wd, w + '.cfg'), invariants=[w], deadlock=False,
                               constants=small if w.startswith('W_InterpretedCut') else _consts(10, 2, modes, True)))
             for w in WITNESSES]
    wcfgs += [(w, tlc.write_cfg(os.path.join(wd, w + '.cfg'), invariants=[w], deadlock=False, constants=para_small))
              for w in PARA_WITNESSES]
    by_full, seen = {}, set()

    def read(name, res, dmp):
        """check one replayed run and read its dump (while the other TLC runs go on)"""
        ctx.tlc(res, name)
        if not res.ok:
            raise tlc.MachineryError('%s: %s\n%s' % (name, res.violation, res.out[-1500:]))
        tlc.check_coverage(res, ['Feed', 'CutHere'], name)
        for st in tlc.read_dump(dmp):
            k = (st['full'], int(st['pos']), str(st['cut']))
            if k not in seen:                 # a listing may be in both replayed families
                seen.add(k)
                by_full.setdefault(st['full'], []).append(st)
        os.remove(dmp + '.dump')
    with ThreadPoolExecutor(max_workers=ctx.pick(4, 5)) as ex:
        fut_big = ex.submit(tlc.run, SPEC, cfg, workers=6)
        fut_small = ex.submit(tlc.run, SPEC, cfg_small, workers=4, dump=dump)
        fut_psmall = ex.submit(tlc.run, SPEC, cfg_psmall, workers=4, dump=dump_para)
        fut_pbig = ex.submit(tlc.run, SPEC, cfg_pbig, workers=4) if not ctx.quick else None
        fut_w = [(w, ex.submit(tlc.run, SPEC, c, workers=2, coverage=False)) for w, c in wcfgs]
        read('T4Scan/replayed', fut_small.result(), dump)
        read('T4Scan/replayed-para', fut_psmall.result(), dump_para)
        exhaustive = [('T4Scan/exhaustive', fut_big.result())]
        if fut_pbig is not None:
            exhaustive.append(('T4Scan/exhaustive-para', fut_pbig.result()))
        res_w = [(w, f.result()) for w, f in fut_w]
    _t('tlc model runs, dumps read')
    for name, res in exhaustive:
        ctx.tlc(res, name)
        if not res.ok:
            raise tlc.MachineryError('%s: %s\n%s' % (name, res.violation, res.out[-1500:]))
        tlc.check_coverage(res, ['Feed', 'CutHere'], name)
    witness_states = []
    for w, res in res_w:
        if res.violation != ('invariant', w):
            raise tlc.MachineryError('witness %s not reachable in T4Scan.tla (%s)' % (w, res.violation))
        if w.startswith('W_InterpretedCut'):
            witness_states.append((w, res.trace[-1][1]))

    # ---- spec -> code: replay the dumps
    tasks = []
    for full, states in by_full.items():
        lines = _lines_of(full)
        fin = [s for s in states if int(s['pos']) == len(full) and str(s['cut']) == 'none']
        if len(fin) != 1:
            raise tlc.MachineryError('dump without the complete state of a listing')
        tasks.append((lines, [(int(s['pos']), str(s['cut']), plain(s['st']), plain(s['alt']), plain(s['out'])) for s in states],
                      plain(fin[0]['st']), plain(fin[0]['out'])))
    for w, s in witness_states:            # counterexamples of the witnesses (TLC found `alt` breaking the property)
        full = s['full']
        lines = _lines_of(full)
        tasks.append((lines, [(int(s['pos']), str(s['cut']), plain(s['st']), plain(s['alt']), plain(s['out']))],
                      plain(_final_from(by_full, full, s)), plain(_final_out_from(by_full, full, s))))
    rng = ctx.rng
    rng.shuffle(tasks)
    chunks = [tasks[i::NPROC * 4] for i in range(NPROC * 4)]
    n_states = n_drift = 0
    _t('replay tasks built')
    with _pool() as pool:
        model_results = pool.map(_work_states, [c for c in chunks if c])
        _t('model states replayed')

        # ---- code -> spec: offsets of real listings (same pool: one history per worker process)
        files = listing_files()
        small_limit = ctx.pick(11000, 70000)
        rate = ctx.pick(0.25, 0.03)
        jobs = []
        big_limit = ctx.pick(200000, 10 ** 9)       # quick: the listings above 200 kB are left to the thorough tier
        files = [(size, rel) for size, rel in files if size <= big_limit]
        n_shipped = len(files)
        # + synthetic listings of parallel jobs with 2-3 editions assembled from the shipped one-edition ones
        files += [(len(synth_bytes(rel)), rel) for rel in synth_names(synth_bases(), ctx.tier == 'quick')]
        # + listings written from the grammar for the layouts no shipped listing has; every job also parses them complete,
        # in turn, between the prefixes of its own listing
        files += [(len(gram_bytes(rel)), rel) for rel in gram_names()]
        sizes = {rel: size for size, rel in files}
        for size, rel in files:
            if size <= small_limit and not rel.startswith((SYNTH, GRAM)):
                offs = list(range(0, size + 1))
            else:
                budget = (ctx.pick(150, 2500) if rel.startswith(SYNTH) else ctx.pick(50, 1500) if rel.startswith(GRAM)
                          else ctx.pick(120, 1500) if size < 600000 else ctx.pick(30, 200))
                offs = _interpreted_offsets(rel, random.Random(ctx.seed * 7919 + size), budget)
            nchunk = max(1, min(NPROC * 2, len(offs) // 1500 + 1))
            step = (len(offs) + nchunk - 1) // nchunk
            for k in range(0, len(offs), step):
                jobs.append((rel, offs[k:k + step], ctx.seed * 1000003 + k, rate, 400, k == 0, 200))
        jobs.sort(key=lambda j: -len(j[1]) * (1 + sizes[j[0]] // 20000))
        file_results = pool.map(_work_offsets, jobs, chunksize=1)
    _t('offsets of real listings parsed')
    # history clause, other direction: the same parses as the FIRST thing a process does (pyparsing learns the
    # arity of every parse action at its first successful call and treats exceptions differently before that)
    fresh = []
    for size, rel in files:
        frng = random.Random(ctx.seed * 31 + size)
        if size > 70000:
            tail = sorted(set([size, size - 1, size - 40] + [frng.randrange(size // 2, size) for _ in range(ctx.pick(0, 4))]))
        else:
            tail = sorted(set([size] + [max(0, size - d) for d in (1, 2, 3, 5, 8, 13, 40, 90, 200)]
                              + [frng.randrange(size // 2, size + 1) for _ in range(ctx.pick(3, 12))]))
        fresh.append((rel, tail, ctx.seed + size, 1.0, 0, False))
    with multiprocessing.get_context('fork').Pool(NPROC, initializer=_init_worker, maxtasksperchild=1) as pool:
        file_results += pool.map(_work_offsets, fresh, chunksize=1)
    _t('fresh-process parses')

    n_model_parse = 0
    n_skipped = sum(r.get('skipped', 0) for r in model_results) + sum(r.get('skipped', 0) for r in file_results)
    pending = []            # (key, layout suffix, what, case): reported at the end, see below
    for r in model_results:
        n_states += r['n']
        n_model_parse += r['nparse']
        pending += r['findings']
        for d in r['drift']:
            n_drift += 1
            if n_drift <= 6:
                ctx.drift(d)
        for d in r['distinct']:
            if 'init' in d[0]:
                ctx.distinct(('model',) + tuple(d))
    ctx.count(evaluations=n_model_parse, traces=n_states)
    _t('model: %d states, %d listings, %d Parser/parse calls' % (n_states, len(by_full), n_model_parse))
    ctx.sample(dict(source='model', replayed_states=n_states, listings=len(by_full)))

    # ---- TLC validates the observations of the real listings
    per_file = {}
    for r in file_results:
        pf = per_file.setdefault(r['rel'], dict(lines=None, groups={}, n=0, nparse=0, ref_obs=None))
        if r['ref_obs'] is not None:
            pf['lines'], pf['ref_obs'] = r['lines'], r['ref_obs']
        pf['n'] += r['n']
        pf['nparse'] += r['nparse']
        for g in r['groups']:
            k = obs_key(g['obs']) + '|' + str(g['obs']['exc']) + '|' + g['obs']['diff'].split(': ')[0] + '|' + g['obs']['cut']
            if k in pf['groups']:
                pf['groups'][k]['count'] += g['count']
            else:
                pf['groups'][k] = g
        for h in r['history']:          # (replayed as: the complete listing, the grammar-written ones, the complete listing)
            pending.append(('C11/history/complete-listing-result-changed', '',
                            'complete listing %s parsed after truncated ones gives %s' % (r['rel'], {k: h[k] for k in ('after', 'got', 'diff', 'exc')}),
                            dict(source='file', file=r['rel'], offset=sizes[r['rel']], after=h.get('primed', []))))
        for key, what, case in r.get('primed', []):
            pending.append((key, '/gram-' + case['file'][len(GRAM):], what, case))
        for key, what, case in r.get('refhang', []):
            pending.append((key, '', what, case))
    for rel in [rel for rel, pf in per_file.items() if pf['ref_obs'] is None]:
        # the process that was to parse the complete listing had a parse that hung (reported): what was observed of the
        # listing is judged without TLC (a hang needs no reference), the rest is not judged in this run
        for g in per_file.pop(rel)['groups'].values():
            fnd = finding_of(g['obs'])
            if fnd and g['obs']['outcome'] == 'Other':
                pending.append((fnd[0], '', fnd[1] + ' [%s offset %d]' % (rel, g['obs']['off']),
                                dict(source='file', file=rel, offset=g['obs']['off'], after=g['obs'].get('after', []),
                                     thread=g['obs'].get('thread', 0), before=g['obs'].get('before', []))))
            else:
                n_skipped += g['count']
    rejected = [rel for rel in gram_names() if (per_file.get(rel) or {}).get('ref_obs') is not None
                and per_file[rel]['ref_obs']['outcome'] != 'Other'
                and not (per_file[rel]['ref_obs']['eds'] and all(e['ok'] for e in per_file[rel]['ref_obs']['eds']))]
    if rejected:
        ctx.drift('listings written from the grammar that the parser of this tree refuses with its own error (nothing is '
                  'demanded of them): %s' % ', '.join(rejected))
    data, index = [], []
    n_amb = 0
    for rel in sorted(per_file):
        pf = per_file[rel]
        cases, idx = [], {}
        groups = sorted(pf['groups'].values(), key=lambda g: (g['obs']['pos'], g['obs']['off']))
        groups.append(dict(obs=pf['ref_obs'], count=0))
        for cid, g in enumerate(groups, 1):
            o = g['obs']
            if o['part'] is not None and o['part'][0] == 'ambiguous':
                n_amb += g['count']
                continue
            last = [] if o['part'] is None else [dict(kind=o['part'][0], num=[] if o['part'][1] is None else [o['part'][1]],
                                                       id=o['nl'] + 1)]
            cases.append(dict(id=cid, pos=o['pos'], last=last, outcome=o['outcome'], keys=o['keys'], eds=o['eds'],
                              times=[dict(k=k, b=b, t=t) for k, b, t in o['times']],
                              complete=g['count'] == 0))
            idx[cid] = g
        cases.sort(key=lambda c: c['pos'])
        data.append(dict(name=rel, lines=pf['lines'], cases=cases))
        index.append(idx)
    if os.environ.get('VERIF_SELFTEST_CORRUPT'):
        # self-test of the binding: falsify one recorded field (a time of a successfully parsed edition)
        victim = next(c for d in data for c in d['cases'] if any(e['ok'] and e['times'] for e in c['eds']))
        ed = next(e for e in victim['eds'] if e['ok'] and e['times'])
        ed['times'][0]['t'] += 1
    cj = tlc.json_dump(os.path.join(wd, 'cases.json'), data)
    if os.environ.get('VERIF_KEEP'):
        tlc.json_dump(os.path.join(os.environ['VERIF_KEEP'], 'c11_cases.json'), data)
    oj = os.path.join(wd, 'out.json')
    tcfg = tlc.write_cfg(os.path.join(wd, 'trace.cfg'), spec='TSpec', invariants=['TimesKeyedByStored', 'NoScanErrorOnCompleteLines'],
                         deadlock=False, postcondition='Post')
    verdict = dict(bad=[], drift=[], nofinal=[], modelbad=[])
    if data:                # (no listing left: every process had a parse that hung, reported below)
        res = tlc.run(TRACE, tcfg, workers=1, env=dict(VERIF_CASES=cj, VERIF_OUT=oj), timeout=1800)
        ctx.tlc(res, 'T4ScanTrace')
        _t('T4ScanTrace')
        if not res.ok:
            raise tlc.MachineryError('T4ScanTrace: %s\n%s' % (res.violation, res.out[-2500:]))
        with open(oj) as f:
            verdict = json.load(f)
    if verdict['modelbad']:
        raise tlc.MachineryError('T4Scan.tla itself breaks PrefixAgrees on prefixes of real listings: %s' % verdict['modelbad'][:5])
    nofinal = set(verdict['nofinal'])
    for f in sorted(nofinal):
        if (per_file[data[f - 1]['name']]['ref_obs'] or {}).get('outcome') == 'Other':
            continue                    # (a finding, reported below: there is no scan to reproduce)
        ctx.drift('T4Scan.tla does not reproduce the scan of the complete listing %s; its prefixes are judged on the '
                  'results only' % data[f - 1]['name'])
    bad = set((f, c) for f, c in verdict['bad'])
    drift = set((f, c) for f, c in verdict['drift'])
    n_total = n_cases = 0
    shown = 0
    for fno, (d, idx) in enumerate(zip(data, index), 1):
        for cid, g in idx.items():
            o = g['obs']
            n_cases += 1
            n_total += g['count']
            tlc_bad = (fno, cid) in bad and fno not in nofinal
            fnd = finding_of(o, tlc_bad=tlc_bad)
            if o['outcome'] == 'Other' and (fno, cid) not in bad:
                raise tlc.MachineryError('T4ScanTrace accepted outcome Other (%s offset %d)' % (d['name'], o['off']))
            if fnd:
                pending.append((fnd[0], '/para-editions-synth' if d['name'].startswith(SYNTH) else
                                '/gram-' + d['name'][len(GRAM):] if d['name'].startswith(GRAM) else '',
                                fnd[1] + ' [%s offset %d]' % (d['name'], o['off']),
                                dict(source='file', file=d['name'], offset=o['off'], after=o.get('after', []),
                                     thread=o.get('thread', 0), before=o.get('before', []))))
            elif (fno, cid) in drift and fno not in nofinal and shown < 8:
                shown += 1
                ctx.drift('%s offset %d: observation is neither T4Scan with the unterminated line dropped nor interpreted: %s'
                          % (d['name'], o['off'], {k: o[k] for k in ('pos', 'part', 'outcome', 'keys', 'eds')}))
            if o['pos'] > 0 and any(l['kind'] == 'init' and l['id'] <= o['nl'] for l in d['lines'][:o['pos']]):
                ctx.distinct(('file', d['name'], o['pos'], json.dumps(o['part']), o['outcome'], json.dumps(o['eds'])))
    # the layout suffix (a listing layout of parallel jobs, a synthetic multi-edition listing) is part of the key only
    # when the finding class shows on those layouts alone: it then names what is needed to expose it
    # the same for the history (grammar-written listings parsed complete earlier in the process): the first case of every
    # finding class is replayed in fresh processes without them, then after each one of them
    pending.sort(key=lambda p: '[complete ' in p[2])        # (stable) the case kept for a class: a real prefix if there is one
    plain_keys = set(k for k, suffix, _, _ in pending if not suffix)
    firsts = {}
    for key, suffix, what, case in pending:
        firsts.setdefault(key if key in plain_keys else key + suffix, (key, case))
    minimal, unconfirmed = minimise_histories(firsts)
    _t('histories of %d finding classes minimised' % len(minimal))
    for key, suffix, what, case in pending:
        full_key = key if key in plain_keys else key + suffix
        if full_key in unconfirmed:         # a hang that fresh processes do not show again does not count
            continue
        after_suffix, case = minimal.get(full_key, ('', case))
        if after_suffix and case.get('after'):
            what += ' -- after %s was parsed in the same process' % ', '.join(case['after'])
        if after_suffix.endswith('/other-thread'):
            what += ' -- parsed by %s of the process, after %s; not when the main thread parses alone' % (
                'worker thread %d' % case['thread'] if case.get('thread') else 'the main thread',
                ', '.join('%s parsed by thread %d' % ('offset %d of %s' % (b['offset'], b['file']) if b['source'] == 'file' else
                                                      'a rendered listing', b.get('thread', 0)) for b in case['before'])
                or 'nothing')
        ctx.violation(full_key + after_suffix, what, case, module='conf_t4scan')
    if n_skipped:
        ctx.drift('%d cases were not run or not judged: a parse had hung in the process that was to run them' % n_skipped)
    if unconfirmed:
        raise tlc.MachineryError('a parse got no answer (%s) but fresh processes given the same history do not show it again: '
                                 'overloaded machine? %d cases were not run' % (', '.join(unconfirmed), n_skipped))
    n_prefixes = sum(pf['n'] for pf in per_file.values())
    ctx.count(evaluations=sum(pf['nparse'] for pf in per_file.values()), traces=n_prefixes)
    if n_amb:
        ctx.drift('%d prefixes end in a line matching several scanner keywords; not validated by TLC' % n_amb)
    ok_cases = [g['obs'] for idx in index for g in idx.values() if g['obs']['outcome'] == 'Ok' and any(e['ok'] for e in g['obs']['eds'])]
    for o in ok_cases[:2]:
        ctx.sample(dict(source='file', offset=o['off'], cut=o['cut'], line=o['full'][0], editions=o['eds']))
    ctx.cov['exhaustive'] = True
    ctx.cov['explanation'] = (
        'T4Scan.tla: exhaustive for the constants in tlc_runs (all well-formed listings up to MaxLines lines, every '
        'prefix, every cut class); %d states replayed on the implementation. Real listings: %d prefixes (%d listings; every '
        'byte offset of the %d listings <= %d bytes, seeded offsets inside interpreted lines of the others), '
        '%d distinct observations validated by TLC, %d rejected.'
        % (n_states, n_prefixes, len(per_file), sum(1 for s, r in files if s <= small_limit and not r.startswith(SYNTH)),
           small_limit, n_cases, len(bad))
        + ' %d of the listings are synthetic parallel-job listings with 2-3 editions (per-edition "number of batches '
          'used" counts uniform / last block discarding / seeded), %d are written from the grammar (%s) and also parsed '
          'complete between the prefixes of every listing.'
        % (len(files) - n_shipped - len(gram_names()), len(gram_names()), ', '.join(LAYOUTS)))


def _final_from(by_full, full, s):
    """TLC state (st) of the complete listing `full`, taken from the replayed dump."""
    states = by_full.get(full)
    if not states:
        raise tlc.MachineryError('witness counterexample uses a listing outside the replayed family')
    return [x for x in states if int(x['pos']) == len(full) and str(x['cut']) == 'none'][0]['st']


def _final_out_from(by_full, full, s):
    states = by_full.get(full)
    if not states:
        raise tlc.MachineryError('witness counterexample uses a listing outside the replayed family')
    return [x for x in states if int(x['pos']) == len(full) and str(x['cut']) == 'none'][0]['out']
