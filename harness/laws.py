"""Probability laws for C05 / C07, standard library only (decimal + fractions): the independent oracle for
the critical values handed to TLC.

What is provided
  normal_two_sided_p(t2)          P(|Z| >= t)           for t^2 = t2 (standard normal)
  student_two_sided_p(t2, nu)     P(|T_nu| >= t)        closed forms (Abramowitz & Stegun 26.7.3/26.7.4), integer nu >= 1
  chi2_sf(x, k)                   P(X_k >= x)           closed forms (finite sums, erfc for odd k), integer k >= 1
  band(p_of_x, alpha)             rational band [lo, hi] = [<<num, den>>, <<num, den>>] (all components < 2^31) with
                                  p(lo) > alpha > p(hi) *verified* in 50-digit arithmetic, about 2e-9 relative wide
  student_table(), chi2_table()   the constants `Crit` of Student.tla / Chi2.tla
  selftest()                      internal identities + (if scipy is importable) a cross-check against scipy

Everything is a function of the *squared* statistic so that the specifications never need a square root.
The functions work on decimal.Decimal with PREC significant digits; inputs may be int, Fraction, Decimal or str.
"""
from decimal import Decimal, getcontext, localcontext, ROUND_FLOOR, ROUND_CEILING
from fractions import Fraction
from functools import lru_cache

PREC = 50
INT_MAX = 2 ** 31 - 1
REL = Decimal(10) ** -9          # half relative width of a band

#: rows / levels of the tables (the harness maps them to the arguments given to valjean)
STUDENT_NDF = [1, 2, 5, 30, None]                 # None = normal law; critical value decreases along the list
CHI2_NDF = [1, 2, 3, 4, 5, 6, 7, 8]               # critical value increases along the list
ALPHAS = ['0.001', '0.01', '0.05', '0.1', '0.32', '0.5', '0.9']   # increasing -> critical value decreases
TEST_ALPHAS = ['0.01', '0.05', '0.32']            # levels used as the `alpha` of a test in exhaustive runs


def D(x):
    if isinstance(x, Decimal):
        return x
    if isinstance(x, Fraction):
        return Decimal(x.numerator) / Decimal(x.denominator)
    if isinstance(x, float):
        raise TypeError('no floats in the oracle')
    return Decimal(x)


def _ctx():
    c = getcontext()
    c.prec = PREC
    return c


@lru_cache(maxsize=None)
def _pi(prec):
    with localcontext() as c:
        c.prec = prec + 10
        # Machin: pi = 16 atan(1/5) - 4 atan(1/239)
        def atan_inv(n):
            x = Decimal(1) / n
            x2 = x * x
            term, s, k = x, x, 1
            eps = Decimal(10) ** -(prec + 8)
            while abs(term) > eps:
                term = -term * x2
                k += 2
                s += term / k
            return s
        return +(16 * atan_inv(5) - 4 * atan_inv(239))


def pi():
    return _pi(getcontext().prec)


def atan(x):
    """arctangent of a non-negative Decimal."""
    x = D(x)
    if x < 0:
        return -atan(-x)
    with localcontext() as c:
        c.prec += 10
        halvings = 0
        while x > Decimal('0.05'):
            x = x / (1 + (1 + x * x).sqrt())     # atan(x) = 2 atan(x / (1 + sqrt(1 + x^2)))
            halvings += 1
        x2 = x * x
        term, s, k = x, x, 1
        eps = Decimal(10) ** -(c.prec + 2)
        while abs(term) > eps:
            term = -term * x2
            k += 2
            s += term / k
        r = s * (2 ** halvings)
    return +r


def erfc(x):
    """Complementary error function of a non-negative Decimal."""
    x = D(x)
    if x < 0:
        return 2 - erfc(-x)
    prec = getcontext().prec
    if x <= 6:
        # 1 - erf by the Maclaurin series; the terms reach e^{x^2} (< 1e16) and 1 - erf loses as much again
        with localcontext() as c:
            c.prec = prec + 45
            x2 = x * x
            term, s, n = x, x, 0
            eps = Decimal(10) ** -(c.prec - 2)
            while abs(term) > eps or n < 3:
                n += 1
                term = -term * x2 / n
                s += term / (2 * n + 1)
            r = 1 - 2 * s / pi().sqrt()
        return +r
    # continued fraction  erfc(x) = exp(-x^2)/sqrt(pi) * 1/(x + (1/2)/(x + 1/(x + (3/2)/(x + ...))))
    with localcontext() as c:
        c.prec = prec + 10
        f = x
        for k in range(400, 0, -1):
            f = x + (Decimal(k) / 2) / f
        r = (-(x * x)).exp() / pi().sqrt() / f
    return +r


def normal_two_sided_p(t2):
    t2 = D(t2)
    return erfc((t2 / 2).sqrt())


def student_two_sided_p(t2, nu):
    """P(|T_nu| >= sqrt(t2)) = 1 - A(t | nu); nu None -> normal law."""
    if nu is None:
        return normal_two_sided_p(t2)
    t2 = D(t2)
    nu = int(nu)
    with localcontext() as c:
        c.prec += 10
        cos2 = Decimal(nu) / (nu + t2)
        sin = (t2 / (nu + t2)).sqrt()
        if nu % 2 == 0:
            coef, powr, s = Decimal(1), Decimal(1), Decimal(1)
            for j in range(1, (nu - 2) // 2 + 1):
                coef = coef * (2 * j - 1) / (2 * j)
                powr = powr * cos2
                s += coef * powr
            a = sin * s
        else:
            theta = atan((t2 / nu).sqrt())
            if nu == 1:
                a = 2 * theta / pi()
            else:
                coef, powr, s = Decimal(1), Decimal(1), Decimal(1)
                for j in range(1, (nu - 3) // 2 + 1):
                    coef = coef * (2 * j) / (2 * j + 1)
                    powr = powr * cos2
                    s += coef * powr
                a = 2 * (theta + sin * cos2.sqrt() * s) / pi()
        r = 1 - a
    return +r


def chi2_sf(x, k):
    """Upper tail of the chi-square law with k >= 1 degrees of freedom at x >= 0."""
    x = D(x)
    k = int(k)
    if k < 1:
        raise ValueError('k >= 1')
    with localcontext() as c:
        c.prec += 10
        y = x / 2
        ey = (-y).exp()
        if k % 2 == 0:
            term, s = Decimal(1), Decimal(1)
            for j in range(1, k // 2):
                term = term * y / j
                s += term
            r = ey * s
        else:
            r = erfc(y.sqrt())
            if k > 1:
                sq = y.sqrt()
                gam = pi().sqrt() / 2           # Gamma(3/2)
                powr = sq                       # y^(1/2)
                s = powr / gam
                for j in range(1, (k - 3) // 2 + 1):
                    powr = powr * y
                    gam = gam * (Decimal(2 * j + 1) / 2)
                    s += powr / gam
                r += ey * s
    return +r


def solve(p_of_x, alpha, lo=Decimal(0), hi=Decimal(10) ** 7, rel=Decimal(10) ** -30):
    """x with p(x) = alpha for a strictly decreasing p, by bisection (Decimal)."""
    alpha = D(alpha)
    if not p_of_x(lo) > alpha > p_of_x(hi):
        raise ValueError('solve: no bracket')
    # geometric phase to get the magnitude, then arithmetic bisection
    while hi - lo > rel * hi:
        mid = (lo + hi) / 2
        if p_of_x(mid) > alpha:
            lo = mid
        else:
            hi = mid
    return (lo + hi) / 2


def band(p_of_x, alpha, rel=REL):
    """((lo_num, lo_den), (hi_num, hi_den)): rationals with 32-bit components around the solution of
    p(x) = alpha, with p(lo) > alpha > p(hi) verified at full precision (margin 1e-12 on alpha for the
    binary representation of the level)."""
    _ctx()
    with localcontext() as c:
        c.prec = 30
        x = solve(p_of_x, alpha, rel=Decimal(10) ** -22)
    den = 1
    while (x * (1 + rel) * den * 10 + 2) < INT_MAX and den * 10 < INT_MAX:
        den *= 10
    lo_n = int((x * (1 - rel) * den).to_integral_value(rounding=ROUND_FLOOR))
    hi_n = int((x * (1 + rel) * den).to_integral_value(rounding=ROUND_CEILING))
    if lo_n == hi_n:
        hi_n += 1
    assert 0 < lo_n < hi_n <= INT_MAX and den <= INT_MAX
    a = D(alpha)
    tiny = Decimal(10) ** -12
    if not (p_of_x(Decimal(lo_n) / den) > a * (1 + tiny) and p_of_x(Decimal(hi_n) / den) < a * (1 - tiny)):
        raise ArithmeticError('band verification failed for alpha=%s' % alpha)
    return ((lo_n, den), (hi_n, den))


@lru_cache(maxsize=None)
def student_table():
    """Crit[row][level] for Student.tla: bands around the squared two-sided critical value."""
    return tuple(tuple(band(lambda x, nu=nu: student_two_sided_p(x, nu), a) for a in ALPHAS)
                 for nu in STUDENT_NDF)


@lru_cache(maxsize=None)
def chi2_table():
    """Crit[ndf][level] for Chi2.tla: bands around the chi-square critical value."""
    return tuple(tuple(band(lambda x, k=k: chi2_sf(x, k), a) for a in ALPHAS) for k in CHI2_NDF)


def mid(b):
    """Approximate float of a band's centre (only to steer generators towards the critical region)."""
    (ln, ld), (hn, hd) = b
    return float(Fraction(ln, ld) + Fraction(hn, hd)) / 2


def selftest(verbose=False):
    """Identities that must hold between the laws + cross-check with scipy when it can be imported.
    Returns the list of problems (empty = fine)."""
    _ctx()
    bad = []
    tol = Decimal(10) ** -40

    def close(a, b, what, t=tol):
        if abs(a - b) > t * max(abs(a), abs(b), Decimal(1)):
            bad.append('%s: %s vs %s' % (what, a, b))
    # pi, atan, erfc
    close(4 * atan(Decimal(1)), pi(), '4 atan 1 = pi')
    close(erfc(Decimal(0)), Decimal(1), 'erfc 0')
    close(erfc(Decimal('5.9999999999')), erfc(Decimal('6.0000000001')), 'erfc continuity at the switch', Decimal(10) ** -8)
    # chi2 with 2 dof is exp(-x/2); chi2 with 1 dof at t^2 is the normal two-sided p
    for x in ('0.3', '1', '3.84', '6.6', '20'):
        close(chi2_sf(x, 2), (-D(x) / 2).exp(), 'chi2(2) sf(%s)' % x)
        close(chi2_sf(x, 1), normal_two_sided_p(x), 'chi2(1) vs normal at %s' % x)
        # Student nu=1 is Cauchy: p = 1 - 2 atan(t)/pi ; nu=2: 1 - t/sqrt(2+t^2)
        close(student_two_sided_p(x, 2), 1 - (D(x) / (2 + D(x))).sqrt(), 'student nu=2 at %s' % x)
        # Student -> normal for large nu (1e-3 agreement at nu = 2001 is all we ask) and is decreasing in nu
        if not student_two_sided_p(x, 5) > student_two_sided_p(x, 30) > normal_two_sided_p(x):
            bad.append('student tails not decreasing in nu at %s' % x)
    # chi2 recurrence  Q(k+2, x) = Q(k, x) + (x/2)^{k/2} e^{-x/2} / Gamma(k/2 + 1)  (even k checked explicitly)
    x = Decimal('7.5')
    close(chi2_sf(x, 4), chi2_sf(x, 2) + (x / 2) * (-x / 2).exp(), 'chi2 recurrence 2->4')
    close(chi2_sf(x, 6), chi2_sf(x, 4) + (x / 2) ** 2 / 2 * (-x / 2).exp(), 'chi2 recurrence 4->6')
    # odd k: numerical integration would be an independent check; use the Wilson-Hilferty sanity bound instead
    for k in (3, 5, 7):
        if not chi2_sf(x, k - 1) < chi2_sf(x, k) < chi2_sf(x, k + 1):
            bad.append('chi2 sf not increasing in k at k=%d' % k)
    # tables: monotone in level and in row; chi2 row 1 equals the normal row of Student
    st, ct = student_table(), chi2_table()
    fr = lambda q: Fraction(q[0], q[1])
    for name, tab, row_increasing in (('student', st, False), ('chi2', ct, True)):
        for r, row in enumerate(tab):
            for j in range(len(row) - 1):
                if not fr(row[j + 1][1]) < fr(row[j][0]):
                    bad.append('%s table row %d not decreasing in level' % (name, r))
            if r + 1 < len(tab):
                for j in range(len(row)):
                    a, b = (tab[r], tab[r + 1]) if row_increasing else (tab[r + 1], tab[r])
                    if not fr(a[j][1]) < fr(b[j][0]):
                        bad.append('%s table not monotone in rows at %d/%d' % (name, r, j))
    for j in range(len(ALPHAS)):
        if not (fr(st[-1][j][0]) < fr(ct[0][j][1]) and fr(ct[0][j][0]) < fr(st[-1][j][1])):
            bad.append('chi2(1) band and normal band do not overlap at level %s' % ALPHAS[j])
    # cross-check against scipy (never used as the oracle)
    try:
        from scipy import stats
    except Exception:  # pylint: disable=broad-except
        stats = None
    if stats is not None:
        for r, nu in enumerate(STUDENT_NDF):
            for j, a in enumerate(ALPHAS):
                thr = abs(stats.norm.ppf(0.5 * float(a)) if nu is None else stats.t.ppf(0.5 * float(a), nu))
                t2 = Fraction(thr) ** 2
                lo, hi = fr(st[r][j][0]), fr(st[r][j][1])
                if not lo < t2 < hi:
                    bad.append('scipy threshold^2 outside the band: ndf=%s alpha=%s %r not in [%s, %s]' % (nu, a, float(t2), float(lo), float(hi)))
        for r, k in enumerate(CHI2_NDF):
            for j, a in enumerate(ALPHAS):
                c = Fraction(float(stats.chi2.isf(float(a), k)))
                lo, hi = fr(ct[r][j][0]), fr(ct[r][j][1])
                if not lo < c < hi:
                    bad.append('scipy chi2 critical value outside the band: k=%s alpha=%s' % (k, a))
                if not (stats.chi2.sf(float(lo), k) > float(a) > stats.chi2.sf(float(hi), k)):
                    bad.append('scipy chi2.sf disagrees at the band ends: k=%s alpha=%s' % (k, a))
        for x in ('0.25', '1', '4', '9', '36'):
            for nu in STUDENT_NDF:
                mine = float(student_two_sided_p(x, nu))
                t = float(D(x).sqrt())
                ref = 2 * (stats.norm.sf(t) if nu is None else stats.t.sf(t, nu))
                if abs(mine - ref) > 1e-11 * max(mine, 1e-300):
                    bad.append('student p differs from scipy at t2=%s nu=%s: %r %r' % (x, nu, mine, ref))
            for k in CHI2_NDF:
                mine, ref = float(chi2_sf(x, k)), stats.chi2.sf(float(x), k)
                if abs(mine - ref) > 1e-11 * mine:
                    bad.append('chi2 sf differs from scipy at x=%s k=%s: %r %r' % (x, k, mine, ref))
    if verbose:
        print('laws selftest: %d problems%s' % (len(bad), '' if stats else ' (scipy not available, cross-check skipped)'))
        for b in bad:
            print('  ' + b)
    return bad


if __name__ == '__main__':
    import sys
    import time
    t0 = time.time()
    problems = selftest(verbose=True)
    for nu, row in zip(STUDENT_NDF, student_table()):
        print('student ndf=%-4s' % nu, ' '.join('%.6f' % mid(b) for b in row))
    for k, row in zip(CHI2_NDF, chi2_table()):
        print('chi2    ndf=%-4s' % k, ' '.join('%.6f' % mid(b) for b in row))
    print('%.1fs' % (time.time() - t0))
    sys.exit(1 if problems else 0)
