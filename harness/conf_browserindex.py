"""BrowserIndex.tla <-> valjean.eponine.browser.Index (+ how Browser builds and reads it).  Extra module, meant to run at the
end of C17 (`ctx.extra('BrowserIndex', conf_browserindex.run, tlc.workdir('c17bix'))`).

Index is not one of the listed properties: a disagreement between the real class and BrowserIndex.tla is an OBSERVATION
(recorded in ctx.cov['browserindex'], exit code unaffected), never a VIOLATION.

spec -> code : TLC enumerates every base list of items up to MaxItems and every session of operations (keep_only, strip,
               look-ups that hit / miss, deletions, index[k][v].add(i), Browser.merge, filter_by(include=), dump) up to a
               depth that depends on the length of the list; every session is replayed on a real Browser / Index, once per
               way of making the look-ups (plain subscripting `ix[k][v]`; the guarded way Browser itself does them through
               `in`, available_values, _filter_items_id_by; in the thorough tier also Mapping.get), and after EVERY step the
               raw projection of EVERY index of the session is compared with the state TLC computed for that prefix.
code -> spec : a seeded sample of these replays and seeded random longer sessions over a larger vocabulary are recorded
               with the projection and the answers of all read-only queries (len, iteration, `in`, values, dump(sort=True),
               str, dump(), Browser.keys/len/in/available_values) after every step, and judged by TLC through
               BrowserIndexTrace.tla (step-wise, total verdict); on the sampled replays the verdict of TLC and the direct
               comparison must agree.
negative     : a deliberately wrong keep_only in the model must violate KeepExact; corrupted copies of recorded traces
               must be rejected by the trace validator.
witnesses    : one single-worker run of WSpec collects the reached W_* (WProbe / WPost); all of them are required.

Writes go through the public attribute `.index` (the write path of the class docstring); reads through the Mapping
interface.  A KeyError for a key / value that is not there is accepted as the answer "nothing".
"""
import ast
import json
import os
import re
import sys
from concurrent.futures import ThreadPoolExecutor

import core
import tlc

SPEC = os.path.join(tlc.SPECS, 'BrowserIndex.tla')
TRACE = os.path.join(tlc.SPECS, 'BrowserIndexTrace.tla')

# the vocabulary of BrowserIndex.tla (KeySeq / ValSeq), in the order of sorted()
VOC_KEYS = ['alpha', 'index', 'kappa', 'omega', 'zeta']
VOC_VALS = ['a', 'b', 'c', 'x', 'y']
assert VOC_KEYS == sorted(VOC_KEYS) and VOC_VALS == sorted(VOC_VALS)
SMALL = dict(Keys=['alpha', 'kappa'], Vals=['a', 'b'], XKeys=['zeta'], XVals=['x'])
LARGE = dict(Keys=['alpha', 'kappa', 'omega'], Vals=['a', 'b', 'c'], XKeys=['zeta'], XVals=['x', 'y'])
ALL_KINDS = ['keep', 'strip', 'lookup', 'delkey', 'delval', 'add', 'merge', 'sub', 'dump']
INVARIANTS = ['TypeOK', 'Refines', 'CleanOK', 'BuildIsAbs', 'KeepExact', 'KeepLaws', 'ObsExact']
PROPERTIES = ['ReadOnly', 'Immutable']
ACTIONS = ['Build', 'DoKeep', 'DoStrip', 'DoLookup', 'DoDelKey', 'DoDelVal', 'DoAdd', 'DoMerge', 'DoSub', 'DoDump']
WITNESSES = ['W_KeepProper', 'W_KeepDropsKey', 'W_KeepOfKeep', 'W_MissingKey', 'W_MissingVal', 'W_EmptyKey', 'W_StripBites',
             'W_SharedValue', 'W_MergeOrder']
APPENDS = ('build', 'keep', 'strip', 'merge', 'sub')
QUERY_CLAUSES = ('len', 'iter', 'contains', 'values', 'dump-sorted-keys', 'dump-sorted-values', 'dump-sorted-index-key', 'str',
                 'dump-unsorted-is-str', 'dump-raises', 'browser-keys', 'browser-len', 'browser-contains',
                 'browser-available-values', 'queries-not-read-only')
MODES = ('subscript', 'guarded', 'get')


def constants(voc, depths, max_items, kinds=ALL_KINDS, hits=True, variant='doc', max_ix=4, max_merged=3):
    d = list(depths) + [0] * (4 - len(depths))
    return {'Keys': frozenset(voc['Keys']), 'Vals': frozenset(voc['Vals']), 'XKeys': frozenset(voc['XKeys']),
            'XVals': frozenset(voc['XVals']), 'MaxItems': max_items, 'MaxMerged': max_merged,
            'D0': d[0], 'D1': d[1], 'D2': d[2], 'D3': d[3], 'MaxIx': max_ix, 'OpKinds': frozenset(kinds),
            'HitLookups': hits, 'Variant': variant}


# ---------------------------------------------------------------------------------------------------------------------
# the real objects

class Entry:
    """One index of a session: the Index, the Browser that owns it (or None), the number of ids of its base list."""
    def __init__(self, ix, br, n):
        self.ix, self.br, self.n = ix, br, n


def _content(items):
    return [dict(m, results=p) for p, m in enumerate(items)]


def apply(sess, items, op, mode):
    """Apply one operation of the model to the real objects.  Returns (resv, resi, exc, qualifier)."""
    from valjean.eponine.browser import Browser, Index
    kind = op['op']
    resv, resi, exc, qual = [], [], '', kind
    appends = kind in APPENDS
    e = sess[op['src'] - 1] if kind != 'build' else None
    try:
        if kind == 'build':
            br = Browser(_content(items))
            sess.append(Entry(br.index, br, len(items)))
        elif kind == 'keep':
            sess.append(Entry(e.ix.keep_only(set(op['ids'])), None, e.n))
        elif kind == 'strip':
            # "stripped from useless keys": the sub-index of all the ids
            sess.append(Entry(e.ix.keep_only(set(range(e.n))), None, e.n))
        elif kind == 'merge':
            nb = e.br.merge(sess[op['i'] - 1].br)
            sess.append(Entry(nb.index, nb, len(nb)))
        elif kind == 'sub':
            nb = e.br.filter_by(include=(op['k'],))
            sess.append(Entry(nb.index, nb, len(nb)))
        elif kind == 'lookup':
            k, v = op['k'], op['v']
            has_k = k in e.ix
            qual = 'lookup-missing-key' if not has_k else 'lookup-hit' if v == '' or v in e.ix[k] else 'lookup-missing-value'
            if mode == 'subscript':         # a Mapping may answer KeyError for what is not there: that is "nothing"
                try:
                    if v == '':
                        resv = sorted(e.ix[k].keys())
                    else:
                        resi = sorted(e.ix[k][v])
                except KeyError:
                    pass
            elif mode == 'get':             # the Mapping mix-in: get() answers the default for a key that is not there
                inner = e.ix.get(k)
                if v == '':
                    resv = sorted(inner.keys()) if inner is not None else []
                else:
                    found = inner.get(v) if inner is not None else None
                    resi = sorted(found) if found is not None else []
            elif e.br is not None:
                if v == '':
                    resv = sorted(e.br.available_values(k)) if k in e.br else []
                else:
                    resi = sorted(e.br._filter_items_id_by(**{k: v}))  # pylint: disable=protected-access
            else:
                if v == '':
                    resv = sorted(e.ix[k].keys()) if k in e.ix else []
                else:
                    resi = sorted(e.ix[k][v]) if k in e.ix and v in e.ix[k] else []
        elif kind == 'delkey':
            if op['k'] in e.ix:
                del e.ix.index[op['k']]
        elif kind == 'delval':
            if op['k'] in e.ix and op['v'] in e.ix[op['k']]:
                del e.ix.index[op['k']][op['v']]
        elif kind == 'add':
            k, v, i = op['k'], op['v'], op['i']
            there = 'index' in e.ix and i in e.ix['index']
            if there and not (k in e.ix and any(i in s for s in e.ix[k].values())):
                e.ix.index[k][v].add(i)      # the write path of the class docstring: myindex.index[k][v]
        elif kind == 'dump':
            e.ix.dump(sort=True)
            e.ix.dump()
            str(e.ix)
            repr(e.ix)
    except Exception as ex:  # pylint: disable=broad-except
        exc = type(ex).__name__
        if appends:
            sess.append(Entry(Index(), None, e.n if e else len(items)))
    return resv, resi, exc, qual


def raw(e):
    """The raw projection of an Index through its Mapping interface (existing keys only): (rep, pos)."""
    rep = {}
    for k in list(e.ix):
        rep[k] = {v: frozenset(s) for v, s in e.ix[k].items()}
    pos = rep.pop('index', {})
    return rep, pos


def _jrep(rep):
    return [dict(k=k, vs=[dict(v=v, ids=sorted(rep[k][v])) for v in sorted(rep[k])]) for k in sorted(rep)]


def _jpos(pos):
    return [dict(i=i, ids=sorted(pos[i])) for i in sorted(pos)]


def observe(e, qkeys):
    """Projection + the answers of every read-only query, JSON-able (BrowserIndexTrace.tla reads this)."""
    ix = e.ix
    rep, pos = raw(e)
    q = dict(len=len(ix), keys=[k for k in ix], hasindex=bool('index' in ix),
             has=[dict(k=k, b=bool(k in ix)) for k in qkeys],
             vals=[dict(k=k, vs=sorted(ix[k].keys()) if k in ix else []) for k in qkeys],
             dumperr=False, dk=[], dv=[], dp=[], srep=[], spos=[], strsame=True)
    try:
        d = ast.literal_eval(ix.dump(sort=True))
        q['dk'] = list(d.keys())
        q['dv'] = [dict(k=k, vs=[dict(v=v, ids=sorted(s)) for v, s in d[k].items()]) for k in d if k != 'index']
        q['dp'] = [dict(i=i, ids=sorted(s)) for i, s in d.get('index', {}).items()]
        txt = str(ix)
        d2 = ast.literal_eval(txt)
        q['spos'] = _jpos(d2.pop('index', {}))
        q['srep'] = _jrep(d2)
        q['strsame'] = bool(ix.dump() == txt and ix.dump(sort=False) == txt)
        repr(ix)
    except Exception:  # pylint: disable=broad-except
        q['dumperr'] = True
    if e.br is not None:
        q.update(isbr=True, bkeys=list(e.br.keys()), blen=len(e.br), bhas=[dict(k=k, b=bool(k in e.br)) for k in qkeys],
                 bvals=[dict(k=k, vs=sorted(e.br.available_values(k))) for k in qkeys])
    else:
        q.update(isbr=False, bkeys=q['keys'], blen=e.n, bhas=q['has'], bvals=q['vals'])
    q['stable'] = bool(raw(e) == (rep, pos))
    return dict(rep=_jrep(rep), pos=_jpos(pos), obs=q)


def run_session(items, ops, mode, qkeys, check=None, record=True):
    """Replay `ops` (the first one is the build) on real objects.  `check(step, sess, event)` may compare after every step.
    Returns the trace (with the projection and the answers of the queries after every step if `record`)."""
    sess = []
    events = []
    disturbed = 0        # the step at which asking the read-only queries changed an index: nothing after it can be attributed
    for step, op in enumerate(ops, 1):
        resv, resi, exc, qual = apply(sess, items, op, mode)
        events.append(dict(op=op['op'], src=op['src'], k=op['k'], v=op['v'], ids=sorted(op['ids']), i=op['i'],
                           resv=resv, resi=resi, exc=exc, qual=qual, sess=None))
        if check is not None and not disturbed:
            check(step, sess, events[-1])
        if record:
            events[-1]['sess'] = [observe(e, qkeys) for e in sess]
            if not disturbed and not all(o['obs']['stable'] for o in events[-1]['sess']):
                disturbed = step
    return dict(items=[[dict(k=k, v=m[k]) for k in sorted(m)] for m in items], mode=mode, events=events, disturbed=disturbed)


# ---------------------------------------------------------------------------------------------------------------------
# TLC values -> Python

def _fun(x):
    """A TLC function / record / sequence as a dict (a function whose domain is 1..n is printed as a tuple)."""
    if isinstance(x, tuple):
        return {n + 1: v for n, v in enumerate(x)}
    return dict(x)


def _tlc_rep(e):
    return ({k: {v: frozenset(s) for v, s in _fun(inner).items()} for k, inner in _fun(e['rep']).items()},
            {i: frozenset(s) for i, s in _fun(e['pos']).items()})


def _tlc_ops(hist):
    return [dict(op=h['op'], src=h['src'], k=h['k'], v=h['v'], ids=sorted(h['ids']), i=h['i'],
                 resv=sorted(h['resv']), resi=sorted(h['resi'])) for h in hist]


# ---------------------------------------------------------------------------------------------------------------------
# the trace validator

def judge(ctx, wd, traces, voc, tag):
    """TLC's verdict on recorded traces: list (per trace) of [step, clause, index-of-the-session]."""
    if not traces:
        return []
    size = max(600, -(-len(traces) // 4))
    chunks = [traces[k:k + size] for k in range(0, len(traces), size)]

    def one(arg):
        n, chunk = arg
        tj = tlc.json_dump(os.path.join(wd, 'bix_%s_%d.json' % (tag, n)), chunk)
        oj = os.path.join(wd, 'bix_%s_%d_out.json' % (tag, n))
        cfg = tlc.write_cfg(os.path.join(wd, 'bix_%s_%d.cfg' % (tag, n)), spec='TSpec', deadlock=False, postcondition='Post',
                            constants=constants(voc, (99, 99, 99, 99), 99, max_ix=999, max_merged=999))
        res = tlc.run(TRACE, cfg, workers=1, coverage=False, env=dict(VERIF_TRACES=tj, VERIF_OUT=oj), timeout=1500)
        if not res.ok:
            raise tlc.MachineryError('BrowserIndexTrace %s: %s\n%s' % (tag, res.violation, res.out[-1500:]))
        with open(oj) as f:
            out = json.load(f)
        os.remove(tj)
        for tr, r in zip(chunk, out['reached']):
            if r != len(tr['events']) + 1:
                raise tlc.MachineryError('BrowserIndexTrace did not consume a trace (%s)' % tag)
        return res, [sorted([int(f[0]), str(f[1]), int(f[2])] for f in fl) for fl in out['failing']]
    with ThreadPoolExecutor(max_workers=min(4, len(chunks))) as tp:
        results = list(tp.map(one, enumerate(chunks)))
    failing = []
    for n, (res, fl) in enumerate(results):
        ctx.tlc(res, 'BrowserIndexTrace/%s%d' % (tag, n))
        failing += fl
    return failing


def corrupt(trace, how):
    """A copy of a recorded trace with one field changed; returns (trace, clause that must be reported) or None."""
    tr = json.loads(json.dumps(trace))
    for ev in tr['events']:
        for s in ev['sess']:
            if how == 'drop-id':
                for r in s['rep']:
                    for vs in r['vs']:
                        if vs['ids']:
                            vs['ids'] = vs['ids'][1:]
                            return tr, None
            elif how == 'flip-contains':
                s['obs']['has'][0]['b'] = not s['obs']['has'][0]['b']
                return tr, 'contains'
            elif how == 'swap-dump-order' and len(s['obs']['dk']) >= 2:
                s['obs']['dk'] = s['obs']['dk'][::-1]
                return tr, 'dump-sorted-keys'
            elif how == 'len' and s['obs']['len']:
                s['obs']['len'] += 1
                return tr, 'len'
    return None


# ---------------------------------------------------------------------------------------------------------------------

def print_summary(module, name, observations, strip=''):
    """The ONE line an extra module prints per run (nothing when there is nothing to observe): the classes with their counts,
    most frequent first, at most 300 characters.  Count and smallest example of every class stay in the evidence
    (ctx.cov[name]['observations'])."""
    if not observations:
        return
    try:
        '—…'.encode(getattr(sys.stdout, 'encoding', None) or 'ascii')
        dash, dots = '—', '…'
    except (UnicodeError, LookupError):
        dash, dots = '--', '...'
    head = 'OBSERVATION (%s, outside the listed properties) %d classes, %d cases: ' % (
        module, len(observations), sum(v['count'] for v in observations.values()))
    tail = ' %s details in evidence coverage.%s.observations' % (dash, name)
    items = ['%s (%d)' % (k[len(strip):] if strip and k.startswith(strip) else k, v['count'])
             for k, v in sorted(observations.items(), key=lambda kv: (-kv[1]['count'], kv[0]))]
    room = 300 - len(head) - len(tail)
    shown = []
    for n, item in enumerate(items):
        if len(', '.join(shown + [item])) + (len(dots) + 2 if n + 1 < len(items) else 0) > room:
            shown.append(dots)
            break
        shown.append(item)
    print(head + ', '.join(shown) + tail)


def _size(example):
    return len(json.dumps(example, sort_keys=True, default=str))


def random_session(rng, voc):
    """A seeded random session: ops chosen with Python-side bookkeeping that is only used to keep them applicable
    (TLC judges the outcome)."""
    nit = rng.randint(0, 5)
    items = []
    for _ in range(nit):
        items.append({k: rng.choice(voc['Vals']) for k in voc['Keys'] if rng.random() < 0.6})
    ops = [dict(op='build', src=0, k='', v='', ids=[], i=0)]
    meta = [dict(n=nit, br=True, items=items)]   # per index: ids of the base list, owned by an untouched Browser, its items
    qk, qv = voc['Keys'] + voc['XKeys'], voc['Vals'] + voc['XVals']
    nops = rng.randint(2, 9)
    for nop in range(nops):
        s = rng.randint(1, len(meta))
        m = meta[s - 1]
        if nop == 0 and nit and rng.random() < 0.3:
            s, m, forced = 1, meta[0], 'sub'
        elif nop == 1 and len(meta) == 2 and meta[1]['br'] and meta[0]['br'] and rng.random() < 0.8:
            s, m, forced = rng.choice([(1, meta[0], 'merge'), (2, meta[1], 'merge')])
        else:
            forced = None
        kind = forced or rng.choice(['keep', 'keep', 'strip', 'lookup', 'lookup', 'lookup', 'delkey', 'delval', 'add', 'merge', 'merge', 'sub', 'dump'])
        op = dict(op=kind, src=s, k='', v='', ids=[], i=0)
        if kind in ('keep', 'strip', 'merge', 'sub') and len(meta) >= 8:
            kind = op['op'] = 'lookup'
        if kind == 'keep':
            op['ids'] = sorted(i for i in range(m['n'] + 1) if rng.random() < 0.55)      # may name an id that does not exist
            meta.append(dict(n=m['n'], br=False))
        elif kind == 'strip':
            meta.append(dict(n=m['n'], br=False))
        elif kind == 'lookup':
            op['k'] = rng.choice(qk)
            op['v'] = rng.choice(qv + [''])
        elif kind == 'delkey':
            op['k'] = rng.choice(qk)
            m['br'] = False
        elif kind == 'delval':
            op['k'], op['v'] = rng.choice(qk), rng.choice(qv)
            m['br'] = False
        elif kind == 'add':
            op['k'], op['v'], op['i'] = rng.choice(voc['Keys']), rng.choice(voc['Vals']), rng.randint(0, m['n'])
            m['br'] = False
        elif kind == 'sub':
            if not m['br']:
                op['op'] = 'dump'
            else:
                op['k'] = rng.choice(voc['Keys'])
                sub = [x for x in m['items'] if op['k'] in x]
                meta.append(dict(n=len(sub), br=True, items=sub))
        elif kind == 'merge':
            cands = [t for t, mm in enumerate(meta, 1) if mm['br'] and (t != s or rng.random() < 0.3)]
            if not m['br'] or not cands:
                op['op'] = 'dump'
            else:
                t = rng.choice(cands)
                if m['n'] + meta[t - 1]['n'] > 8:
                    op['op'] = 'dump'
                else:
                    op['i'] = t
                    meta.append(dict(n=m['n'] + meta[t - 1]['n'], br=True, items=m['items'] + meta[t - 1]['items']))
        ops.append(op)
    return items, ops


def run(ctx, wd):
    core.use_repo()
    observations = {}

    def note(clause, qual, mode, example):
        # a query clause compares the answers with the projection at the same instant, whatever the operation before;
        # the way look-ups are made only matters for the look-ups
        if clause in QUERY_CLAUSES:
            key = 'BrowserIndex/%s' % clause
        else:
            key = 'BrowserIndex/%s/%s' % (clause, qual) + ('/' + mode if qual.startswith('lookup') else '')
        cur = observations.setdefault(key, dict(count=0, example=None))
        cur['count'] += 1
        if cur['example'] is None or _size(example) < _size(cur['example']):
            cur['example'] = example

    def example_of(tr, step, n=None):
        ev = tr['events'][step - 1]
        ex = dict(items=[{r['k']: r['v'] for r in m} for m in tr['items']], lookups=tr['mode'],
                  ops=[{k: e[k] for k in ('op', 'src', 'k', 'v', 'ids', 'i') if e[k] not in ('', [], 0) or k == 'op'}
                       for e in tr['events'][:step]])
        if n and ev.get('snap'):
            rep, pos = ev['snap'][n - 1]
            ex['observed'] = dict(index=n, rep={k: {v: sorted(s) for v, s in rep[k].items()} for k in sorted(rep)},
                                  pos={str(i): sorted(pos[i]) for i in sorted(pos)})
        elif n and ev['sess'] and 0 < n <= len(ev['sess']):
            s = ev['sess'][n - 1]
            ex['observed'] = dict(index=n, rep={r['k']: {x['v']: x['ids'] for x in r['vs']} for r in s['rep']},
                                  pos={str(r['i']): r['ids'] for r in s['pos']})
        if ev['op'] == 'lookup':
            ex['answer'] = ev['resv'] if ev['v'] == '' else ev['resi']
        return ex

    # ---- the model: TLC enumerates; in the background the witnesses (one run) and the wrong variant (one run) -----------
    depths, max_items, hits = ctx.pick(((2, 2, 1), 2, True), ((3, 2, 2, 1), 3, True))
    consts = constants(SMALL, depths, max_items, hits=hits)
    qkeys = LARGE['Keys'] + LARGE['XKeys']          # the queries of every recorded trace (one validator configuration)
    pool = ThreadPoolExecutor(max_workers=2)

    def witnesses():
        c2 = tlc.write_cfg(os.path.join(wd, 'wit.cfg'), spec='WSpec',
                           constants=constants(dict(SMALL, Keys=['alpha']), (2, 2, 2), 2, hits=False),
                           invariants=['WProbe'], postcondition='WPost', deadlock=False)
        return tlc.run(SPEC, c2, coverage=False, workers=1)

    def negative():
        c3 = tlc.write_cfg(os.path.join(wd, 'neg.cfg'), constants=constants(SMALL, (1, 1, 1), 2, variant='keeps-empty-sets'),
                           invariants=INVARIANTS, deadlock=False)
        return tlc.run(SPEC, c3, coverage=False, workers=1)
    side = [pool.submit(witnesses), pool.submit(negative)]

    cfg = tlc.write_cfg(os.path.join(wd, 'bix.cfg'), constants=consts, invariants=INVARIANTS, properties=PROPERTIES, deadlock=False)
    dump = os.path.join(wd, 'bix')
    res = tlc.run(SPEC, cfg, dump=dump, workers=ctx.pick(4, 8), timeout=1500)
    ctx.tlc(res, 'BrowserIndex/sessions')
    if not res.ok:
        raise tlc.MachineryError('BrowserIndex.tla: %s\n%s' % (res.violation, res.out[-1500:]))
    tlc.check_coverage(res, ACTIONS, 'BrowserIndex')

    # ---- spec -> code: every session, the projection of every index after every step ------------------------------
    states = {}
    prefixes = set()
    for st in tlc.read_dump(dump):
        hist = tuple(st['hist'])
        states[(st['items'], hist)] = st['ixs']
        if hist:
            prefixes.add((st['items'], hist[:-1]))
    os.remove(dump + '.dump')
    leaves = sorted((k for k in states if k not in prefixes and k[1]), key=repr)
    if not leaves:
        raise tlc.MachineryError('BrowserIndex: no session to replay')
    rng = ctx.rng
    modes = ctx.pick(MODES[:2], MODES)
    # the way look-ups are made cannot matter for a session without look-ups: one replay
    nmodes = [len(modes) if any(h['op'] == 'lookup' for h in k[1]) else 1 for k in leaves]
    total = sum(nmodes)
    cap = ctx.pick(800, 6000)
    chosen = set(range(total)) if total <= cap else set(rng.sample(range(total), cap))
    traces = []          # the replays that are also judged by TLC, with what the direct comparison found
    nsteps = nreplays = 0
    for key, nm in zip(leaves, nmodes):
        titems, hist = key
        items = [dict(_fun(m)) for m in titems]
        ops = _tlc_ops(hist)
        for mode in modes[:nm]:
            first = []

            def check(step, sess, ev, titems=titems, hist=hist, first=first, ops=ops):
                if first:
                    return
                want = states[(titems, hist[:step])]
                got = [raw(e) for e in sess]
                ev['snap'] = got
                if len(got) != len(want):
                    first.append((step, 'count', 0))
                    return
                for n, (g, w) in enumerate(zip(got, want), 1):
                    if g != _tlc_rep(w):
                        tgt = (n == len(got) if ev['op'] in APPENDS
                               else n == ev['src'] and ev['op'] in ('delkey', 'delval', 'add'))
                        first.append((step, 'result' if tgt else 'index-changed', n))
                        return
                op = ops[step - 1]
                if ev['op'] == 'lookup' and (ev['resv'] != op['resv'] or ev['resi'] != op['resi']):
                    first.append((step, 'answer', ev['src']))
                elif ev['exc']:
                    first.append((step, 'raises', ev['src']))
            tr = run_session(items, ops, mode, qkeys, check, record=nreplays in chosen)
            nsteps += len(ops)
            if first:
                step, clause, n = first[0]
                note(clause, tr['events'][step - 1]['qual'], mode, example_of(tr, step, n))
            for ev in tr['events']:
                ev.pop('snap', None)
            if nreplays in chosen:
                traces.append((tr, first[0] if first else None))
            nreplays += 1
    ctx.count(evaluations=nreplays)
    states.clear()

    # ---- code -> spec: random sessions (+ the sample of the replays, + corrupted copies), judged by TLC -------------
    rtraces = []
    for _ in range(ctx.pick(300, 4000)):
        items, ops = random_session(rng, LARGE)
        rtraces.append(run_session(items, ops, rng.choice(MODES), qkeys))
    negs = []
    for how in ('drop-id', 'flip-contains', 'swap-dump-order', 'len'):
        for tr in rtraces:
            c = corrupt(tr, how)
            if c is not None:
                negs.append((how,) + c)
                break
    if len(negs) < 4:
        raise tlc.MachineryError('BrowserIndex: no recorded trace to corrupt')
    batch = [t for t, _ in traces] + rtraces + [c[1] for c in negs]
    failing = judge(ctx, wd, batch, LARGE, 'traces')
    f_enum, f_rand, f_neg = failing[:len(traces)], failing[len(traces):len(traces) + len(rtraces)], failing[len(traces) + len(rtraces):]
    for (how, _tr, clause), fl in zip(negs, f_neg):
        got = {f[1] for f in fl}
        if not (clause in got if clause else got & {'result', 'index-changed', 'abstraction'}):
            raise tlc.MachineryError('negative self-test: the corrupted trace (%s) was not rejected by BrowserIndexTrace (%s)' % (how, sorted(got)))
    direct = ('result', 'index-changed', 'answer', 'raises', 'count')
    for (tr, found), fl in zip(traces, f_enum):
        # the clauses of the direct comparison were counted above; TLC must agree with it on the first failing step
        tfirst = min([f for f in fl if f[1] in direct and not 0 < tr['disturbed'] < f[0]], default=None)
        if (found is None) != (tfirst is None) or (found is not None and (found[0] != tfirst[0] or [found[0], found[1], found[2]] not in fl)):
            raise tlc.MachineryError('BrowserIndex: the direct comparison with the dumped states (%s) and the verdict of BrowserIndexTrace (%s) '
                                     'disagree on a replayed session' % (found, tfirst))
    for trs, fls, skip in (([t for t, _ in traces], f_enum, direct), (rtraces, f_rand, ())):
        for tr, fl in zip(trs, fls):
            seen = set()
            # "abstraction" compares with the abstract side that the model carries along the whole session: only its first
            # failure is reported, and not when an operation already gave a wrong index (that is the cause)
            wrong = min([f[0] for f in fl if f[1] in ('result', 'index-changed')], default=10 ** 9)
            abstr = min([f[0] for f in fl if f[1] == 'abstraction'], default=0)
            for step, clause, n in fl:
                if clause == 'count':
                    raise tlc.MachineryError('BrowserIndexTrace: the number of indexes of a recorded session differs from the model')
                qual = tr['events'][step - 1]['qual']
                if 0 < tr['disturbed'] < step and clause not in QUERY_CLAUSES:
                    continue
                if clause == 'abstraction' and (step != abstr or wrong <= step):
                    continue
                ckey = clause if clause in QUERY_CLAUSES else (clause, qual)
                if clause in skip or ckey in seen:
                    continue
                seen.add(ckey)
                note(clause, qual, tr['mode'], example_of(tr, step, n))
    ctx.count(evaluations=len(rtraces), traces=len(traces) + len(rtraces))

    # ---- the side runs ----------------------------------------------------------------------------------------------
    wres, nres = side[0].result(), side[1].result()
    pool.shutdown()
    ctx.tlc(wres, 'BrowserIndex/witnesses')
    ctx.tlc(nres, 'BrowserIndex/negative')
    m = re.search(r'<<\s*"WITNESSED",\s*\{(.*?)\}\s*>>', wres.out, re.S)
    reached = set(re.findall(r'"(W_\w+)"', m.group(1))) if m and wres.ok else set()
    if reached != set(WITNESSES):
        raise tlc.MachineryError('witnesses not reachable in BrowserIndex.tla: %s (%s)' % (sorted(set(WITNESSES) - reached), wres.violation))
    if nres.violation is None or nres.violation[0] != 'invariant' or nres.violation[1] not in ('KeepExact', 'CleanOK', 'KeepLaws'):
        raise tlc.MachineryError('negative self-test: the model with a keep_only that keeps empty sets was not rejected (%s)' % (nres.violation,))

    ctx.cov['browserindex'] = dict(states=res.distinct, sessions_replayed=len(leaves), replays=nreplays, steps_compared=nsteps,
                                   replays_judged_by_tlc=len(traces), random_sessions=len(rtraces), corrupted_traces_rejected=len(negs),
                                   witnesses=sorted(reached), observations={k: v for k, v in sorted(observations.items())})
    print_summary('BrowserIndex', 'browserindex', observations, strip='BrowserIndex/')
